#!/usr/bin/env python3
"""Assembles /verif/DESIGN.md from the hand-written parts, the findings file, the seeded metas and
the evidence files (rule texts)."""
import json, glob, os
H = os.path.dirname(os.path.dirname(os.path.abspath(__file__)))
def rd(n): return open(os.path.join(H, 'tools', n)).read()
k = json.load(open(os.path.join(H, 'known_findings.json')))
nknown = len([x for x in k if x['status'] == 'known'])
head = rd('design_head.md').replace('**11 known findings**', '**%d known findings**' % nknown)
# section 6
metas = [json.load(open(f)) for f in sorted(glob.glob(os.path.join(H, 'seeded', '*', 'meta.json')))]
rows = []
for m in metas:
    det = '; '.join('%s: %s' % (p, ', '.join(r)) for p, r in sorted(m.get('detected_by_rules', {}).items())) or '— (see note)'
    rows.append('| %s | %s | %s | %s | %s |' % (m['id'], m['breaks_property'], m['change'].replace('|', '/')[:230], det, m.get('detection', '')))
sec6 = rd('design_seeds.md').replace('@@MATRIX@@', '\n'.join(rows)).replace('@@NSEEDS@@', str(len([m for m in metas if m.get('round', 1) == 1])))
# appendix
app = ['\n---------------------------------------------------------------------------------------------\n', '## Appendix A. Rules applied per property (generated)\n']
for f in sorted(glob.glob(os.path.join(H, 'evidence', 'C*.json'))):
    e = json.load(open(f)); c = e['coverage']
    rules = c['explanation'].split('rules applied: ')[1].split(' || ')
    app.append('### %s — %d obligations, %d exceptions, %d known findings\n' % (e['property_id'], c['obligations'], c['exceptions_used'], c['known_findings']))
    for r in rules:
        if ': ' in r:
            rid, txt = r.split(': ', 1)
            app.append('* **%s** — %s' % (rid, txt))
        else:
            app.append('* ' + r)
    app.append('\nNot decided: ' + '; '.join(c['not_decided']) + '.\n')
open(os.path.join(H, 'DESIGN.md'), 'w').write(head + rd('design_mid.md') + rd('design_findings.md') + sec6 + rd('design_tail.md') + '\n'.join(app) + '\n')
print('DESIGN.md written', len(metas), 'seeds')
