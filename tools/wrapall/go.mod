module wrapall

go 1.26.8

require golang.org/x/tools v0.50.0

require (
	golang.org/x/mod v0.41.0 // indirect
	golang.org/x/sync v0.23.0 // indirect
)
