// wrapall rewrites a scratch copy of the repository: the body of every function of the given packages moves into a
// new private function <name>ImplZq and the original becomes a one-line wrapper around it.  Behaviour is
// unchanged; it is used to test that no rule depends on a function being written in one piece (development aid).
package main

import (
	"bytes"
	"fmt"
	"go/ast"
	"go/printer"
	"go/token"
	"os"
	"sort"
	"strings"

	"golang.org/x/tools/go/packages"
)

func main() {
	dir := os.Args[1]
	pats := os.Args[2:]
	cfg := &packages.Config{Mode: packages.LoadSyntax, Dir: dir, Tests: false, Env: append(os.Environ(), "GOWORK=off")}
	pkgs, err := packages.Load(cfg, pats...)
	if err != nil {
		fmt.Println(err)
		os.Exit(2)
	}
	total := 0
	for _, pk := range pkgs {
		for _, f := range pk.Syntax {
			name := pk.Fset.Position(f.Pos()).Filename
			if strings.HasSuffix(name, "_test.go") {
				continue
			}
			src, err := os.ReadFile(name)
			if err != nil {
				panic(err)
			}
			type ins struct {
				off  int
				text string
			}
			var edits []ins
			for _, d := range f.Decls {
				fd, ok := d.(*ast.FuncDecl)
				if !ok || fd.Body == nil || fd.Name.Name == "init" || fd.Name.Name == "main" || fd.Type.TypeParams != nil || len(fd.Body.List) < 2 {
					continue
				}
				if fd.Recv != nil && (len(fd.Recv.List) != 1 || len(fd.Recv.List[0].Names) != 1 || fd.Recv.List[0].Names[0].Name == "_") {
					continue
				}
				// every parameter needs a name to be forwarded
				okNames := true
				var args []string
				variadic := false
				if fd.Type.Params != nil {
					for _, fl := range fd.Type.Params.List {
						if len(fl.Names) == 0 {
							okNames = false
						}
						_, isVar := fl.Type.(*ast.Ellipsis)
						for _, nm := range fl.Names {
							if nm.Name == "_" {
								okNames = false
							}
							if isVar {
								args = append(args, nm.Name+"...")
								variadic = true
							} else {
								args = append(args, nm.Name)
							}
						}
					}
				}
				_ = variadic
				if !okNames {
					continue
				}
				// uses recover()? keep it in one piece
				usesRecover := false
				ast.Inspect(fd.Body, func(n ast.Node) bool {
					if id, ok := n.(*ast.Ident); ok && id.Name == "recover" {
						usesRecover = true
					}
					return true
				})
				if usesRecover {
					continue
				}
				impl := fd.Name.Name + "ImplZq"
				if ast.IsExported(impl) {
					impl = strings.ToLower(impl[:1]) + impl[1:len(impl)-6] + "ExpImplZq"
				}
				// signature text
				var sig bytes.Buffer
				printer.Fprint(&sig, pk.Fset, fd.Type)
				sigText := strings.TrimPrefix(sig.String(), "func")
				recvText := ""
				callPrefix := ""
				if fd.Recv != nil {
					var rb bytes.Buffer
					printer.Fprint(&rb, pk.Fset, fd.Recv.List[0].Type)
					rn := fd.Recv.List[0].Names[0].Name
					recvText = "(" + rn + " " + rb.String() + ") "
					callPrefix = rn + "."
				}
				call := callPrefix + impl + "(" + strings.Join(args, ", ") + ")"
				body := "{\n\t" + call + "\n}"
				if fd.Type.Results != nil && len(fd.Type.Results.List) > 0 {
					body = "{\n\treturn " + call + "\n}"
				}
				lb := pk.Fset.Position(fd.Body.Lbrace).Offset
				rb := pk.Fset.Position(fd.Body.Rbrace).Offset
				implDecl := "\n\nfunc " + recvText + impl + sigText + " " + string(src[lb:rb+1]) + "\n"
				edits = append(edits, ins{rb + 1, implDecl})
				edits = append(edits, ins{-(lb + 1), body + "\x00" + fmt.Sprint(rb+1)})
				total++
			}
			if len(edits) == 0 {
				continue
			}
			// apply from the end
			type rep struct {
				from, to int
				text     string
			}
			var reps []rep
			for _, e := range edits {
				if e.off >= 0 {
					reps = append(reps, rep{e.off, e.off, e.text})
				} else {
					parts := strings.SplitN(e.text, "\x00", 2)
					var to int
					fmt.Sscan(parts[1], &to)
					reps = append(reps, rep{-e.off - 1, to, parts[0]})
				}
			}
			sort.Slice(reps, func(i, j int) bool {
				if reps[i].from != reps[j].from {
					return reps[i].from > reps[j].from
				}
				return reps[i].to > reps[j].to
			})
			out := src
			for _, r := range reps {
				out = append(append(append([]byte{}, out[:r.from]...), []byte(r.text)...), out[r.to:]...)
			}
			if err := os.WriteFile(name, out, 0o644); err != nil {
				panic(err)
			}
		}
	}
	_ = token.NoPos
	fmt.Println("functions wrapped:", total)
}
