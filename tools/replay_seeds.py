#!/usr/bin/env python3
"""Replays the seeded changes that name <prop> in meta.json against scratch copies of the current
tree and reports whether the property's check still flags them.  Self-validation only: prints JSON."""
import json, os, shutil, subprocess, sys, glob
from concurrent.futures import ThreadPoolExecutor

here, repo, prop, scr = sys.argv[1:5]


def replay(meta_path):
    meta = json.load(open(meta_path))
    d = os.path.dirname(meta_path)
    name = os.path.basename(d)
    rec = {"seed": name, "breaks": meta.get("breaks_property"), "expected_rules": meta.get("detected_by_rules", {}).get(prop, [])}
    work = os.path.join(scr, "tree_" + name)
    vout = os.path.join(scr, "out_" + name)
    try:
        shutil.rmtree(work, ignore_errors=True)
        subprocess.run(["rsync", "-a", "--exclude", ".git", repo.rstrip("/") + "/", work + "/"], check=True)
        ap = subprocess.run(["git", "apply", "--whitespace=nowarn", os.path.join(d, "patch.diff")], cwd=work, capture_output=True, text=True)
        if ap.returncode != 0:
            rec["applied"] = False
            rec["note"] = "patch no longer applies to the current tree (skipped)"
            return rec
        rec["applied"] = True
        shutil.rmtree(vout, ignore_errors=True)
        os.makedirs(vout)
        shutil.copy(os.path.join(here, "known_findings.json"), vout)
        r = subprocess.run([os.path.join(here, "bin", "ykcheck"), "-repo", work, "-verif", vout, "-property", prop, "-tier", "quick"], capture_output=True, text=True)
        rules = sorted({l.split("]")[1].split()[0] for l in r.stdout.splitlines() if l.strip().startswith("[violation]") or l.strip().startswith("[undecided]")})
        rec["detected"] = r.returncode == 1
        rec["reported_rules"] = rules
        return rec
    finally:
        shutil.rmtree(work, ignore_errors=True)
        shutil.rmtree(vout, ignore_errors=True)


paths = []
for meta_path in sorted(glob.glob(os.path.join(here, "seeded", "*", "meta.json"))):
    if prop in json.load(open(meta_path)).get("detected_by_properties", []):
        paths.append(meta_path)
with ThreadPoolExecutor(max_workers=4) as ex:
    out = list(ex.map(replay, paths))
print(json.dumps({"seeds_replayed": len(out), "detected": sum(1 for x in out if x.get("detected")), "results": out}, indent=1))
