#!/bin/bash
# Applies each behaviour-preserving patch (default: /verif/neutral/*.diff, or the files given) to a scratch
# worktree and runs all checks: every one must stay silent (development aid; not a registered check).
export GOFLAGS=-mod=mod GOPROXY=off GOSUMDB=off GOTOOLCHAIN=local PATH=/opt/veriftools/go1.26.8/bin:$PATH; unset GOWORK
WT=/tmp/neutralwt.$$; OUT=/tmp/neutralout.$$
git -C /repo worktree add --detach "$WT" HEAD >/dev/null 2>&1 || exit 2
mkdir -p "$OUT"; cp /verif/known_findings.json "$OUT/"
trap 'git -C /repo worktree remove --force "$WT" >/dev/null 2>&1; rm -rf "$OUT"' EXIT
rc=0
FILES=("$@"); [ ${#FILES[@]} -eq 0 ] && FILES=(/verif/neutral/*.diff)
for f in "${FILES[@]}"; do
  git -C "$WT" checkout -- . ; git -C "$WT" clean -fdq; git -C "$WT" apply "$f" 2>/dev/null || { echo "SKIP (does not apply): $f"; continue; }
  (cd "$WT" && go build ./... ) || { echo "SKIP (does not build): $f"; continue; }
  res=$(${YKCHECK:-/verif/bin/ykcheck} -repo "$WT" -verif "$OUT" -property all 2>&1 | grep -E "\[violation\]|\[undecided\]")
  n=$(printf "%s" "$res" | grep -c .)
  echo "$f: $n alarms"; [ "$n" != "0" ] && { rc=1; printf "%s\n" "$res" | cut -c1-420; }
done
exit $rc
