// alpharename rewrites a scratch copy of the repository: every local variable, parameter, named result and
// receiver of the non-test files gets a suffix.  The result is trivially behaviour-preserving; it is used to test
// that no rule depends on the name of a local (development aid, not a registered check).
package main

import (
	"fmt"
	"go/ast"
	"go/types"
	"os"
	"sort"
	"strings"

	"golang.org/x/tools/go/packages"
)

func main() {
	dir := os.Args[1]
	suffix := "Zq"
	cfg := &packages.Config{Mode: packages.LoadSyntax, Dir: dir, Tests: false, Env: append(os.Environ(), "GOWORK=off")}
	pkgs, err := packages.Load(cfg, "./pkg/...")
	if err != nil {
		fmt.Println(err)
		os.Exit(2)
	}
	type edit struct{ off, n int }
	total := 0
	for _, pk := range pkgs {
		for _, f := range pk.Syntax {
			name := pk.Fset.Position(f.Pos()).Filename
			if strings.HasSuffix(name, "_test.go") {
				continue
			}
			var edits []edit
			local := func(o types.Object) bool {
				v, ok := o.(*types.Var)
				if !ok || v.IsField() || v.Pkg() == nil || v.Name() == "_" {
					return false
				}
				return v.Parent() != v.Pkg().Scope() && v.Parent() != types.Universe
			}
			ast.Inspect(f, func(n ast.Node) bool {
				if ts, ok := n.(*ast.TypeSwitchStmt); ok {
					if as, ok := ts.Assign.(*ast.AssignStmt); ok {
						if id, ok := as.Lhs[0].(*ast.Ident); ok && id.Name != "_" {
							edits = append(edits, edit{pk.Fset.Position(id.Pos()).Offset, len(id.Name)})
						}
					}
				}
				id, ok := n.(*ast.Ident)
				if !ok {
					return true
				}
				var o types.Object
				if d := pk.TypesInfo.Defs[id]; d != nil {
					o = d
				} else if u := pk.TypesInfo.Uses[id]; u != nil {
					o = u
				}
				if o != nil && local(o) {
					edits = append(edits, edit{pk.Fset.Position(id.Pos()).Offset, len(id.Name)})
				}
				return true
			})
			if len(edits) == 0 {
				continue
			}
			sort.Slice(edits, func(i, j int) bool { return edits[i].off > edits[j].off })
			src, err := os.ReadFile(name)
			if err != nil {
				panic(err)
			}
			last := -1
			for _, e := range edits {
				if e.off == last {
					continue
				}
				last = e.off
				src = append(src[:e.off+e.n], append([]byte(suffix), src[e.off+e.n:]...)...)
				total++
			}
			if err := os.WriteFile(name, src, 0o644); err != nil {
				panic(err)
			}
		}
	}
	fmt.Println("renamed identifier occurrences:", total)
}
