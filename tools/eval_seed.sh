#!/bin/bash
# usage: eval_seed.sh <dir with patch.diff and demo_test.go> [props...]
# Confirms a seeded change in a scratch worktree (demo passes without / fails with the patch, suite
# green with the patch) and runs the static checks against the patched tree. Development aid only.
set -u
D="$1"; shift
PROPS="${*:-all}"
WT=/tmp/evalwt.$$
OUT=/tmp/evalout.$$
export GOFLAGS=-mod=mod GOPROXY=off
git -C /repo worktree add --detach "$WT" HEAD >/dev/null 2>&1 || { echo "cannot create worktree"; exit 2; }
mkdir -p "$WT/build" "$OUT"
cleanup() { git -C /repo worktree remove --force "$WT" >/dev/null 2>&1; rm -rf "$OUT"; }
trap cleanup EXIT
DEMO="$D/demo_test.go"
PLACE=$(grep -m1 -o 'place at: *[^ ]*' "$DEMO" | sed 's/place at: *//')
[ -z "$PLACE" ] && { echo "no 'place at:' in demo"; exit 2; }
PKG=./$(dirname "$PLACE")/
cp "$DEMO" "$WT/$PLACE"
TESTS=$(grep -o '^func Test[A-Za-z0-9_]*' "$WT/$PLACE" | sed 's/func //' | paste -sd'|')
(cd "$WT" && go test -vet=off -count=1 -run "^($TESTS)\$" "$PKG" >"$OUT/demo_before.log" 2>&1); R1=$?
echo "demo without patch: exit $R1 (want 0)"
if ! git -C "$WT" apply "$D/patch.diff" 2>/dev/null; then
  git -C "$WT" apply --3way "$D/patch.diff" >/dev/null 2>&1 || { echo "PATCH DOES NOT APPLY"; exit 3; }
  echo "(patch applied with 3-way merge)"
fi
(cd "$WT" && go test -vet=off -count=1 -run "^($TESTS)\$" "$PKG" >"$OUT/demo_after.log" 2>&1); R2=$?
echo "demo with patch: exit $R2 (want non-zero)"; grep -m3 -E '^\s+.*_test.go:[0-9]+:|^panic' "$OUT/demo_after.log" | cut -c1-300
rm -f "$WT/$PLACE"
if [ -z "${SKIP_SUITE:-}" ]; then
(cd "$WT" && go test -json -vet=off -count=1 -timeout 25m ./... > "$OUT/suite.json" 2>/dev/null)
python3 - "$OUT/suite.json" "$WT" <<'PY'
import json,sys,subprocess,re
b=json.load(open('/root/.vp/BASELINE.json')); want=set(b['stable_pass']); got=set()
for l in open(sys.argv[1]):
    try: e=json.loads(l)
    except Exception: continue
    if e.get('Action')=='pass' and e.get('Test'): got.add(e['Package']+'::'+e['Test'])
m=sorted(want-got)
still=[]
# re-run missing top-level tests in isolation (load-induced flakes)
tops=sorted({(x.split('::')[0], x.split('::')[1].split('/')[0]) for x in m})
for pkg,t in tops:
    ok=False
    for _ in range(2):
        r=subprocess.run(['go','test','-vet=off','-count=1','-run','^'+re.escape(t)+'$',pkg],cwd=sys.argv[2],capture_output=True,text=True)
        if r.returncode==0: ok=True; break
    if not ok: still.append(pkg+'::'+t)
print('suite with patch: stable_pass',len(want),'missing first run',len(m),'still failing when re-run alone',still)
PY
fi
export GOSUMDB=off GOTOOLCHAIN=local PATH=/opt/veriftools/go1.26.8/bin:$PATH; unset GOWORK
cp /verif/known_findings.json "$OUT/"
for P in $PROPS; do
  ${YKCHECK:-/verif/bin/ykcheck} -repo "$WT" -verif "$OUT" -property "$P" -tier quick > "$OUT/check.log" 2>&1
  echo "checker[$P] exit $?"
  grep -E '^property=|^\s+\[(violation|undecided)\]' "$OUT/check.log" | grep -B1 -E '\[(violation|undecided)\]' | cut -c1-420
done
