#!/usr/bin/env python3
"""Generates /verif/MANIFEST.json from the table below (kept in one place so that the
manifest is always valid JSON and consistent with the registered rule sets)."""
import json, os, sys

HERE = os.path.dirname(os.path.dirname(os.path.abspath(__file__)))

# id -> (technique, what is decided, what is not decided, design section)
CLAIMS = {
}
NOT_APPLICABLE = {
}

def load_tables():
    path = os.path.join(HERE, "tools", "claims.json")
    with open(path) as f:
        t = json.load(f)
    return t["claims"], t["not_applicable"]

def main():
    claims, na = load_tables()
    props = [json.loads(l)["id"] for l in open(os.path.join(HERE, "properties.jsonl"))]
    checks = []
    for pid in props:
        if pid not in claims:
            continue
        c = claims[pid]
        checks.append({
            "property_id": pid,
            "quick_cmd": "./run.sh %s quick" % pid,
            "thorough_cmd": "./run.sh %s thorough" % pid,
            "evidence_file": "/verif/evidence/%s.json" % pid,
            "replay_cmd_template": "./run.sh -replay {path}",
            "engine": "ykcheck",
            "level_claimed": {
                "category": "other",
                "text": "Static necessary conditions: " + c["decides"] + " NOT decided: " + c["not_decided"],
                "design_ref": "DESIGN.md section 4, " + pid,
            },
            "level_note": "Trusted: go/types, x/tools (go/packages, go/ssa, VTA call graph), the rule and exception tables in /verif/checker, the assumption that calls used in conditions are pure between test and use. The check decides the structural clauses listed, not the run-time behaviour itself.",
            "technique": c["technique"],
        })
    missing = [p for p in props if p not in claims and p not in na]
    if missing:
        print("properties neither claimed nor not_applicable:", missing, file=sys.stderr)
        sys.exit(1)
    env = "export GOFLAGS=-mod=mod GOPROXY=off GOSUMDB=off GOTOOLCHAIN=local PATH=/opt/veriftools/go1.26.8/bin:$PATH; unset GOWORK; "
    manifest = {
        "version": 1,
        "setup_cmd": env + "mkdir -p bin evidence && cd checker && go build -o ../bin/ykcheck . && cd .. && test -x bin/ykcheck",
        "hooks": {
            "guard": "verif",
            "enable": "none needed: the analysis reads the unmodified source tree; no build tag is used",
            "baseline_off_cmd": "cd /repo && GOFLAGS=-mod=mod GOPROXY=off go test -vet=off -count=1 -timeout 25m ./...",
            "source_commits": [],
            "add_only": True,
        },
        "engines": [{
            "name": "ykcheck",
            "path": "/verif/checker",
            "serves_properties": [c["property_id"] for c in checks],
            "kind_free_text": "repository-specific static analyser (go/packages + go/types AST rules with structured path conditions, field-write and who-may-call confinement, SSA/VTA call-graph reachability, table extraction, arithmetic/nil/comparator lints)",
        }],
        "checks": checks,
        "notes": "All checks are static analyses of /repo's current working tree; nothing is executed. See DESIGN.md. known_findings.json lists genuine defects recorded rather than repaired.",
        "not_applicable": [{"property_id": k, "reason": v} for k, v in sorted(na.items()) if k not in claims],
    }
    with open(os.path.join(HERE, "MANIFEST.json"), "w") as f:
        json.dump(manifest, f, indent=1)
        f.write("\n")
    print("wrote MANIFEST.json with %d checks, %d not_applicable" % (len(checks), len(manifest["not_applicable"])))

if __name__ == "__main__":
    main()
