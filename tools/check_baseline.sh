#!/bin/bash
# Runs the pinned suite on /repo (guard off: there is no guard) and compares with BASELINE.json's stable_pass list.
cd /repo && GOFLAGS=-mod=mod GOPROXY=off go test -json -vet=off -count=1 -timeout 25m ./... > /tmp/baseline_run.json 2>/dev/null
python3 - <<'PY'
import json
b=json.load(open('/root/.vp/BASELINE.json'))
want=set(b['stable_pass'])
got=set()
for l in open('/tmp/baseline_run.json'):
    try: e=json.loads(l)
    except Exception: continue
    if e.get('Action')=='pass' and e.get('Test'):
        got.add(e['Package']+'::'+e['Test'])
missing=sorted(want-got)
print('stable_pass',len(want),'passed now',len(want&got),'missing',len(missing))
for m in missing[:40]: print('  MISSING',m)
PY
