#!/bin/bash
# usage: run.sh <property|all> <quick|thorough>   (or: run.sh -replay <file>)
# Runs the static checker against /repo's current working tree.
# thorough additionally (i) re-checks call-graph unreachability on the CHA graph, (ii) replays the
# seeded changes kept under seeded/ against scratch copies of the current tree and records in the
# evidence whether the property's rules still report them (self-validation of the checker; it never
# changes the verdict on /repo itself).
set -u
export GOFLAGS=-mod=mod GOPROXY=off GOSUMDB=off GOTOOLCHAIN=local
export PATH=/opt/veriftools/go1.26.8/bin:$PATH
unset GOWORK
HERE="$(cd "$(dirname "$0")" && pwd)"
REPO="${VERIF_REPO:-/repo}"
if [ ! -x "$HERE/bin/ykcheck" ] || [ -n "$(find "$HERE/checker" -name '*.go' -newer "$HERE/bin/ykcheck" 2>/dev/null | head -1)" ]; then
  mkdir -p "$HERE/bin"
  (cd "$HERE/checker" && go build -o "$HERE/bin/ykcheck" .) || { echo "UNDECIDED: checker build failed"; exit 2; }
fi
if [ "${1:-}" = "-replay" ]; then
  exec "$HERE/bin/ykcheck" -repo "$REPO" -verif "$HERE" -replay "$2"
fi
PROP="$1"; TIER="${2:-quick}"
EXTRA=""
if [ "$TIER" = "thorough" ] && [ "$PROP" != "all" ] && [ -d "$HERE/seeded" ]; then
  SCR="${TMPDIR:-/tmp}/ykseed.$$"
  mkdir -p "$SCR"
  trap 'rm -rf "$SCR"' EXIT
  python3 "$HERE/tools/replay_seeds.py" "$HERE" "$REPO" "$PROP" "$SCR" > "$SCR/replay.json" 2>"$SCR/replay.err" && EXTRA="-extra $SCR/replay.json"
fi
"$HERE/bin/ykcheck" -repo "$REPO" -verif "$HERE" -property "$PROP" -tier "$TIER" $EXTRA ${3:-}
exit $?
