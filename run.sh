#!/bin/bash
# usage: run.sh <property|all> <quick|thorough>   (or: run.sh -replay <file>)
# Runs the static checker against /repo's current working tree.
set -u
export GOFLAGS=-mod=mod GOPROXY=off GOSUMDB=off GOTOOLCHAIN=local
export PATH=/opt/veriftools/go1.26.8/bin:$PATH
unset GOWORK
HERE="$(cd "$(dirname "$0")" && pwd)"
REPO="${VERIF_REPO:-/repo}"
if [ ! -x "$HERE/bin/ykcheck" ] || [ -n "$(find "$HERE/checker" -name '*.go' -newer "$HERE/bin/ykcheck" 2>/dev/null | head -1)" ]; then
  (cd "$HERE/checker" && go build -o "$HERE/bin/ykcheck" .) || { echo "UNDECIDED: checker build failed"; exit 2; }
fi
if [ "${1:-}" = "-replay" ]; then
  exec "$HERE/bin/ykcheck" -repo "$REPO" -verif "$HERE" -replay "$2"
fi
exec "$HERE/bin/ykcheck" -repo "$REPO" -verif "$HERE" -property "$1" -tier "${2:-quick}" ${3:-}
