package main

// Rules added after the round-5 seeded changes (section 6.3d of DESIGN.md).

import (
	"go/ast"
	"go/token"
	"go/types"
	"strings"
)

func init() {
	registerExtra("C05", ruleChildTrackerUnderFullPath)
	registerExtra("C08", ruleQuotaExcessNetOfPreempting)
	registerExtra("C10", ruleReplacedOnCompletingRuns)
	registerExtra("C04", ruleSwapUnlinkedWhenNodeRemoved)
}

// ruleChildTrackerUnderFullPath: a child tracker is created under the full path of its parent.
func ruleChildTrackerUnderFullPath(c *Ctx) {
	p := c.p
	c.Rule("C05.r", "every child QueueTracker is created under the full path of the tracker that creates it (first argument of newQueueTracker is the creating tracker's queuePath field): the wildcard limits of the configuration are looked up under that path when the tracker is born, a tracker created under any other string starts without the configured limits")
	n := 0
	for _, fn := range p.ModuleFuncs() {
		if fn.Decl == nil || fn.Decl.Body == nil || !strings.HasPrefix(fn.Name, "ugm.QueueTracker.") {
			continue
		}
		for _, call := range p.callsInShallow(fn, "ugm.newQueueTracker") {
			if len(call.Args) < 1 {
				continue
			}
			n++
			f := p.SelField(call.Args[0])
			ok := f != nil && p.FieldName(f) == "ugm.QueueTracker.queuePath"
			if !ok {
				// through a single-definition local
				for _, t := range p.chain(T(call.Args[0], p.StateAt(fn, call))) {
					if g := p.SelField(t.E); g != nil && p.FieldName(g) == "ugm.QueueTracker.queuePath" {
						ok = true
					}
				}
			}
			c.Check("C05.r", "child tracker created under the parent's full path", call, ok, "newQueueTracker is called with %s as parent path, not with the creating tracker's queuePath: below the first level the child's path no longer matches the configured queue and its wildcard limits are not applied", p.Src(call.Args[0]))
		}
	}
	c.Floor("C05.r", "child trackers created inside QueueTracker methods", n, 3)
}

// ruleQuotaExcessNetOfPreempting: the excess over the lowered maximum is computed on the usage net of what is already being preempted.
func ruleQuotaExcessNetOfPreempting(c *Ctx) {
	p := c.p
	c.Rule("C08.m", "setPreemptableResources measures the excess over the maximum on the usage that remains after the victims already marked are gone (allocated minus preempting): the raw allocated total is read only as the minuend of that difference, so a second run while victims are still terminating does not claim the same excess again")
	fn := c.MustFunc("C08.m", "objects.QuotaPreemptionContext.setPreemptableResources")
	if fn == nil {
		return
	}
	n := 0
	ast.Inspect(fn.Decl.Body, func(nd ast.Node) bool {
		call, ok := nd.(*ast.CallExpr)
		if !ok {
			return true
		}
		for i, a := range call.Args {
			f := p.SelField(a)
			if f == nil || p.FieldName(f) != "objects.QuotaPreemptionContext.allocatedResource" {
				continue
			}
			n++
			okUse := i == 0 && len(call.Args) == 2 && p.IsCall(call, "resources.SubOnlyExisting", "resources.Sub", "resources.SubEliminateNegative")
			if okUse {
				g := p.SelField(call.Args[1])
				okUse = g != nil && p.FieldName(g) == "objects.QuotaPreemptionContext.preemptingResource"
			}
			if !okUse && p.isLogCall(call) {
				okUse = true
			}
			c.Check("C08.m", "allocated total only read net of the preempting amount", call, okUse, "setPreemptableResources passes the raw allocatedResource to %s: the amount already claimed by earlier victims is claimed again", p.Src(call.Fun))
		}
		return true
	})
	c.Floor("C08.m", "reads of the allocated total in setPreemptableResources", n, 1)
}

// ruleReplacedOnCompletingRuns: the real allocation that replaces the only placeholder restarts a Completing application.
func ruleReplacedOnCompletingRuns(c *Ctx) {
	p := c.p
	c.Rule("C10.i", "Application.addAllocationInternal: a condition that exempts a Replaced allocation from raising RunApplication also lets a Completing application through (the removal of the last placeholder has moved a one-placeholder gang to Completing; without the event the application completes with a live allocation)")
	fn := c.MustFunc("C10.i", "objects.Application.addAllocationInternal")
	if fn == nil {
		return
	}
	n := 0
	for _, call := range p.callsIn(fn, "objects.Application.HandleApplicationEvent") {
		if len(call.Args) < 1 || p.Src(call.Args[0]) != "RunApplication" {
			continue
		}
		n++
		for _, anc := range p.enclosingIfs(fn, call) {
			mentionsReplaced := false
			ast.Inspect(anc.Cond, func(m ast.Node) bool {
				if id, ok := m.(*ast.Ident); ok {
					if cst, isC := p.ObjOf(id).(*types.Const); isC && cst.Name() == "Replaced" {
						mentionsReplaced = true
					}
				}
				return true
			})
			if !mentionsReplaced {
				continue
			}
			c.Check("C10.i", "Replaced allocation on a Completing application raises RunApplication", anc, len(p.callsInNode(anc.Cond, "objects.Application.IsCompleting")) > 0, "the condition %s exempts Replaced allocations from RunApplication without an exception for a Completing application", p.Src(anc.Cond))
		}
	}
	c.Floor("C10.i", "RunApplication raised in addAllocationInternal", n, 1)
}

// ruleSwapUnlinkedWhenNodeRemoved: the pair of an in-flight swap is unlinked whatever the application answers.
func ruleSwapUnlinkedWhenNodeRemoved(c *Ctx) {
	p := c.p
	c.Rule("C04.i", "PartitionContext.removeNodeAllocations unlinks the placeholder and the real allocation of an in-flight swap (ClearRelease on both) independent of whether the ask could be put back (DeallocateAsk may fail because the shim withdrew it): a link that survives lets a late confirmation announce an allocation for a withdrawn ask on the removed node")
	fn := c.MustFunc("C04.i", "scheduler.PartitionContext.removeNodeAllocations")
	if fn == nil {
		return
	}
	calls := p.callsIn(fn, "objects.Allocation.ClearRelease")
	for _, call := range calls {
		st := p.StateAt(fn, call)
		bad := p.factAbout(st, func(e ast.Expr, a Atom) bool {
			t := p.TypeOf(e)
			return t != nil && t.String() == "error"
		})
		c.Check("C04.i", "swap unlinked independent of the error of DeallocateAsk", call, bad == "", "ClearRelease only runs under the condition %s on an error value: when putting the ask back fails the two allocations stay linked", bad)
	}
	c.Floor("C04.i", "ClearRelease in removeNodeAllocations", len(calls), 2)
}

// enclosingIfs: the if statements around n (innermost first) in whose then- or else-branch n lies.
func (p *Prog) enclosingIfs(fn *Func, n ast.Node) []*ast.IfStmt {
	var out []*ast.IfStmt
	for par := p.Parent(n); par != nil; par = p.Parent(par) {
		switch x := par.(type) {
		case *ast.IfStmt:
			out = append(out, x)
		case *ast.FuncDecl:
			return out
		}
	}
	return out
}

func init() { registerExtra("C20", ruleRecentWindowBoundary) }

// ruleRecentWindowBoundary: the window of the most recent events starts at last-count+1 as soon as that is not negative.
func ruleRecentWindowBoundary(c *Ctx) {
	p := c.p
	c.Rule("C20.k", "eventRingBuffer.GetRecentEvents computes the start of the history window as lastID - count + 1 exactly when lastID >= count: a strictly stronger guard (lastID > count) starts at id 0 when exactly count+1 events exist and the newest requested event is cut off (or nothing is returned once id 0 has left the buffer)")
	fn := c.MustFunc("C20.k", "events.eventRingBuffer.GetRecentEvents")
	if fn == nil {
		return
	}
	n := 0
	ast.Inspect(fn.Decl.Body, func(nd ast.Node) bool {
		be, ok := nd.(*ast.BinaryExpr)
		if !ok || be.Op != token.SUB || !p.isParam(fn, be.Y, 0) {
			return true
		}
		st := p.StateAt(fn, be)
		if !p.reaches(T(be.X, st), "events.eventRingBuffer.getLastEventID") {
			return true
		}
		n++
		has := func(want token.Token) bool {
			return p.Holds(st, p.CmpAtom(func(op token.Token, x, y Term) bool {
				return op == want && p.isParam(fn, y.E, 0) && p.reaches(x, "events.eventRingBuffer.getLastEventID")
			}))
		}
		c.Check("C20.k", "window start guarded by lastID >= count, not more", be, has(token.GEQ) || !has(token.GTR), "lastID - count + 1 is only used under lastID > count: with exactly count+1 recorded events the window starts at 0 instead of 1; facts: %v", p.FactStrings(st))
		return true
	})
	c.Floor("C20.k", "window start computed in GetRecentEvents", n, 1)
}
