package main

// Rename resolution.  Rules anchor on canonical names (pkg.Type.method).  Unexported functions get renamed in
// ordinary maintenance; a rule must then follow the function, not fail on the missing name.  names_baseline.txt
// lists the unexported functions of the tree the rules were written for together with receiver and signature.  When
// a baseline name is missing and exactly one function that is not in the baseline has the same package, receiver
// and signature, it is taken to be the renamed function and keeps its old canonical name inside the checker.
// The baseline is never used to raise an alarm.

import (
	"crypto/sha1"
	_ "embed"
	"fmt"
	"go/ast"
	"go/types"
	"sort"
	"strings"
)

//go:embed names_baseline.txt
var namesBaseline string

func (p *Prog) sigKey(fn *types.Func) string {
	sig, _ := fn.Type().(*types.Signature)
	if sig == nil {
		return ""
	}
	q := func(pk *types.Package) string { return pk.Path() }
	recv := ""
	if sig.Recv() != nil {
		recv = types.TypeString(sig.Recv().Type(), q)
	}
	pkg := ""
	if fn.Pkg() != nil {
		pkg = fn.Pkg().Path()
	}
	tup := func(t *types.Tuple) string {
		var parts []string
		for i := 0; i < t.Len(); i++ {
			parts = append(parts, types.TypeString(t.At(i).Type(), q))
		}
		return "(" + strings.Join(parts, ",") + ")"
	}
	v := ""
	if sig.Variadic() {
		v = "..."
	}
	return pkg + "|" + recv + "|" + tup(sig.Params()) + v + tup(sig.Results())
}

// dumpNames prints the baseline (run on the tree the rules were written for).
func (p *Prog) dumpNames() {
	var lines []string
	for _, fn := range p.funcs {
		if fn.Obj.Exported() || strings.Contains(fn.Name, "#") || fn.Obj.Name() == "init" || fn.Obj.Name() == "main" || fn.Obj.Name() == "_" {
			continue
		}
		lines = append(lines, fn.Name+"\t"+p.sigKey(fn.Obj)+"\t"+p.bodyPrint(fn))
	}
	sort.Strings(lines)
	for _, l := range lines {
		fmt.Println(l)
	}
}

// resolveRenames re-keys renamed unexported functions under their baseline name.
func (p *Prog) resolveRenames() {
	p.renamed = map[string]string{}
	base := map[string]string{}
	basePrint := map[string]string{}
	for _, l := range strings.Split(namesBaseline, "\n") {
		if parts := strings.Split(l, "\t"); len(parts) >= 2 {
			base[parts[0]] = parts[1]
			if len(parts) >= 3 {
				basePrint[parts[0]] = parts[2]
			}
		}
	}
	if len(base) == 0 {
		return
	}
	p.baselineKnown = map[string]bool{}
	for name := range base {
		p.baselineKnown[name] = true
	}
	missingBySig := map[string][]string{}
	for name, sig := range base {
		if p.Funcs[name] == nil {
			missingBySig[sig] = append(missingBySig[sig], name)
		}
	}
	if len(missingBySig) == 0 {
		return
	}
	newBySig := map[string][]*Func{}
	for _, fn := range p.funcs {
		if fn.Obj.Exported() || strings.Contains(fn.Name, "#") {
			continue
		}
		if _, known := base[fn.Name]; known {
			continue
		}
		k := p.sigKey(fn.Obj)
		newBySig[k] = append(newBySig[k], fn)
	}
	type pair struct {
		old string
		fn  *Func
	}
	var pairs []pair
	for sig, olds := range missingBySig {
		news := newBySig[sig]
		if len(olds) == 1 && len(news) == 1 {
			pairs = append(pairs, pair{olds[0], news[0]})
			continue
		}
		// several functions of one signature were renamed together: tell them apart by their bodies
		for _, old := range olds {
			var match []*Func
			for _, nf := range news {
				if basePrint[old] != "" && p.bodyPrint(nf) == basePrint[old] {
					match = append(match, nf)
				}
			}
			if len(match) == 1 {
				pairs = append(pairs, pair{old, match[0]})
			}
		}
	}
	for _, pr := range pairs {
		fn := pr.fn
		old := pr.old
		p.renamed[old] = fn.Name
		delete(p.Funcs, fn.Name)
		fn.Name = old
		p.Funcs[old] = fn
		if p.alias == nil {
			p.alias = map[*types.Func]string{}
		}
		p.alias[fn.Obj.Origin()] = old
	}
}

// ---------------------------------------------------------------- local names

//go:embed locals_baseline.txt
var localsBaseline string

type localDecl struct {
	obj types.Object
	typ string
}

// localsOf lists the receiver, parameters, results and local variables of fn in declaration order.
func (p *Prog) localsOf(fn *Func) []localDecl {
	var out []localDecl
	seen := map[types.Object]bool{}
	q := func(pk *types.Package) string { return p.PkgShort(pk.Path()) }
	add := func(id *ast.Ident) {
		if id == nil || id.Name == "_" {
			return
		}
		o := p.Info.Defs[id]
		if o == nil {
			return
		}
		v, ok := o.(*types.Var)
		if !ok || v.IsField() || seen[o] {
			return
		}
		seen[o] = true
		out = append(out, localDecl{o, types.TypeString(v.Type(), q)})
	}
	ast.Inspect(fn.Decl, func(n ast.Node) bool {
		if id, ok := n.(*ast.Ident); ok {
			add(id)
		}
		return true
	})
	// the symbolic variable of a type switch has one implicit object per clause: name them after the first
	return out
}

func (p *Prog) dumpLocals() {
	var lines []string
	for _, fn := range p.funcs {
		if fn.Decl.Body == nil || strings.Contains(fn.Name, "#") {
			continue
		}
		var parts []string
		for _, l := range p.localsOf(fn) {
			parts = append(parts, l.obj.Name()+"\x1f"+l.typ)
		}
		if len(parts) > 0 {
			lines = append(lines, fn.Name+"\t"+strings.Join(parts, "\x1e"))
		}
	}
	sort.Strings(lines)
	for _, l := range lines {
		fmt.Println(l)
	}
}

// resolveLocalRenames: inside the checker a renamed local, parameter or receiver prints under the name it has
// in the reference tree (p.Src, keys of obligations), so that rules and exceptions written against those names
// keep applying.  Locals are aligned by declaration order and type; a function whose locals do not align keeps
// its own names.  Never used to raise an alarm.
func (p *Prog) resolveLocalRenames() {
	p.localAlias = map[types.Object]string{}
	base := map[string][][2]string{}
	for _, l := range strings.Split(localsBaseline, "\n") {
		parts := strings.SplitN(l, "\t", 2)
		if len(parts) != 2 {
			continue
		}
		var ds [][2]string
		for _, d := range strings.Split(parts[1], "\x1e") {
			nt := strings.SplitN(d, "\x1f", 2)
			if len(nt) == 2 {
				ds = append(ds, [2]string{nt[0], nt[1]})
			}
		}
		base[parts[0]] = ds
	}
	for _, fn := range p.funcs {
		old, ok := base[fn.Name]
		if !ok || fn.Decl.Body == nil {
			continue
		}
		cur := p.localsOf(fn)
		same := len(cur) == len(old)
		if same {
			for i := range cur {
				if cur[i].obj.Name() != old[i][0] {
					same = false
				}
			}
		}
		if same {
			continue
		}
		// align on the sequence of types (longest common subsequence)
		n, m := len(old), len(cur)
		lcs := make([][]int, n+1)
		for i := range lcs {
			lcs[i] = make([]int, m+1)
		}
		for i := n - 1; i >= 0; i-- {
			for j := m - 1; j >= 0; j-- {
				if old[i][1] == cur[j].typ {
					lcs[i][j] = lcs[i+1][j+1] + 1
					// prefer keeping equal names aligned
					if old[i][0] == cur[j].obj.Name() {
						lcs[i][j]++
					}
				}
				if lcs[i+1][j] > lcs[i][j] {
					lcs[i][j] = lcs[i+1][j]
				}
				if lcs[i][j+1] > lcs[i][j] {
					lcs[i][j] = lcs[i][j+1]
				}
			}
		}
		used := map[string]bool{}
		for _, c := range cur {
			used[c.obj.Name()] = true
		}
		i, j := 0, 0
		for i < n && j < m {
			match := old[i][1] == cur[j].typ
			val := 0
			if match {
				val = lcs[i+1][j+1] + 1
				if old[i][0] == cur[j].obj.Name() {
					val++
				}
			}
			switch {
			case match && val == lcs[i][j]:
				if old[i][0] != cur[j].obj.Name() {
					p.localAlias[cur[j].obj] = old[i][0]
				}
				i++
				j++
			case lcs[i+1][j] >= lcs[i][j+1]:
				i++
			default:
				j++
			}
		}
	}
	// the per-clause objects of a type switch share the name of the symbolic variable
	for id, o := range p.Info.Implicits {
		_ = id
		_ = o
	}
}

// aliasName: the name a local prints under.
func (p *Prog) aliasName(id *ast.Ident) string {
	if len(p.localAlias) == 0 {
		return id.Name
	}
	o := p.ObjOf(id)
	if o == nil {
		return id.Name
	}
	if a, ok := p.localAlias[o]; ok {
		return a
	}
	// implicit per-clause variable of a type switch: same position-declared symbol
	if v, isVar := o.(*types.Var); isVar && !v.IsField() {
		if a, ok := p.localAliasByPos[v.Pos()]; ok {
			return a
		}
	}
	return id.Name
}

// aliased returns e, or a copy of e in which renamed locals carry their reference names.
func (p *Prog) aliased(e ast.Expr) ast.Expr {
	if (len(p.localAlias) == 0 && len(p.fieldAlias) == 0) || e == nil {
		return e
	}
	need := false
	ast.Inspect(e, func(n ast.Node) bool {
		if id, ok := n.(*ast.Ident); ok && !need {
			if p.aliasName(id) != id.Name {
				need = true
			} else if v, isVar := p.ObjOf(id).(*types.Var); isVar && v.IsField() {
				if _, has := p.fieldAlias[v]; has {
					need = true
				}
			}
		}
		return !need
	})
	if !need {
		return e
	}
	return p.aliasCopy(e)
}

func (p *Prog) aliasCopy(e ast.Expr) ast.Expr {
	if e == nil {
		return nil
	}
	cp := func(x ast.Expr) ast.Expr { return p.aliasCopy(x) }
	cps := func(xs []ast.Expr) []ast.Expr {
		if xs == nil {
			return nil
		}
		out := make([]ast.Expr, len(xs))
		for i, x := range xs {
			out[i] = cp(x)
		}
		return out
	}
	switch x := e.(type) {
	case *ast.Ident:
		if a := p.aliasName(x); a != x.Name {
			return &ast.Ident{NamePos: x.NamePos, Name: a}
		}
		return x
	case *ast.ParenExpr:
		return &ast.ParenExpr{Lparen: x.Lparen, X: cp(x.X), Rparen: x.Rparen}
	case *ast.SelectorExpr:
		sel := x.Sel
		if v, ok := p.ObjOf(sel).(*types.Var); ok {
			if a, has := p.fieldAlias[v]; has {
				sel = &ast.Ident{NamePos: sel.NamePos, Name: a}
			}
		}
		return &ast.SelectorExpr{X: cp(x.X), Sel: sel}
	case *ast.StarExpr:
		return &ast.StarExpr{Star: x.Star, X: cp(x.X)}
	case *ast.UnaryExpr:
		return &ast.UnaryExpr{OpPos: x.OpPos, Op: x.Op, X: cp(x.X)}
	case *ast.BinaryExpr:
		return &ast.BinaryExpr{X: cp(x.X), OpPos: x.OpPos, Op: x.Op, Y: cp(x.Y)}
	case *ast.CallExpr:
		return &ast.CallExpr{Fun: cp(x.Fun), Lparen: x.Lparen, Args: cps(x.Args), Ellipsis: x.Ellipsis, Rparen: x.Rparen}
	case *ast.IndexExpr:
		return &ast.IndexExpr{X: cp(x.X), Lbrack: x.Lbrack, Index: cp(x.Index), Rbrack: x.Rbrack}
	case *ast.SliceExpr:
		return &ast.SliceExpr{X: cp(x.X), Lbrack: x.Lbrack, Low: cp(x.Low), High: cp(x.High), Max: cp(x.Max), Slice3: x.Slice3, Rbrack: x.Rbrack}
	case *ast.TypeAssertExpr:
		return &ast.TypeAssertExpr{X: cp(x.X), Lparen: x.Lparen, Type: x.Type, Rparen: x.Rparen}
	case *ast.KeyValueExpr:
		return &ast.KeyValueExpr{Key: x.Key, Colon: x.Colon, Value: cp(x.Value)}
	case *ast.CompositeLit:
		return &ast.CompositeLit{Type: x.Type, Lbrace: x.Lbrace, Elts: cps(x.Elts), Rbrace: x.Rbrace, Incomplete: x.Incomplete}
	}
	return e
}

// ---------------------------------------------------------------- struct fields

//go:embed fields_baseline.txt
var fieldsBaseline string

func (p *Prog) dumpFields() {
	var lines []string
	q := func(pk *types.Package) string { return pk.Path() }
	for _, pk := range p.Pkgs {
		sc := pk.Types.Scope()
		for _, n := range sc.Names() {
			tn, ok := sc.Lookup(n).(*types.TypeName)
			if !ok {
				continue
			}
			st, ok := tn.Type().Underlying().(*types.Struct)
			if !ok {
				continue
			}
			for i := 0; i < st.NumFields(); i++ {
				f := st.Field(i)
				if f.Exported() || f.Embedded() {
					continue
				}
				lines = append(lines, p.pkgName[pk.PkgPath]+"."+n+"."+f.Name()+"\t"+types.TypeString(f.Type(), q))
			}
		}
	}
	sort.Strings(lines)
	for _, l := range lines {
		fmt.Println(l)
	}
}

// resolveFieldRenames: an unexported struct field of the reference tree that is gone, while the same struct has
// exactly one new unexported field of the same type, is that field under a new name.
func (p *Prog) resolveFieldRenames() {
	p.fieldAlias = map[*types.Var]string{}
	p.fieldByOld = map[string]*types.Var{}
	base := map[string]map[string]string{} // struct -> field -> type
	for _, l := range strings.Split(fieldsBaseline, "\n") {
		parts := strings.SplitN(l, "\t", 2)
		if len(parts) != 2 {
			continue
		}
		i := strings.LastIndex(parts[0], ".")
		if i < 0 {
			continue
		}
		s, f := parts[0][:i], parts[0][i+1:]
		if base[s] == nil {
			base[s] = map[string]string{}
		}
		base[s][f] = parts[1]
	}
	q := func(pk *types.Package) string { return pk.Path() }
	for sname, fields := range base {
		st := p.Struct(sname)
		if st == nil {
			continue
		}
		cur := map[string]*types.Var{}
		for i := 0; i < st.NumFields(); i++ {
			cur[st.Field(i).Name()] = st.Field(i)
		}
		missing := map[string][]string{} // type -> old names
		for f, t := range fields {
			if cur[f] == nil {
				missing[t] = append(missing[t], f)
			}
		}
		if len(missing) == 0 {
			continue
		}
		fresh := map[string][]*types.Var{}
		for name, v := range cur {
			if _, known := fields[name]; !known && !v.Exported() && !v.Embedded() {
				t := types.TypeString(v.Type(), q)
				fresh[t] = append(fresh[t], v)
			}
		}
		for t, olds := range missing {
			if len(olds) == 1 && len(fresh[t]) == 1 {
				p.fieldAlias[fresh[t][0]] = olds[0]
				p.fieldByOld[sname+"."+olds[0]] = fresh[t][0]
			}
		}
	}
}

// bodyPrint: a fingerprint of the function body that does not depend on the function's own name or on layout.
func (p *Prog) bodyPrint(fn *Func) string {
	if fn.Decl.Body == nil {
		return ""
	}
	var sb strings.Builder
	ast.Inspect(fn.Decl.Body, func(n ast.Node) bool {
		switch x := n.(type) {
		case *ast.Ident:
			if x.Name == fn.Obj.Name() {
				sb.WriteString("SELF ")
			} else {
				sb.WriteString(x.Name + " ")
			}
		case *ast.BasicLit:
			sb.WriteString(x.Value + " ")
		case *ast.BinaryExpr:
			sb.WriteString(x.Op.String() + " ")
		case *ast.UnaryExpr:
			sb.WriteString(x.Op.String() + " ")
		case *ast.AssignStmt:
			sb.WriteString(x.Tok.String() + " ")
		case *ast.BranchStmt:
			sb.WriteString(x.Tok.String() + " ")
		case nil:
		default:
			sb.WriteString(fmt.Sprintf("%T ", n))
		}
		return true
	})
	h := sha1.Sum([]byte(sb.String()))
	return fmt.Sprintf("%x", h[:8])
}

// ---------------------------------------------------------------- delegating wrappers

// resolveDelegations: a function whose whole body hands its own parameters, in order, to a NEW private function
// with no other caller has been turned into a wrapper around its former body (the usual first step of adding a
// parameter or of splitting an exported entry point from its implementation).  The rules then look at the
// implementation under the name of the wrapper; calls of the wrapper keep counting as calls of that name.
func (p *Prog) resolveDelegations() {
	if p.baselineKnown == nil {
		return
	}
	wrappers := map[*Func]bool{}
	for _, f := range append([]*Func{}, p.funcs...) {
		if f.Decl.Body == nil || len(f.Decl.Body.List) != 1 || strings.Contains(f.Name, "#") {
			continue
		}
		var call *ast.CallExpr
		switch x := f.Decl.Body.List[0].(type) {
		case *ast.ReturnStmt:
			if len(x.Results) == 1 {
				call, _ = x.Results[0].(*ast.CallExpr)
			}
		case *ast.ExprStmt:
			call, _ = x.X.(*ast.CallExpr)
		}
		if call == nil || call.Ellipsis != 0 {
			continue
		}
		callee := p.Callee(call)
		if callee == nil {
			continue
		}
		h := p.FuncOf[callee]
		if h == nil || h == f || h.Decl.Body == nil || h.Obj.Exported() || p.baselineKnown[h.Name] || h.Pkg != f.Pkg {
			continue
		}
		if len(p.calls[h.Obj.Origin()]) != 1 {
			continue
		}
		// the wrapper's parameters, in order, are the first arguments
		var params []types.Object
		if f.Decl.Type.Params != nil {
			for _, fl := range f.Decl.Type.Params.List {
				for _, nm := range fl.Names {
					params = append(params, p.Info.Defs[nm])
				}
				if len(fl.Names) == 0 {
					params = append(params, nil)
				}
			}
		}
		if len(call.Args) < len(params) {
			continue
		}
		ok := true
		for i, po := range params {
			id, isID := call.Args[i].(*ast.Ident)
			if po == nil || !isID || p.Info.Uses[id] != po {
				ok = false
			}
		}
		// a method delegates on its own receiver
		if f.Decl.Recv != nil {
			sel, isSel := call.Fun.(*ast.SelectorExpr)
			if !isSel || len(f.Decl.Recv.List) == 0 || len(f.Decl.Recv.List[0].Names) == 0 {
				ok = false
			} else if rid, isID := sel.X.(*ast.Ident); !isID || p.Info.Uses[rid] != p.Info.Defs[f.Decl.Recv.List[0].Names[0]] {
				ok = false
			}
		}
		if !ok {
			continue
		}
		name := f.Name
		if p.alias == nil {
			p.alias = map[*types.Func]string{}
		}
		delete(p.Funcs, h.Name)
		h.Name = name
		p.Funcs[name] = h
		p.alias[h.Obj.Origin()] = name
		f.Name = name + "#wrapper"
		p.alias[f.Obj.Origin()] = name // calls of the wrapper are calls of that name ...
		p.FuncOf[f.Obj.Origin()] = h   // ... and resolve to the implementation
		p.calls[h.Obj.Origin()] = p.calls[f.Obj.Origin()]
		p.delegated = append(p.delegated, name)
		wrappers[f] = true
		if f.Obj.Exported() {
			if p.standsForExported == nil {
				p.standsForExported = map[*Func]bool{}
			}
			p.standsForExported[h] = true // the implementation of an exported entry point is not a private helper
		}
	}
	if len(wrappers) > 0 {
		// the one-line wrappers themselves carry no logic: they are not analysed as functions of their own
		var keep []*Func
		for _, fn := range p.funcs {
			if !wrappers[fn] {
				keep = append(keep, fn)
			}
		}
		p.funcs = keep
		for callee, sites := range p.calls {
			var ks []CallSite
			for _, cs := range sites {
				if !wrappers[cs.Caller] {
					ks = append(ks, cs)
				}
			}
			p.calls[callee] = ks
		}
	}
}
