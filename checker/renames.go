package main

// Rename resolution.  Rules anchor on canonical names (pkg.Type.method).  Unexported functions get renamed in
// ordinary maintenance; a rule must then follow the function, not fail on the missing name.  names_baseline.txt
// lists the unexported functions of the tree the rules were written for together with receiver and signature.  When
// a baseline name is missing and exactly one function that is not in the baseline has the same package, receiver
// and signature, it is taken to be the renamed function and keeps its old canonical name inside the checker.
// The baseline is never used to raise an alarm.

import (
	_ "embed"
	"fmt"
	"go/types"
	"sort"
	"strings"
)

//go:embed names_baseline.txt
var namesBaseline string

func (p *Prog) sigKey(fn *types.Func) string {
	sig, _ := fn.Type().(*types.Signature)
	if sig == nil {
		return ""
	}
	q := func(pk *types.Package) string { return pk.Path() }
	recv := ""
	if sig.Recv() != nil {
		recv = types.TypeString(sig.Recv().Type(), q)
	}
	pkg := ""
	if fn.Pkg() != nil {
		pkg = fn.Pkg().Path()
	}
	tup := func(t *types.Tuple) string {
		var parts []string
		for i := 0; i < t.Len(); i++ {
			parts = append(parts, types.TypeString(t.At(i).Type(), q))
		}
		return "(" + strings.Join(parts, ",") + ")"
	}
	v := ""
	if sig.Variadic() {
		v = "..."
	}
	return pkg + "|" + recv + "|" + tup(sig.Params()) + v + tup(sig.Results())
}

// dumpNames prints the baseline (run on the tree the rules were written for).
func (p *Prog) dumpNames() {
	var lines []string
	for _, fn := range p.funcs {
		if fn.Obj.Exported() || strings.Contains(fn.Name, "#") || fn.Obj.Name() == "init" || fn.Obj.Name() == "main" || fn.Obj.Name() == "_" {
			continue
		}
		lines = append(lines, fn.Name+"\t"+p.sigKey(fn.Obj))
	}
	sort.Strings(lines)
	for _, l := range lines {
		fmt.Println(l)
	}
}

// resolveRenames re-keys renamed unexported functions under their baseline name.
func (p *Prog) resolveRenames() {
	p.renamed = map[string]string{}
	base := map[string]string{}
	for _, l := range strings.Split(namesBaseline, "\n") {
		if parts := strings.SplitN(l, "\t", 2); len(parts) == 2 {
			base[parts[0]] = parts[1]
		}
	}
	if len(base) == 0 {
		return
	}
	p.baselineKnown = map[string]bool{}
	for name := range base {
		p.baselineKnown[name] = true
	}
	missingBySig := map[string][]string{}
	for name, sig := range base {
		if p.Funcs[name] == nil {
			missingBySig[sig] = append(missingBySig[sig], name)
		}
	}
	if len(missingBySig) == 0 {
		return
	}
	newBySig := map[string][]*Func{}
	for _, fn := range p.funcs {
		if fn.Obj.Exported() || strings.Contains(fn.Name, "#") {
			continue
		}
		if _, known := base[fn.Name]; known {
			continue
		}
		k := p.sigKey(fn.Obj)
		newBySig[k] = append(newBySig[k], fn)
	}
	for sig, olds := range missingBySig {
		news := newBySig[sig]
		if len(olds) != 1 || len(news) != 1 {
			continue
		}
		fn := news[0]
		old := olds[0]
		p.renamed[old] = fn.Name
		delete(p.Funcs, fn.Name)
		fn.Name = old
		p.Funcs[old] = fn
		if p.alias == nil {
			p.alias = map[*types.Func]string{}
		}
		p.alias[fn.Obj.Origin()] = old
	}
}
