package main

// Second batch of rules added after the second round of seeded changes.

import (
	"go/ast"
	"go/token"
	"strings"
)

func init() {
	registerExtra("C01", ruleResizeOnHoldingNode)
	registerExtra("C12", ruleResizeOnHoldingNode)
	registerExtra("C09", ruleStaleReservationFirst)
	registerExtra("C09", ruleReserveCompleteness)
	registerExtra("C11", ruleCounterGuardsExact)
	registerExtra("C03", ruleSignedDeltasUseSub)
	registerExtra("C12", ruleSignedDeltasUseSub)
	registerExtra("C14", ruleGetOrCreateAtomic)
	registerExtra("C15", ruleUserGroupMapsNotMixed)
	registerExtra("C15", ruleValidatorParsersUnconditional)
}

// onlyNilOrErrAtoms: every fact known at st is a comparison with nil (presence / error checks);
// returns the first other fact.
func (p *Prog) otherThanNilFacts(st *State) string {
	for _, a := range p.AllAtoms(st) {
		if _, x, y, isCmp := p.cmpParts(a); isCmp && (p.isNilExpr(x) || p.isNilExpr(y)) {
			continue
		}
		return p.Src(a.E)
	}
	return ""
}

// ruleResizeOnHoldingNode: an in-place resize is booked on the node that holds the allocation.
func ruleResizeOnHoldingNode(c *Ctx) {
	p := c.p
	rule := c.Prop + ".rsz"
	c.Rule(rule, "UpdateAllocation books the size delta of an in-place resize on the node that HOLDS the existing allocation (pc.GetNode(existing.GetNodeID())), not on the node named by the incoming message (which may be empty or different)")
	fn := c.MustFunc(rule, "scheduler.PartitionContext.UpdateAllocation")
	if fn == nil {
		return
	}
	calls := p.callsIn(fn, "objects.Node.UpdateAllocatedResource")
	for _, call := range calls {
		ok := false
		if id, isID := unparen(Recv(call)).(*ast.Ident); isID {
			obj := p.ObjOf(id)
			// every assignment of the receiver variable is nil or pc.GetNode(<existing allocation>.GetNodeID())
			n, good := 0, true
			ast.Inspect(fn.Decl.Body, func(m ast.Node) bool {
				var lhs []ast.Expr
				var rhs []ast.Expr
				switch x := m.(type) {
				case *ast.AssignStmt:
					lhs, rhs = x.Lhs, x.Rhs
				case *ast.ValueSpec:
					for _, nm := range x.Names {
						lhs = append(lhs, nm)
					}
					rhs = x.Values
				}
				for i, l := range lhs {
					li, isL := unparen(l).(*ast.Ident)
					if !isL || p.ObjOf(li) != obj || i >= len(rhs) {
						continue
					}
					n++
					if p.isNilExpr(rhs[i]) {
						continue
					}
					gc, isCall := unparen(rhs[i]).(*ast.CallExpr)
					if !isCall || !p.IsCall(gc, "scheduler.PartitionContext.GetNode") || len(gc.Args) < 1 {
						good = false
						continue
					}
					nc, isNC := unparen(gc.Args[0]).(*ast.CallExpr)
					if !isNC || !p.IsCall(nc, "objects.Allocation.GetNodeID") || Recv(nc) == nil {
						good = false
						continue
					}
					// the allocation asked for its node is the one registered on the application, not the parameter
					if p.isParam(fn, Recv(nc), 0) {
						good = false
					}
				}
				return true
			})
			ok = n > 0 && good
		}
		c.Check(rule, "resize delta booked on the node holding the allocation", call, ok, "UpdateAllocatedResource is called on %s, which is not (only) pc.GetNode(<existing allocation>.GetNodeID()): a resize whose message names no node, or another node, is booked on the wrong node or dropped", p.Src(Recv(call)))
	}
	c.Floor(rule, "node resize bookings in UpdateAllocation", len(calls), 1)
}

// ruleStaleReservationFirst: a reservation whose ask is gone or allocated is dropped before anything else can skip it.
func ruleStaleReservationFirst(c *Ctx) {
	p := c.p
	c.Rule("C09.i", "tryReservedAllocate drops the reservation of an ask that is missing or already allocated before any other check can skip the reservation: every `continue` of the reservation loop carries the facts ask != nil and !ask.IsAllocated()")
	fn := c.MustFunc("C09.i", "objects.Application.tryReservedAllocate")
	if fn == nil {
		return
	}
	n := 0
	ast.Inspect(fn.Decl.Body, func(nd ast.Node) bool {
		br, ok := nd.(*ast.BranchStmt)
		if !ok || br.Tok != token.CONTINUE {
			return true
		}
		loop, isR := p.enclosingLoop(br).(*ast.RangeStmt)
		if !isR || !strings.HasSuffix(p.Src(loop.X), ".reservations") || !p.indexesField(loop.Body, "requests") {
			return true // the second loop works on the allocation stored in the reservation, not on the registered ask
		}
		n++
		st := p.StateAt(fn, br)
		live := p.Holds(st, p.CallAtom(false, nil, "objects.Allocation.IsAllocated"))
		c.Check("C09.i", "reservation skipped only for a live ask", br, live, "the reservation is skipped (continue) without the fact !ask.IsAllocated(): a reservation whose ask was placed elsewhere is never cleaned up when this skip is taken, the node stays blocked; facts: %v", p.FactStrings(st))
		return true
	})
	c.Floor("C09.i", "skips in the reservation loop", n, 2)
}

// ruleReserveCompleteness: once the application and node reserved, queue and partition follow.
func ruleReserveCompleteness(c *Ctx) {
	p := c.p
	c.Rule("C09.j", "PartitionContext.reserve: on every exit taken after Application.Reserve succeeded, Queue.Reserve and incReservationCount have run (the queue view and the partition counter follow the application/node view unconditionally)")
	fn := c.MustFunc("C09.j", "scheduler.PartitionContext.reserve")
	if fn == nil {
		return
	}
	n := 0
	for _, ex := range p.Walk(fn).exits {
		if ex.Lit != nil || ex.State == nil || ex.State.Dead {
			continue
		}
		if !p.Holds(ex.State, p.ResultNilAtom(true, nil, "objects.Application.Reserve")) {
			continue
		}
		n++
		q := p.DoneCall(ex.State, nil, "objects.Queue.Reserve") != nil
		cnt := p.DoneCall(ex.State, nil, "scheduler.PartitionContext.incReservationCount") != nil
		c.Check("C09.j", "queue and partition counter follow a successful reservation", ex.Node, q && cnt, "an exit after app.Reserve(...) == nil is reached without queue.Reserve / incReservationCount: the application and node hold a reservation the queue does not list, so it is never served")
	}
	c.Floor("C09.j", "exits after a successful reservation", n, 1)
}

// ruleCounterGuardsExact: the running-applications counter follows the state change and nothing else.
func ruleCounterGuardsExact(c *Ctx) {
	p := c.p
	c.Rule("C11.c", "incRunningApps / decRunningApps in the FSM callbacks are conditioned on exactly one thing: the source (destination) state differs from Running; no further condition may exempt a transition into or out of Running (a restart from Completing counts again)")
	cb := c.MustFunc("C11.c", "objects.callbacks")
	if cb == nil {
		return
	}
	n := 0
	for _, call := range p.callsIn(cb, "objects.Queue.incRunningApps", "objects.Queue.decRunningApps") {
		n++
		st := p.StateAt(cb, call)
		// presence checks (x != nil, comma-ok results) are not decisions about the transition
		var atoms []string
		for _, a := range p.AllAtoms(st) {
			if _, x, y, isCmp := p.cmpParts(a); isCmp && (p.isNilExpr(x) || p.isNilExpr(y)) {
				continue
			}
			if id, isID := unparen(a.E).(*ast.Ident); isID && id.Name == "ok" {
				continue
			}
			atoms = append(atoms, p.Src(a.E))
		}
		ok := len(atoms) == 1
		if ok {
			src := atoms[0]
			ok = strings.Contains(src, "Running.String()") && (strings.Contains(src, "event.Src") || strings.Contains(src, "event.Dst"))
		}
		c.Check("C11.c", "only the Running-state test guards "+shortFn(p.CalleeName(call)), call, ok, "the counter update runs under the conditions %v, expected exactly `event.Src/Dst != Running`: a transition that is exempted is never counted (or never given back) on any level", p.FactStrings(st))
	}
	c.Floor("C11.c", "counter updates in the FSM callbacks", n, 2)
}

// ruleSignedDeltasUseSub: size changes are computed over all resource types of both sizes.
func ruleSignedDeltasUseSub(c *Ctx) {
	p := c.p
	rule := c.Prop + ".dl"
	c.Rule(rule, "the functions that apply a size CHANGE to a ledger (Node.UpdateForeignAllocation, PartitionContext.UpdateAllocation, Application.UpdateAllocationResources, the swap confirmations) compute it with resources.Sub over all types of the old and the new size; the *OnlyExisting / *EliminateNegative variants silently drop types that only the old size had")
	n := 0
	for _, name := range []string{"objects.Node.UpdateForeignAllocation", "scheduler.PartitionContext.UpdateAllocation", "objects.Application.UpdateAllocationResources",
		"scheduler.PartitionContext.removeNodeAllocations", "scheduler.PartitionContext.removeAllocation", "objects.Node.ReplaceAllocation",
		"objects.Node.SetCapacity", "objects.Node.SetOccupiedResource"} {
		fn := c.MustFunc(rule, name)
		if fn == nil {
			continue
		}
		n += len(p.callsIn(fn, "resources.Sub"))
		for _, call := range p.callsIn(fn, "resources.SubOnlyExisting", "resources.SubEliminateNegative", "resources.SubErrorNegative") {
			c.Check(rule, shortFn(p.CalleeName(call))+" in "+fn.Name, call, false, "%s computes a size change with %s: resource types present only in the old size are not taken off the ledger", fn.Name, p.CalleeName(call))
		}
	}
	c.Check(rule, "size changes use resources.Sub", nil, true, "")
	c.Floor(rule, "resources.Sub size-change computations", n, 4)
}

// ruleGetOrCreateAtomic: get-or-create helpers look the entry up inside the critical section in which they create it.
func ruleGetOrCreateAtomic(c *Ctx) {
	p := c.p
	la := p.Locks()
	c.Except("C14.f", "check-and-create of security.UserGroupCache.ugs in security.UserGroupCache.GetUserGroup", "cache of resolution results handed out by value: two concurrent resolutions of one user store equivalent entries, the overwrite loses nothing (the slow OS lookup is deliberately done outside the lock)")
	c.Except("C14.f", "check-and-create of ugm.Manager.groupTrackers in ugm.Manager.ensureGroupTrackerForApp", "the create branch is only reachable for a group without configured limits (setGroupLimits creates the tracker before the group is published in configuredGroups, and a tracker with limits is never removed), i.e. in the window of a reload that drops the group: no limit exists that a lost update on such a tracker could breach")
	c.Rule("C14.f", "a function that stores a NEW object into a lock-guarded map when the key is missing performs the lookup that found it missing while already holding the exclusive lock (check and create in one critical section): two goroutines must not both create and overwrite each other's entry")
	n := 0
	for _, fn := range p.funcs {
		if fn.Decl.Body == nil || !c14Scope[p.pkgName[fn.Pkg.PkgPath]] {
			continue
		}
		lf := la.funcs[fn]
		if lf == nil {
			continue
		}
		ast.Inspect(fn.Decl.Body, func(nd ast.Node) bool {
			as, ok := nd.(*ast.AssignStmt)
			if !ok || len(as.Lhs) != 1 || len(as.Rhs) != 1 {
				return true
			}
			ix, ok := unparen(as.Lhs[0]).(*ast.IndexExpr)
			if !ok {
				return true
			}
			f := p.SelField(ix.X)
			if f == nil {
				return true
			}
			ls := la.byField[f]
			if ls == nil || !ls.Guarded[f] {
				return true
			}
			// value is a freshly created object
			if !la.isFreshExpr(as.Rhs[0]) {
				if id, isID := unparen(as.Rhs[0]).(*ast.Ident); !isID || !la.freshLocalAny(fn, id) {
					return true
				}
			}
			sel, _ := unparen(ix.X).(*ast.SelectorExpr)
			if sel == nil || la.underConstruction(fn, sel.X) {
				return true
			}
			st := lf.stateAt(as)
			if st == nil || st[ownerKey(sel.X)] != 2 {
				return true // not locked here: C14.a reports that
			}
			// is there a lookup of the same map+key in this function at all?
			var lookups []*ast.IndexExpr
			ast.Inspect(fn.Decl.Body, func(m ast.Node) bool {
				if lx, isIx := m.(*ast.IndexExpr); isIx && lx != ix && p.Src(lx.X) == p.Src(ix.X) && p.Src(lx.Index) == p.Src(ix.Index) {
					lookups = append(lookups, lx)
				}
				return true
			})
			// also lookups through a getter of the same struct called with the key (fast path)
			viaGetter := false
			ast.Inspect(fn.Decl.Body, func(m ast.Node) bool {
				if call, isCall := m.(*ast.CallExpr); isCall && call.Pos() < as.Pos() {
					if cf := p.FuncOf[p.Callee(call)]; cf != nil && cf != fn && p.methodOf(cf, ls.Name) && len(call.Args) >= 1 && p.Src(call.Args[0]) == p.Src(ix.Index) {
						if clf := la.funcs[cf]; clf != nil && clf.acquires[-1] > 0 {
							lst := lf.stateAt(call)
							if lst == nil || lst[ownerKey(sel.X)] == 0 {
								viaGetter = true
							}
						}
					}
				}
				return true
			})
			if len(lookups) == 0 && !viaGetter {
				return true // unconditional store, not a get-or-create
			}
			n++
			locked := false
			for _, lx := range lookups {
				if lst := lf.stateAt(lx); lst != nil && lst[ownerKey(sel.X)] == 2 && lx.Pos() < as.Pos() {
					locked = true
				}
			}
			c.Check("C14.f", "check-and-create of "+ls.Name+"."+f.Name()+" in "+fn.Name, as, locked, "a new object is stored into %s.%s although the lookup that found the key missing ran outside this critical section (or through a self-locking getter): two concurrent first uses both create an entry and the second overwrites the first", ls.Name, f.Name())
			return true
		})
	}
	c.Floor("C14.f", "get-or-create stores into guarded maps", n, 3)
}

// ruleUserGroupMapsNotMixed: the user half and the group half of the limit checks keep to their own maps.
func ruleUserGroupMapsNotMixed(c *Ctx) {
	p := c.p
	c.Rule("C15.h", "in the limit checks of the validator a map is only indexed with a loop variable of its own kind: inside `range limit.Users` only *User* maps, inside `range limit.Groups` only *Group* maps (copy-paste between the two halves)")
	n := 0
	for _, name := range []string{"configs.checkLimitResource", "configs.checkLimitMaxApplications", "configs.checkLimit"} {
		fn := c.MustFunc("C15.h", name)
		if fn == nil {
			continue
		}
		ast.Inspect(fn.Decl.Body, func(nd ast.Node) bool {
			loop, ok := nd.(*ast.RangeStmt)
			if !ok {
				return true
			}
			kind := ""
			if strings.HasSuffix(p.Src(loop.X), ".Users") {
				kind = "user"
			} else if strings.HasSuffix(p.Src(loop.X), ".Groups") {
				kind = "group"
			}
			v, isID := loop.Value.(*ast.Ident)
			if kind == "" || !isID {
				return true
			}
			other := map[string]string{"user": "group", "group": "user"}[kind]
			ast.Inspect(loop.Body, func(m ast.Node) bool {
				ix, ok := m.(*ast.IndexExpr)
				if !ok {
					return true
				}
				id, ok := unparen(ix.Index).(*ast.Ident)
				if !ok || p.ObjOf(id) != p.ObjOf(v) {
					return true
				}
				n++
				mapName := strings.ToLower(p.Src(ix.X))
				c.Check("C15.h", "map "+p.Src(ix.X)+" indexed by a "+kind+" in "+shortFn(name), ix, !strings.Contains(mapName, other), "the %s loop indexes %s, a %s map: the limit is recorded for (or compared with) the wrong kind and is not carried down the hierarchy", kind, p.Src(ix.X), other)
				return true
			})
			return true
		})
	}
	c.Floor("C15.h", "user/group map accesses in the limit checks", n, 10)
}

// ruleValidatorParsersUnconditional: the validator applies a parser to a field whenever the loader would.
func ruleValidatorParsersUnconditional(c *Ctx) {
	p := c.p
	c.Rule("C15.c2", "inside the validator the parsers that mirror the loader (NewResourceFromConf on queue/template/limit resources, checkACL) are applied unconditionally to their field: no configuration flag the loader does not consult may skip them")
	n := 0
	for _, fn := range p.funcs {
		if !p.InPkg(fn, "configs") || fn.Decl.Body == nil {
			continue
		}
		for _, call := range p.callsIn(fn, "resources.NewResourceFromConf", "configs.checkACL") {
			if len(p.confFieldChain(call.Args[0])) == 0 {
				continue
			}
			n++
			bad := ""
			for cur, par := ast.Node(call), p.Parent(call); par != nil && par != ast.Node(fn.Decl); cur, par = par, p.Parent(par) {
				is, ok := par.(*ast.IfStmt)
				if !ok || (cur != ast.Node(is.Body) && cur != is.Else) {
					continue
				}
				src := p.Src(is.Cond)
				if strings.Contains(src, "RootQueue") {
					continue // the root queue is special for the loader too: it never carries a configured maximum
				}
				nilOnly := true
				ast.Inspect(is.Cond, func(m ast.Node) bool {
					if be, isB := m.(*ast.BinaryExpr); isB && be.Op != token.LAND && be.Op != token.LOR {
						if !p.isNilExpr(be.X) && !p.isNilExpr(be.Y) && !strings.HasPrefix(p.Src(be.X), "len(") {
							nilOnly = false
						}
						return false
					}
					if _, isI := m.(*ast.Ident); isI {
						if par2, isU := p.Parent(m).(*ast.UnaryExpr); isU && par2.Op == token.NOT || p.Parent(m) == ast.Node(is) {
							nilOnly = false
						}
					}
					if _, isS := m.(*ast.SelectorExpr); isS && len(p.confFieldChain(m.(ast.Expr))) > 0 {
						if _, inBin := p.Parent(m).(*ast.BinaryExpr); !inBin {
							nilOnly = false // a bare boolean configuration field
						}
					}
					return true
				})
				if !nilOnly && len(p.confFieldChainIn(is.Cond)) > 0 {
					bad = src
				}
			}
			c.Check("C15.c2", "parser applied unconditionally: "+p.CalleeName(call)+" on "+strings.Join(p.confFieldChain(call.Args[0]), "/")+" in "+fn.Name, call, bad == "", "the validator only parses this field under the configuration condition %s, which the loading code does not consult: documents that skip the check still fail (or are partly applied) at load", bad)
		}
	}
	c.Floor("C15.c2", "mirrored parser applications in the validator", n, 6)
}

// confFieldChainIn: the expression reads some configs.* struct field (anywhere inside it).
func (p *Prog) confFieldChainIn(e ast.Expr) []string {
	var out []string
	ast.Inspect(e, func(n ast.Node) bool {
		if sel, ok := n.(*ast.SelectorExpr); ok && len(out) == 0 {
			if ch := p.confFieldChain(sel); len(ch) > 0 {
				out = ch
			}
		}
		return true
	})
	return out
}

// indexesField: some index expression below n indexes a struct field with the given name.
func (p *Prog) indexesField(n ast.Node, field string) bool {
	found := false
	ast.Inspect(n, func(m ast.Node) bool {
		if ix, ok := m.(*ast.IndexExpr); ok {
			if f := p.SelField(ix.X); f != nil && f.Name() == field {
				found = true
			}
		}
		return !found
	})
	return found
}

func init() {
	registerExtra("C08", ruleWhatIfOnDuplicate)
	registerExtra("C17", ruleConfiguredFilterNotEmpty)
}

// ruleWhatIfOnDuplicate: the what-if bookkeeping of a preemption attempt works on one copy of the queue snapshots.
func ruleWhatIfOnDuplicate(c *Ctx) {
	p := c.p
	c.Rule("C08.j", "a Preemptor method that duplicates the queue snapshots (duplicateQueueSnapshots) applies and reads its what-if changes (AddAllocation, RemoveAllocation, GetRemainingGuaranteedResource, GetPreemptableResource) on entries of that duplicate only: a change applied to the original snapshot is invisible to the guarantee tests that follow, so queues at their guaranteed share keep losing tasks")
	methods := []string{"objects.QueuePreemptionSnapshot.AddAllocation", "objects.QueuePreemptionSnapshot.RemoveAllocation",
		"objects.QueuePreemptionSnapshot.GetRemainingGuaranteedResource", "objects.QueuePreemptionSnapshot.GetPreemptableResource"}
	n := 0
	// the functions that build the duplicate: whatever (method or function) calls QueuePreemptionSnapshot.Duplicate
	var dupFns []string
	for _, fn := range p.funcs {
		if fn.Decl.Body != nil && fn.Name != "objects.QueuePreemptionSnapshot.Duplicate" && len(p.callsInShallow(fn, "objects.QueuePreemptionSnapshot.Duplicate")) > 0 {
			dupFns = append(dupFns, fn.Name)
		}
	}
	if len(dupFns) == 0 {
		c.Check("C08.j", "anchor: a function that duplicates the queue snapshots", nil, false, "no function calls QueuePreemptionSnapshot.Duplicate any more")
		return
	}
	for _, fn := range p.funcs {
		if fn.Decl.Body == nil || !p.methodOf(fn, "objects.Preemptor") {
			continue
		}
		dups := map[interface{}]bool{}
		for _, call := range p.callsInShallow(fn, dupFns...) {
			if as, ok := p.Parent(call).(*ast.AssignStmt); ok && len(as.Lhs) == 1 {
				if id, isID := as.Lhs[0].(*ast.Ident); isID {
					dups[p.ObjOf(id)] = true
				}
			}
		}
		if len(dups) == 0 {
			continue
		}
		fromDup := func(e ast.Expr) bool {
			if ix, ok := unparen(e).(*ast.IndexExpr); ok {
				e = ix.X
			}
			if id, ok := unparen(e).(*ast.Ident); ok {
				return dups[p.ObjOf(id)]
			}
			// a lookup helper that is handed the duplicate and returns one of its entries
			if call, ok := unparen(e).(*ast.CallExpr); ok {
				if callee := p.Callee(call); callee != nil && p.FuncOf[callee] != nil {
					for k, arg := range call.Args {
						if id, isID := unparen(arg).(*ast.Ident); isID && dups[p.ObjOf(id)] && p.returnsEntryOfParam(p.FuncOf[callee], k) {
							return true
						}
					}
				}
			}
			return false
		}
		for _, call := range p.callsInShallow(fn, methods...) {
			n++
			id, isID := unparen(Recv(call)).(*ast.Ident)
			ok := false
			if isID {
				obj := p.ObjOf(id)
				defs, good := 0, true
				ast.Inspect(fn.Decl.Body, func(m ast.Node) bool {
					switch x := m.(type) {
					case *ast.AssignStmt:
						for i, l := range x.Lhs {
							if li, isL := l.(*ast.Ident); isL && p.ObjOf(li) == obj {
								defs++
								r := x.Rhs[0]
								if len(x.Rhs) == len(x.Lhs) {
									r = x.Rhs[i]
								}
								if !fromDup(r) {
									good = false
								}
							}
						}
					case *ast.RangeStmt:
						if vi, isV := x.Value.(*ast.Ident); isV && p.ObjOf(vi) == obj {
							defs++
							if !fromDup(x.X) {
								good = false
							}
						}
					}
					return true
				})
				ok = defs > 0 && good
			}
			c.Check("C08.j", shortFn(p.CalleeName(call))+" on the duplicate in "+fn.Name, call, ok, "%s is applied to %s, which is not an entry of the duplicated snapshot map of this function: the what-if state the guarantee tests read does not see it", shortFn(p.CalleeName(call)), p.Src(Recv(call)))
		}
	}
	c.Floor("C08.j", "what-if snapshot operations in duplicating Preemptor methods", n, 20)
}

// ruleConfiguredFilterNotEmpty: a filter configured with users or groups never degrades into the match-all empty filter.
func ruleConfiguredFilterNotEmpty(c *Ctx) {
	p := c.p
	c.Rule("C17.g", "newFilter: every branch taken because the configuration lists users or groups (condition on len(conf.Users) / len(conf.Groups)) clears filter.empty unconditionally; entries dropped by the sanity check must leave a filter that matches nobody, not the empty filter that admits (allow) or refuses (deny) everybody")
	fn := c.MustFunc("C17.g", "placement.newFilter")
	if fn == nil {
		return
	}
	n := 0
	for _, st := range fn.Decl.Body.List {
		is, ok := st.(*ast.IfStmt)
		if !ok {
			continue
		}
		src := p.Src(is.Cond)
		if !strings.HasPrefix(src, "len(conf.Users)") && !strings.HasPrefix(src, "len(conf.Groups)") {
			continue
		}
		if strings.Contains(src, "&&") {
			continue // the diagnostics after each half
		}
		// does the branch populate the filter?
		populates := false
		ast.Inspect(is.Body, func(m ast.Node) bool {
			if as, isA := m.(*ast.AssignStmt); isA {
				for _, l := range as.Lhs {
					if strings.HasPrefix(p.Src(l), "filter.userList[") || strings.HasPrefix(p.Src(l), "filter.groupList[") || strings.HasPrefix(p.Src(l), "filter.userExp") || strings.HasPrefix(p.Src(l), "filter.groupExp") {
						populates = true
					}
				}
			}
			return true
		})
		if !populates {
			continue
		}
		n++
		cleared := false
		for _, bs := range is.Body.List {
			if as, isA := bs.(*ast.AssignStmt); isA && len(as.Lhs) == 1 && p.Src(as.Lhs[0]) == "filter.empty" && p.Src(as.Rhs[0]) == "false" {
				cleared = true
			}
		}
		c.Check("C17.g", "configured list clears the empty flag: "+src, is, cleared, "the branch for %s does not clear filter.empty on all its paths: a configured list of which no entry passes the name check yields an empty filter and the rule admits users its filter does not name", src)
	}
	c.Floor("C17.g", "list/expression branches in newFilter", n, 4)
}

// returnsEntryOfParam: the first result of every return of fn is nil or a variable that is only ever assigned an
// element of the map passed as parameter k.
func (p *Prog) returnsEntryOfParam(fn *Func, k int) bool {
	po := paramObj(p, fn, k)
	if po == nil || fn.Decl.Body == nil {
		return false
	}
	entryVars := map[interface{}]bool{}
	bad := false
	ast.Inspect(fn.Decl.Body, func(n ast.Node) bool {
		as, ok := n.(*ast.AssignStmt)
		if !ok || len(as.Rhs) != 1 {
			return true
		}
		ix, isIx := unparen(as.Rhs[0]).(*ast.IndexExpr)
		if !isIx {
			return true
		}
		if id, isID := unparen(ix.X).(*ast.Ident); isID && p.ObjOf(id) == po {
			if l, isL := as.Lhs[0].(*ast.Ident); isL {
				entryVars[p.ObjOf(l)] = true
			}
		}
		return true
	})
	// such a variable must not be assigned anything else
	ast.Inspect(fn.Decl.Body, func(n ast.Node) bool {
		as, ok := n.(*ast.AssignStmt)
		if !ok {
			return true
		}
		for i, l := range as.Lhs {
			id, isID := l.(*ast.Ident)
			if !isID || !entryVars[p.ObjOf(id)] || i > 0 {
				continue
			}
			ix, isIx := unparen(as.Rhs[0]).(*ast.IndexExpr)
			if !isIx {
				bad = true
				continue
			}
			if xid, isX := unparen(ix.X).(*ast.Ident); !isX || p.ObjOf(xid) != po {
				bad = true
			}
		}
		return true
	})
	nret := 0
	ast.Inspect(fn.Decl.Body, func(n ast.Node) bool {
		rs, ok := n.(*ast.ReturnStmt)
		if !ok || len(rs.Results) == 0 {
			return true
		}
		nret++
		r := unparen(rs.Results[0])
		if p.isNilExpr(r) {
			return true
		}
		if id, isID := r.(*ast.Ident); isID && entryVars[p.ObjOf(id)] {
			return true
		}
		if ix, isIx := r.(*ast.IndexExpr); isIx {
			if xid, isX := unparen(ix.X).(*ast.Ident); isX && p.ObjOf(xid) == po {
				return true
			}
		}
		bad = true
		return true
	})
	return nret > 0 && !bad
}
