package main

// Obligations, exceptions, known findings, evidence and exit codes.

import (
	"encoding/json"
	"fmt"
	"go/ast"
	"os"
	"path/filepath"
	"sort"
	"strings"
	"time"
)

type Ob struct {
	Rule   string `json:"rule"`
	Key    string `json:"construct"`
	Pos    string `json:"pos"`
	OK     bool   `json:"ok"`
	Msg    string `json:"msg,omitempty"`
	Status string `json:"status"` // discharged | violation | known-finding | exception | undecided
	Reason string `json:"reason,omitempty"`
}

type floorRec struct {
	Rule  string `json:"rule"`
	What  string `json:"what"`
	Found int    `json:"found"`
	Floor int    `json:"floor"`
}

type knownFinding struct {
	Property string `json:"property"`
	Rule     string `json:"rule"`
	Key      string `json:"construct"`
	What     string `json:"what"`
	Status   string `json:"status"` // known | fixed
	Commit   string `json:"commit,omitempty"`
}

type Ctx struct {
	p          *Prog
	Prop       string
	Tier       string
	obs        []Ob
	floors     []floorRec
	exceptions map[string]string // rule|key -> reason
	usedExc    map[string]bool
	notDecided []string
	assume     []string
	rulesDoc   []string
	known      []knownFinding
	funcsSeen  map[string]bool
	seenKeys   map[string]int
}

func newCtx(p *Prog, prop, tier string) *Ctx {
	return &Ctx{p: p, Prop: prop, Tier: tier, exceptions: map[string]string{}, usedExc: map[string]bool{},
		funcsSeen: map[string]bool{}, seenKeys: map[string]int{}}
}

func (c *Ctx) thorough() bool { return c.Tier == "thorough" }

// Rule documents a rule in the evidence.
func (c *Ctx) Rule(id, text string) { c.rulesDoc = append(c.rulesDoc, id+": "+text) }

func (c *Ctx) NotDecided(s ...string) { c.notDecided = append(c.notDecided, s...) }
func (c *Ctx) Assume(s ...string)     { c.assume = append(c.assume, s...) }

// Except registers a one-construct exception with its reason.
func (c *Ctx) Except(rule, key, reason string) { c.exceptions[rule+"|"+key] = reason }

func (c *Ctx) Touch(fn *Func) {
	if fn != nil {
		c.funcsSeen[fn.Name] = true
	}
}

// Check records one obligation. key identifies the construct (no line numbers).
func (c *Ctx) Check(rule, key string, n ast.Node, ok bool, format string, args ...interface{}) bool {
	full := rule + "|" + key
	c.seenKeys[full]++
	if k := c.seenKeys[full]; k > 1 {
		key = fmt.Sprintf("%s#%d", key, k)
		full = rule + "|" + key
	}
	pos := "-"
	if n != nil {
		pos = c.p.Pos(n)
		if fn := c.p.EnclosingFunc(n.Pos()); fn != nil {
			c.funcsSeen[fn.Name] = true
		}
	}
	ob := Ob{Rule: rule, Key: key, Pos: pos, OK: ok}
	if !ok {
		ob.Msg = fmt.Sprintf(format, args...)
	}
	switch {
	case ok:
		ob.Status = "discharged"
	default:
		ob.Status = "violation"
		if r, has := c.exceptions[full]; has {
			ob.Status = "exception"
			ob.Reason = r
			c.usedExc[full] = true
		} else {
			for _, k := range c.known {
				if k.Property == c.Prop && k.Rule == rule && k.Key == key && k.Status == "known" {
					ob.Status = "known-finding"
					ob.Reason = k.What
				}
			}
		}
	}
	c.obs = append(c.obs, ob)
	return ok
}

// Undecided: the checker could not decide; counts as failure.
func (c *Ctx) Undecided(rule, key string, n ast.Node, format string, args ...interface{}) {
	pos := "-"
	if n != nil {
		pos = c.p.Pos(n)
	}
	c.obs = append(c.obs, Ob{Rule: rule, Key: key, Pos: pos, OK: false, Msg: "UNDECIDED: " + fmt.Sprintf(format, args...), Status: "undecided"})
}

// Floor: a rule must find at least floor instances, otherwise it could pass vacuously.
func (c *Ctx) Floor(rule, what string, found, floor int) {
	c.floors = append(c.floors, floorRec{rule, what, found, floor})
	if found < floor {
		c.obs = append(c.obs, Ob{Rule: rule, Key: "floor:" + what, Pos: "-", OK: false,
			Msg: fmt.Sprintf("only %d instance(s) of %q found, %d were confirmed by hand: the rule would pass vacuously (anchor removed or renamed?)", found, what, floor), Status: "violation"})
	}
}

// MustFunc resolves an anchor function; a missing anchor is a violation of the rule needing it.
func (c *Ctx) MustFunc(rule, name string) *Func {
	fn := c.p.Funcs[name]
	if fn == nil {
		c.obs = append(c.obs, Ob{Rule: rule, Key: "anchor:" + name, Pos: "-", OK: false,
			Msg: "anchor function " + name + " does not resolve: the mechanism this rule checks is gone or was renamed", Status: "violation"})
		return nil
	}
	c.funcsSeen[name] = true
	return fn
}

func loadKnown(path string) []knownFinding {
	b, err := os.ReadFile(path)
	if err != nil {
		return nil
	}
	var k []knownFinding
	if err := json.Unmarshal(b, &k); err != nil {
		fmt.Fprintf(os.Stderr, "known findings file unreadable: %v\n", err)
		os.Exit(2)
	}
	return k
}

type evidence struct {
	Property   string                 `json:"property_id"`
	Tier       string                 `json:"tier"`
	Seed       int                    `json:"seed"`
	Level      string                 `json:"level"`
	Coverage   map[string]interface{} `json:"coverage"`
	Assume     []string               `json:"assumptions"`
	Wall       float64                `json:"wall_s"`
	Violations int                    `json:"violations"`
}

// finish writes evidence and replay files, prints the verdict lines and returns the exit code.
func (c *Ctx) finish(verifDir string, seed int, start time.Time, loadInfo map[string]interface{}) int {
	evDir := filepath.Join(verifDir, "evidence")
	repDir := filepath.Join(evDir, "replay")
	os.MkdirAll(repDir, 0o755)
	// remove stale replay files of this property
	if old, _ := filepath.Glob(filepath.Join(repDir, c.Prop+"-*.json")); old != nil {
		for _, f := range old {
			os.Remove(f)
		}
	}
	var nviol, nknown, nexc, ndis, nund int
	perRule := map[string]map[string]int{}
	var samples []Ob
	var viol []Ob
	for _, ob := range c.obs {
		m := perRule[ob.Rule]
		if m == nil {
			m = map[string]int{}
			perRule[ob.Rule] = m
		}
		m[ob.Status]++
		switch ob.Status {
		case "discharged":
			ndis++
			if m["discharged"] <= 2 {
				samples = append(samples, ob)
			}
		case "violation":
			nviol++
			viol = append(viol, ob)
		case "undecided":
			nund++
			viol = append(viol, ob)
		case "known-finding":
			nknown++
		case "exception":
			nexc++
		}
	}
	var stale []string
	for k, r := range c.exceptions {
		if !c.usedExc[k] {
			stale = append(stale, k+" ("+r+")")
		}
	}
	sort.Strings(stale)
	var nonDischarged []Ob
	for _, ob := range c.obs {
		if ob.Status != "discharged" {
			nonDischarged = append(nonDischarged, ob)
		}
	}
	var fns []string
	for f := range c.funcsSeen {
		fns = append(fns, f)
	}
	sort.Strings(fns)
	cov := map[string]interface{}{
		"explanation":         "static analysis of /repo's current source (type-checked AST, structured path conditions, call graph); rules applied: " + strings.Join(c.rulesDoc, " || "),
		"obligations":         len(c.obs),
		"discharged":          ndis,
		"exceptions_used":     nexc,
		"known_findings":      nknown,
		"undecided":           nund,
		"per_rule":            perRule,
		"floors":              c.floors,
		"samples":             samples,
		"non_discharged":      nonDischarged,
		"stale_exceptions":    stale,
		"functions_inspected": fns,
		"not_decided":         c.notDecided,
		"checker_cmd":         "/verif/run.sh " + c.Prop + " " + c.Tier,
		"exhaustive":          true,
		"load":                loadInfo,
		"seeded_replay":       loadInfo["seeded_replay"],
		"trusted_base":        []string{"go/types type checker", "golang.org/x/tools go/packages, go/ssa, callgraph/vta", "rule tables in /verif/checker"},
	}
	ev := evidence{Property: c.Prop, Tier: c.Tier, Seed: seed, Level: "other", Coverage: cov, Assume: c.assume,
		Wall: time.Since(start).Seconds(), Violations: nviol + nund}
	if ev.Assume == nil {
		ev.Assume = []string{}
	}
	b, _ := json.MarshalIndent(ev, "", " ")
	if err := os.WriteFile(filepath.Join(evDir, c.Prop+".json"), b, 0o644); err != nil {
		fmt.Fprintf(os.Stderr, "cannot write evidence: %v\n", err)
		return 2
	}
	fmt.Printf("property=%s tier=%s obligations=%d discharged=%d exceptions=%d known=%d violations=%d undecided=%d wall=%.1fs\n",
		c.Prop, c.Tier, len(c.obs), ndis, nexc, nknown, nviol, nund, ev.Wall)
	for _, fl := range c.floors {
		fmt.Printf("  floor %-8s %-55s found=%d floor=%d\n", fl.Rule, fl.What, fl.Found, fl.Floor)
	}
	for _, ob := range c.obs {
		if ob.Status == "known-finding" {
			fmt.Printf("KNOWN-FINDING: property=%s rule=%s construct=%s at %s: %s\n", c.Prop, ob.Rule, ob.Key, ob.Pos, ob.Reason)
		}
	}
	for i, ob := range viol {
		rp := filepath.Join(repDir, fmt.Sprintf("%s-%d.json", c.Prop, i+1))
		rb, _ := json.MarshalIndent(map[string]interface{}{"property": c.Prop, "tier": c.Tier, "rule": ob.Rule, "construct": ob.Key, "pos": ob.Pos, "msg": ob.Msg, "status": ob.Status}, "", " ")
		os.WriteFile(rp, rb, 0o644)
		fmt.Printf("  [%s] %s %s at %s: %s\n", ob.Status, ob.Rule, ob.Key, ob.Pos, ob.Msg)
		fmt.Printf("VIOLATION property=%s replay=%s\n", c.Prop, rp)
	}
	if nviol+nund > 0 {
		return 1
	}
	return 0
}
