package main

import (
	"go/ast"
	"go/token"
	"strings"
)

// C17 — placement: accept path of PlaceApplication, agreement of the rule implementations,
// recovery queue confinement, queue creation re-checks, ACL shape.

func init() { register("C17", rulesC17) }

// EndState returns the state at the fall-through end of an if/else body block.
func (p *Prog) EndState(fn *Func, blk ast.Node) *State { return p.Walk(fn).endOf[blk] }

func rulesC17(c *Ctx) {
	p := c.p
	c.NotDecided("which concrete queue name a rule chain computes (string arithmetic: normalisation, dot replacement, qualification)",
		"semantics of the user/group filter (regular expressions, list matching) and of ACL group resolution",
		"that the child template a dynamic queue inherits has the configured values")
	const mgr = "placement.AppPlacementManager"

	// ------------------------------------------------------------------ C17.a accept path
	c.Rule("C17.a", "PlaceApplication tries the rules in slice order; a rule's queue is only accepted (break) when, for an existing queue, it is a leaf, the user has submit access and it is not draining, and for a queue to be created, the nearest existing ancestor grants submit access; every rejection resets the name before moving on, so a failed last rule ends in ErrorRejected; SetQueuePath(name) only on success, SetQueuePath(\"\") with an error otherwise")
	fn := c.MustFunc("C17.a", mgr+".PlaceApplication")
	if fn != nil {
		var loop *ast.RangeStmt
		ast.Inspect(fn.Decl.Body, func(n ast.Node) bool {
			if rs, ok := n.(*ast.RangeStmt); ok && loop == nil {
				loop = rs
			}
			return true
		})
		okLoop := false
		if loop != nil {
			_, okLoop = p.fieldSel(loop.X, mgr+".rules")
			if id, isID := loop.Key.(*ast.Ident); okLoop && loop.Key != nil && (!isID || id.Name != "_") {
				okLoop = okLoop && true
			}
		}
		c.Check("C17.a", "rules are tried in configured order", fn.Decl, okLoop, "PlaceApplication does not range directly over m.rules")
		if loop != nil {
			qn := ""
			// the variable that receives the rule result
			var ruleCall *ast.CallExpr
			for _, call := range p.callsIn(fn, "placement.rule.placeApplication") {
				ruleCall = call
			}
			if ruleCall != nil {
				if as, ok := p.Parent(ruleCall).(*ast.AssignStmt); ok && len(as.Lhs) == 2 {
					qn = p.Src(as.Lhs[0])
				}
			}
			c.Check("C17.a", "rule result variable identified", loop, qn != "", "cannot find `queueName, err = checkRule.placeApplication(...)`")
			// the existing/non-existing split
			var split *ast.IfStmt
			for _, s := range loop.Body.List {
				if ifs, ok := s.(*ast.IfStmt); ok && ifs.Else != nil {
					if be, ok := unparen(ifs.Cond).(*ast.BinaryExpr); ok && be.Op == token.EQL && p.isNilExpr(be.Y) && p.TypeName(p.TypeOf(be.X)) == "objects.Queue" {
						split = ifs
					}
				}
			}
			if split == nil {
				c.Check("C17.a", "existing / to-be-created split present", loop, false, "the `if queue == nil {...} else {...}` check block was not found in the rule loop")
			} else {
				qObj := p.Src(unparen(split.Cond).(*ast.BinaryExpr).X)
				onQueue := func(call *ast.CallExpr, a Atom) bool { return Recv(call) != nil && p.Src(Recv(call)) == qObj }
				userArg := func(call *ast.CallExpr, a Atom) bool {
					if len(call.Args) < 1 {
						return false
					}
					uc, ok := unparen(call.Args[0]).(*ast.CallExpr)
					return ok && p.IsCall(uc, "objects.Application.GetUser") && p.isParam(fn, Recv(uc), 0)
				}
				stNew := p.EndState(fn, split.Body)
				stOld := p.EndState(fn, split.Else)
				c.Check("C17.a", "to-be-created queue: ancestor grants submit access", split.Body, stNew != nil && !stNew.Dead && p.Holds(stNew, p.CallAtom(true, allOf(onQueue, userArg), "objects.Queue.CheckSubmitAccess")), "the branch for a queue that does not exist yet can be left without queue.CheckSubmitAccess(app.GetUser()) on the nearest existing ancestor; facts: %v", p.FactStrings(stNew))
				c.Check("C17.a", "existing queue: is a leaf", split.Else, stOld != nil && !stOld.Dead && p.Holds(stOld, p.CallAtom(true, onQueue, "objects.Queue.IsLeafQueue")), "an existing queue is accepted without the fact queue.IsLeafQueue(); facts: %v", p.FactStrings(stOld))
				c.Check("C17.a", "existing queue: user has submit access", split.Else, stOld != nil && p.Holds(stOld, p.CallAtom(true, allOf(onQueue, userArg), "objects.Queue.CheckSubmitAccess")), "an existing queue is accepted without queue.CheckSubmitAccess(app.GetUser()); facts: %v", p.FactStrings(stOld))
				c.Check("C17.a", "existing queue: not draining", split.Else, stOld != nil && p.Holds(stOld, p.CallAtom(false, onQueue, "objects.Queue.IsDraining")), "an existing queue is accepted without the fact !queue.IsDraining(); facts: %v", p.FactStrings(stOld))
				// the queue object checked is the one named by the rule result
				qdef := false
				stS := p.StateAt(fn, split)
				if stS != nil {
					for _, t := range p.chain(Term{E: unparen(split.Cond).(*ast.BinaryExpr).X, Env: stS.Env, Idx: -1}) {
						if call, ok := unparen(t.E).(*ast.CallExpr); ok && len(call.Args) >= 1 && p.Src(call.Args[0]) == qn {
							if _, isFn := p.fieldSel(call.Fun, mgr+".queueFn"); isFn {
								qdef = true
							}
						}
					}
				}
				c.Check("C17.a", "checked queue is the rule's queue", split, qdef, "the queue object that is checked is not m.queueFn(%s)", qn)
				// after the split only logging and the accepting break follow
				after := false
				okTail := true
				nBreak := 0
				for _, s := range loop.Body.List {
					if s == ast.Stmt(split) {
						after = true
						continue
					}
					if !after {
						continue
					}
					switch x := s.(type) {
					case *ast.ExprStmt:
					case *ast.BranchStmt:
						if x.Tok == token.BREAK {
							nBreak++
						} else {
							okTail = false
						}
					default:
						okTail = false
					}
				}
				c.Check("C17.a", "accepting break directly follows the checks", split, okTail && nBreak == 1, "statements other than logging sit between the access checks and the accepting break (or the break is gone)")
				// every other break in the loop is the forced recovery short-cut
				ast.Inspect(loop.Body, func(n ast.Node) bool {
					if _, isLit := n.(*ast.FuncLit); isLit {
						return false
					}
					if inner, isFor := n.(*ast.ForStmt); isFor && inner != nil {
						return false
					}
					br, ok := n.(*ast.BranchStmt)
					if !ok || br.Tok != token.BREAK || p.Parent(br) == ast.Node(loop.Body) {
						return true
					}
					st := p.StateAt(fn, br)
					forced := p.Holds(st, p.CallAtom(true, func(call *ast.CallExpr, a Atom) bool { return p.isParam(fn, Recv(call), 0) }, "objects.Application.IsCreateForced"))
					rec := p.Holds(st, p.CmpAtom(func(op token.Token, x, y Term) bool {
						return op == token.EQL && p.Src(x.E) == qn && strings.HasSuffix(p.Src(y.E), "RecoveryQueueFull")
					}))
					c.Check("C17.a", "early break only for forced recovery placement", br, forced && rec, "a break that skips the access checks is not guarded by queueName == RecoveryQueueFull && app.IsCreateForced(); facts: %v", p.FactStrings(st))
					return true
				})
				// every continue after the empty-name test resets the name first
				nCont := 0
				ast.Inspect(loop.Body, func(n ast.Node) bool {
					br, ok := n.(*ast.BranchStmt)
					if !ok || br.Tok != token.CONTINUE {
						return true
					}
					st := p.StateAt(fn, br)
					empty := p.Holds(st, p.CmpAtom(func(op token.Token, x, y Term) bool {
						return op == token.EQL && p.Src(x.E) == qn && p.IsEmptyString(y.E)
					}))
					if empty {
						return true // the "no queue name, next rule" continue
					}
					nCont++
					reset := p.PrecededBy(fn, br, func(b ast.Node) bool {
						as, ok := b.(*ast.AssignStmt)
						return ok && len(as.Lhs) == 1 && len(as.Rhs) == 1 && p.Src(as.Lhs[0]) == qn && p.IsEmptyString(as.Rhs[0])
					})
					c.Check("C17.a", "rejected rule result is reset before the next rule", br, reset != nil, "`continue` after a failed check without %s = \"\": if this was the last rule the loop ends with the rejected queue name still set and the application is accepted into it", qn)
					return true
				})
				c.Floor("C17.a", "rejecting continues in the rule loop", nCont, 4)
			}
		}
		// returns
		nOK, nErr := 0, 0
		for _, ex := range p.returnsOf(fn) {
			rs, ok := ex.Node.(*ast.ReturnStmt)
			if !ok || len(rs.Results) != 1 {
				continue
			}
			if p.isNilExpr(rs.Results[0]) {
				nOK++
				set := p.DoneCall(ex.State, func(call *ast.CallExpr) bool { return len(call.Args) >= 1 && !p.IsEmptyString(call.Args[0]) }, "objects.Application.SetQueuePath")
				nonEmpty := p.Holds(ex.State, p.CmpAtom(func(op token.Token, x, y Term) bool { return op == token.NEQ && p.IsEmptyString(y.E) }))
				c.Check("C17.a", "success only with a non-empty queue set on the application", rs, set != nil && nonEmpty, "PlaceApplication returns nil without SetQueuePath(queueName) under queueName != \"\"")
			} else {
				nErr++
				cleared := p.DoneCall(ex.State, func(call *ast.CallExpr) bool { return len(call.Args) >= 1 && p.IsEmptyString(call.Args[0]) }, "objects.Application.SetQueuePath")
				c.Check("C17.a", "failure clears the queue path and carries a reason", rs, cleared != nil, "PlaceApplication returns an error without SetQueuePath(\"\")")
			}
		}
		c.Floor("C17.a", "success returns of PlaceApplication", nOK, 1)
		c.Floor("C17.a", "failure returns of PlaceApplication", nErr, 2)
	}

	// ------------------------------------------------------------------ C17.b rule implementations
	c.Rule("C17.b", "every configurable rule (provided, user, tag, fixed) returns a queue name only after its filter admitted the user, validates the name parts it generates, honours the create flag (no name for a missing queue unless create), propagates a parent rule's error or empty answer and refuses a parent that is an existing leaf")
	impls := []string{"placement.providedRule", "placement.userRule", "placement.tagRule", "placement.fixedRule"}
	for _, impl := range impls {
		fn := c.MustFunc("C17.b", impl+".placeApplication")
		if fn == nil {
			continue
		}
		nSucc := 0
		for _, ex := range p.returnsOf(fn) {
			rs, ok := ex.Node.(*ast.ReturnStmt)
			if !ok || len(rs.Results) != 2 || !p.isNilExpr(rs.Results[1]) || p.IsEmptyString(rs.Results[0]) {
				continue
			}
			nSucc++
			st := ex.State
			filt := p.Holds(st, p.CallAtom(true, func(call *ast.CallExpr, a Atom) bool {
				if len(call.Args) < 1 {
					return false
				}
				uc, ok := unparen(call.Args[0]).(*ast.CallExpr)
				return ok && p.IsCall(uc, "objects.Application.GetUser") && p.isParam(fn, Recv(uc), 0)
			}, "placement.Filter.allowUser"))
			c.Check("C17.b", shortFn(impl)+": filter admitted the user", rs, filt, "a queue name is returned without the fact filter.allowUser(app.GetUser()); facts: %v", p.FactStrings(st))
			create := p.Holds(st, func(a Atom) bool {
				be, ok := unparen(a.E).(*ast.BinaryExpr)
				if !ok || a.Val || be.Op != token.LAND {
					return false
				}
				src := p.Src(be)
				return strings.Contains(src, ".create") && strings.Contains(src, "== nil") && strings.HasPrefix(src, "!")
			})
			c.Check("C17.b", shortFn(impl)+": create flag honoured", rs, create, "a queue name is returned without having passed `if !rule.create && queue == nil { return \"\", nil }`; facts: %v", p.FactStrings(st))
		}
		c.Floor("C17.b", "success returns of "+shortFn(impl)+".placeApplication", nSucc, 1)
		// parent handling
		for _, call := range p.callsIn(fn, "placement.rule.placeApplication") {
			blk, _ := p.Parent(p.Parent(call)).(*ast.BlockStmt)
			var st *State
			if blk != nil {
				st = p.EndState(fn, blk)
			}
			okErr := st != nil && p.Holds(st, p.CmpAtom(func(op token.Token, x, y Term) bool {
				return op == token.EQL && p.isNilExpr(y.E) && p.TypeOf(x.E) != nil && p.TypeOf(x.E).String() == "error"
			}))
			okEmpty := st != nil && p.Holds(st, p.CmpAtom(func(op token.Token, x, y Term) bool { return op == token.NEQ && p.IsEmptyString(y.E) }))
			okLeaf := st != nil && p.Holds(st, func(a Atom) bool {
				be, ok := unparen(a.E).(*ast.BinaryExpr)
				return ok && !a.Val && be.Op == token.LAND && strings.Contains(p.Src(be), "IsLeafQueue()") && strings.Contains(p.Src(be), "!= nil")
			})
			c.Check("C17.b", shortFn(impl)+": parent rule error propagated", call, okErr, "the parent rule block can be left with an error that was not returned")
			c.Check("C17.b", shortFn(impl)+": parent rule empty answer short-circuits", call, okEmpty, "the parent rule block can be left with an empty parent name (rule would fall back to root)")
			c.Check("C17.b", shortFn(impl)+": existing leaf parent refused", call, okLeaf, "the parent rule block can be left although the parent queue exists and is a leaf")
		}
		// generated names are validated (fixed: in initialise)
		v := len(p.callsIn(fn, "configs.IsQueueNameValid"))
		if impl == "placement.fixedRule" {
			if ini := c.MustFunc("C17.b", impl+".initialise"); ini != nil {
				v = len(p.callsIn(ini, "configs.IsQueueNameValid"))
			}
		}
		c.Check("C17.b", shortFn(impl)+": generated name parts validated", fn.Decl, v >= 1, "%s no longer validates the queue name parts it produces with configs.IsQueueNameValid", impl)
	}

	// ------------------------------------------------------------------ C17.c recovery confinement
	c.Rule("C17.c", "the recovery queue is used for force-created applications only: the recovery rule answers only under IsCreateForced and is appended last and cannot be configured; any other rule result naming the recovery queue is rejected for non-forced applications; the queue is created only from AddApplication; it never passes an ACL check and is never created as a dynamic queue")
	if fn := c.MustFunc("C17.c", "placement.recoveryRule.placeApplication"); fn != nil {
		for _, ex := range p.returnsOf(fn) {
			rs, ok := ex.Node.(*ast.ReturnStmt)
			if !ok || len(rs.Results) != 2 || p.IsEmptyString(rs.Results[0]) {
				continue
			}
			forced := p.Holds(ex.State, p.CallAtom(true, func(call *ast.CallExpr, a Atom) bool { return p.isParam(fn, Recv(call), 0) }, "objects.Application.IsCreateForced"))
			c.Check("C17.c", "recovery rule answers only for forced applications", rs, forced, "recoveryRule returns %s without the fact app.IsCreateForced()", p.Src(rs.Results[0]))
		}
	}
	if fn != nil {
		// every path that reaches the access checks (and hence the accepting break) knows that the
		// rule result is not the recovery queue
		n := 0
		ast.Inspect(fn.Decl.Body, func(nd ast.Node) bool {
			ifs, ok := nd.(*ast.IfStmt)
			if !ok || ifs.Else == nil {
				return true
			}
			be, ok := unparen(ifs.Cond).(*ast.BinaryExpr)
			if !ok || be.Op != token.EQL || !p.isNilExpr(be.Y) || p.TypeName(p.TypeOf(be.X)) != "objects.Queue" {
				return true
			}
			n++
			st := p.StateAt(fn, ifs)
			// only the case-insensitive predicate counts: queue lookups fold case, so `!= RecoveryQueueFull` lets
			// root.@Recovery@ through (round-5 change C17_A_r5)
			notRec := p.Holds(st, p.CallAtom(false, nil, "common.IsRecoveryQueue"))
			c.Check("C17.c", "access checks are only reached for a queue other than the recovery queue", ifs, notRec, "the ACL/leaf checks (and the accepting break behind them) are reached without the fact that the rule result is not the recovery queue: an ordinary rule yielding root.@recovery@ passes the root ACL (the queue does not exist yet) and a non-forced application lands in the recovery queue; facts: %v", p.FactStrings(st))
			return true
		})
		c.Floor("C17.c", "access check blocks in PlaceApplication", n, 1)
	}
	if fn := c.MustFunc("C17.c", "placement.buildRules"); fn != nil {
		// the last append before every successful return is the recovery rule
		n := 0
		for _, ex := range p.returnsOf(fn) {
			rs, ok := ex.Node.(*ast.ReturnStmt)
			if !ok || len(rs.Results) != 2 || !p.isNilExpr(rs.Results[1]) {
				continue
			}
			n++
			last := ""
			for _, d := range ex.State.Done {
				if as, ok := d.(*ast.AssignStmt); ok && len(as.Rhs) == 1 {
					if call, ok := unparen(as.Rhs[0]).(*ast.CallExpr); ok {
						if id, ok := unparen(call.Fun).(*ast.Ident); ok && id.Name == "append" && len(call.Args) >= 2 {
							last = p.Src(call.Args[1])
						}
					}
				}
			}
			c.Check("C17.c", "recovery rule appended last", rs, strings.Contains(last, "recoveryRule"), "buildRules returns a rule list whose last appended element is %q, not &recoveryRule{}", last)
		}
		c.Floor("C17.c", "successful returns of buildRules", n, 1)
	}
	c.whoMayCall("C17.c", "objects.NewRecoveryQueue", 1, map[string]string{"scheduler.PartitionContext.createRecoveryQueue": "only creator"})
	c.whoMayCall("C17.c", "scheduler.PartitionContext.createRecoveryQueue", 1, map[string]string{"scheduler.PartitionContext.AddApplication": "only for an application placed in the recovery queue"})
	if fn := c.MustFunc("C17.c", "objects.Queue.CheckSubmitAccess"); fn != nil {
		first, ok := fn.Decl.Body.List[0].(*ast.IfStmt)
		okRec := false
		if ok {
			if call, isCall := unparen(first.Cond).(*ast.CallExpr); isCall && p.IsCall(call, "common.IsRecoveryQueue") && len(first.Body.List) == 1 {
				if rs, isRet := first.Body.List[0].(*ast.ReturnStmt); isRet && len(rs.Results) == 1 && p.isConstBool(rs.Results[0], false) {
					okRec = true
				}
			}
		}
		c.Check("C17.c", "recovery queue never passes a submit ACL check", fn.Decl, okRec, "CheckSubmitAccess does not start with `if common.IsRecoveryQueue(sq.QueuePath) { return false }`")
	}
	if fn := c.MustFunc("C17.c", "objects.NewDynamicQueue"); fn != nil {
		c.Check("C17.c", "dynamic queue creation rejects the recovery name", fn.Decl, len(p.callsIn(fn, "common.IsRecoveryQueue"))+strings.Count(p.funcSrcContains(fn, "RecoveryQueue"), "x") >= 1, "NewDynamicQueue no longer refuses the recovery queue name")
		c.mustContainCalls("C17.c", "objects.NewDynamicQueue", "configs.IsQueueNameValid")
	}
	if fn := c.MustFunc("C17.c", "placement.newRule"); fn != nil {
		c.Check("C17.c", "recovery rule cannot be configured", fn.Decl, !strings.Contains(p.funcSrcContains(fn, "recoveryRule"), "x"), "newRule can build a recoveryRule from configuration")
	}

	// ------------------------------------------------------------------ C17.d createQueue
	c.Rule("C17.d", "PartitionContext.createQueue creates queues only after the nearest existing ancestor granted submit access to the user and is not a leaf; only the last created part is a leaf; a dynamic queue takes over the parent's child template")
	if fn := c.MustFunc("C17.d", "scheduler.PartitionContext.createQueue"); fn != nil {
		calls := p.callsIn(fn, "objects.NewDynamicQueue")
		for _, call := range calls {
			st := p.StateAt(fn, call)
			// the creation loop re-assigns `queue` to each new child: the facts about the existing
			// ancestor are those holding when the loop is entered
			for par := p.Parent(call); par != nil; par = p.Parent(par) {
				if fs, isFor := par.(*ast.ForStmt); isFor {
					st = p.StateAt(fn, fs)
					break
				}
				if _, isFn := par.(*ast.FuncDecl); isFn {
					break
				}
			}
			acl := p.Holds(st, p.CallAtom(true, func(cl *ast.CallExpr, a Atom) bool { return len(cl.Args) >= 1 && p.isParam(fn, cl.Args[0], 1) }, "objects.Queue.CheckSubmitAccess"))
			notLeaf := p.Holds(st, p.CallAtom(false, nil, "objects.Queue.IsLeafQueue"))
			c.Check("C17.d", "queue created only with submit access on the existing ancestor", call, acl, "NewDynamicQueue reached without the fact queue.CheckSubmitAccess(user); facts: %v", p.FactStrings(st))
			c.Check("C17.d", "queue created only under a non-leaf", call, notLeaf, "NewDynamicQueue reached without the fact !queue.IsLeafQueue(); facts: %v", p.FactStrings(st))
			leafArg := len(call.Args) >= 2 && p.Src(call.Args[1]) == "i == 0"
			c.Check("C17.d", "only the last created part is a leaf", call, leafArg, "leaf flag passed to NewDynamicQueue is %s, expected i == 0 (last part)", p.Src(call.Args[1]))
		}
		c.Floor("C17.d", "NewDynamicQueue calls in createQueue", len(calls), 1)
	}
	c.whoMayCall("C17.d", "objects.NewDynamicQueue", 1, map[string]string{"scheduler.PartitionContext.createQueue": "ACL and leaf re-check live here"})
	c.whoMayCall("C17.d", "scheduler.PartitionContext.createQueue", 1, map[string]string{"scheduler.PartitionContext.AddApplication": "after placement"})
	c.mustContainCalls("C17.d", "objects.Queue.addChildQueue", "objects.Queue.applyTemplate")
	if fn := c.MustFunc("C17.d", "scheduler.PartitionContext.AddApplication"); fn != nil {
		// the application is only registered in a leaf queue
		calls := p.callsIn(fn, "objects.Queue.AddApplication")
		for _, call := range calls {
			st := p.StateAt(fn, call)
			leaf := p.Holds(st, p.CallAtom(true, p.recvIs(T(Recv(call), st)), "objects.Queue.IsLeafQueue"))
			c.Check("C17.d", "application added to a leaf queue only", call, leaf, "queue.AddApplication reached without the fact queue.IsLeafQueue(); facts: %v", p.FactStrings(st))
		}
		c.Floor("C17.d", "Queue.AddApplication calls in AddApplication", len(calls), 1)
		pl := p.callsIn(fn, mgr+".PlaceApplication")
		c.Check("C17.d", "AddApplication places the application first", fn.Decl, len(pl) == 1, "AddApplication does not call PlaceApplication exactly once")
	}

	// ------------------------------------------------------------------ C17.e ACL shape
	c.Rule("C17.e", "Queue.CheckSubmitAccess = submit ACL or admin ACL of this queue, else the parent's answer; ACL.CheckAccess = all allowed, or the user, or any of the user's groups")
	if fn := c.MustFunc("C17.e", "objects.Queue.CheckSubmitAccess"); fn != nil {
		// the local answer: submitACL.CheckAccess(user) || adminACL.CheckAccess(user) of this queue (either order,
		// directly or through a private helper that only locks around it)
		isLocalACLs := func(t Term) bool {
			for _, ct := range p.chain(t) {
				b, ok := unparen(ct.E).(*ast.BinaryExpr)
				if !ok || b.Op.String() != "||" {
					continue
				}
				seen := map[string]bool{}
				for _, side := range []ast.Expr{b.X, b.Y} {
					cl, isC := unparen(side).(*ast.CallExpr)
					if !isC || !p.IsCall(cl, "security.ACL.CheckAccess") || Recv(cl) == nil {
						continue
					}
					for _, f := range []string{"submitACL", "adminACL"} {
						if _, isF := p.fieldSel(Recv(cl), "objects.Queue."+f); isF {
							seen[f] = true
						}
					}
				}
				if seen["submitACL"] && seen["adminACL"] {
					return true
				}
			}
			return false
		}
		rec, both := false, false
		for _, call := range p.callsIn(fn, "objects.Queue.CheckSubmitAccess") {
			st := p.StateAt(fn, call)
			if !p.recvField(fn, Recv(call), "objects.Queue.parent") {
				continue
			}
			if p.Holds(st, func(a Atom) bool { return !a.Val && isLocalACLs(a.term(a.E)) }) {
				rec, both = true, true
			}
		}
		c.Check("C17.e", "submit and admin ACL both consulted", fn.Decl, both, "CheckSubmitAccess no longer decides locally on submitACL.CheckAccess(user) || adminACL.CheckAccess(user) before asking the parent")
		c.Check("C17.e", "denied locally => ask the parent", fn.Decl, rec, "CheckSubmitAccess no longer recurses to sq.parent when access is not granted locally")
	}
	if fn := c.MustFunc("C17.e", "security.ACL.CheckAccess"); fn != nil {
		nTrue := 0
		for _, ex := range p.returnsOf(fn) {
			if rs, ok := ex.Node.(*ast.ReturnStmt); ok && len(rs.Results) == 1 && p.isConstBool(rs.Results[0], true) {
				nTrue++
			}
		}
		c.Check("C17.e", "ACL.CheckAccess has its three allow paths", fn.Decl, nTrue == 3, "ACL.CheckAccess has %d `return true` paths, expected 3 (all allowed, user listed, group listed)", nTrue)
	}
}

// funcSrcContains returns "x" repeated once per occurrence of needle in the identifiers of fn's body.
func (p *Prog) funcSrcContains(fn *Func, needle string) string {
	out := ""
	ast.Inspect(fn.Decl.Body, func(n ast.Node) bool {
		if id, ok := n.(*ast.Ident); ok && strings.Contains(id.Name, needle) {
			out += "x"
		}
		return true
	})
	return out
}

// funcSrcContainsAll renders every expression statement / condition of fn (coarse textual view used
// only for fixed two-operand shapes).
func (p *Prog) funcSrcContainsAll(fn *Func) string {
	var sb strings.Builder
	ast.Inspect(fn.Decl.Body, func(n ast.Node) bool {
		if e, ok := n.(ast.Expr); ok {
			if _, isBin := e.(*ast.BinaryExpr); isBin {
				sb.WriteString(p.Src(e))
				sb.WriteString("\n")
			}
		}
		return true
	})
	return sb.String()
}
