package main

import (
	"go/ast"
	"go/types"
	"sort"
	"strings"
)

// C13 — no SI request can crash the core: nil-flow on SI-reachable code, explicit crash sources,
// unchecked type assertions, integer divisions; invalid items are rejected.

func init() { register("C13", rulesC13) }

var c13Pkgs = []string{"scheduler", "objects", "ugm", "placement", "security", "rmproxy", "resources", "common", "template", "policies", "events", "objects/events"}

func rulesC13(c *Ctx) {
	p := c.p
	c.NotDecided("hangs (blocking channel operations, lock waits)",
		"that a rejected item leaves every ledger exactly as it was (beyond the rejection paths checked in C04/C13.c)",
		"nil values stored in struct fields or containers (only locals with a visible reaching definition, explicit nil tests and map lookups are tracked)",
		"index-out-of-range on slices whose length depends on input")
	c.Assume("protobuf getters (Get*) of SI messages are nil-receiver safe; list elements and map values of SI messages are never nil (property quantifier)",
		"a function returning (pointer, error) returns a non-nil pointer when the error is nil",
		"struct fields holding pointers are non-nil unless a test in the same function says otherwise")

	// scope: functions reachable from the SI entry points and the goroutines they feed
	roots := []string{"rmproxy.RMProxy.UpdateAllocation", "rmproxy.RMProxy.UpdateApplication", "rmproxy.RMProxy.UpdateNode", "rmproxy.RMProxy.UpdateConfiguration",
		"rmproxy.RMProxy.RegisterResourceManager", "scheduler.Scheduler.handleRMEvent", "scheduler.Scheduler.internalSchedule",
		"scheduler.ClusterContext.handleRMUpdateAllocationEvent", "scheduler.ClusterContext.handleRMUpdateApplicationEvent", "scheduler.ClusterContext.handleRMUpdateNodeEvent",
		"scheduler.ClusterContext.processRMRegistrationEvent", "scheduler.ClusterContext.processRMConfigUpdateEvent", "scheduler.ClusterContext.schedule",
		"objects.Application.timeoutStateTimer", "objects.Application.timeoutPlaceholderProcessing", "objects.Queue.TryQuotaPreemption",
		"scheduler.partitionManager.Run", "scheduler.Scheduler.inspectOutstandingRequests"}
	var have []string
	for _, r := range roots {
		if p.Funcs[r] != nil {
			have = append(have, r)
		}
	}
	c.Floor("C13.scope", "SI entry points and scheduler goroutine roots resolved", len(have), 12)
	reach := p.Reachable("vta", have...)
	inPkgs := func(fn *Func) bool {
		for _, s := range c13Pkgs {
			if p.InPkg(fn, s) {
				return true
			}
		}
		return false
	}
	inScope := func(fn *Func) bool { return inPkgs(fn) && reach.Has(fn) }
	nScope := 0
	for _, fn := range p.funcs {
		if inScope(fn) {
			nScope++
			c.Touch(fn)
		}
	}
	c.Floor("C13.scope", "functions in the SI-reachable scope", nScope, 600)

	// ------------------------------------------------------------------ C13.a nil flow
	c.Rule("C13.a", "on SI-reachable code a local holding the result of a function that may return nil (inferred: literal nil return, unchecked pointer-valued map lookup, or transitively; functions that are nil only for a nil argument are followed through their argument) or an unchecked pointer-valued map lookup is only dereferenced under the fact v != nil (or a comma-ok fact, or `G(v) == true` where G answers false for nil); a variable tested against nil is not dereferenced where the test does not exclude nil (contradiction rule)")
	c.Except("C13.a", "userTracker.hasGroupForApp in ugm.Manager.ensureGroupTrackerForApp", "all three callers (IncreaseTrackedResource, Headroom, CanRunApp) call getUserTracker(user), which creates the tracker, immediately before; documented precondition of the function")
	c.Except("C13.a", "userTracker.setGroupForApp in ugm.Manager.ensureGroupTrackerForApp", "same precondition as above")
	c.Except("C13.a", "oldConf.Checksum in scheduler.ClusterContext.processRMConfigUpdateEvent", "ConfigContext.Set(policyGroup, conf) runs in NewClusterContext / processRMRegistrationEvent before any update event can be handled (the event is refused while there are no partitions)")
	c.Except("C13.a", "map entry sn.allocations[allocationKey].GetCreateTime in objects.Node.ReplaceAllocation", "the only caller (PartitionContext.removeAllocation, PLACEHOLDER_REPLACED branch) passes the key of the placeholder it just took from the application and whose node id names this node; placeholder allocations are added to the node before they are added to the application")
	c.Except("C13.a", "map entry results[c.QueuePath].AskQueue in objects.Queue.FindEligiblePreemptionVictims", "createPreemptionSnapshot(results, queuePath) on the line before creates an entry for this queue and every ancestor, which is exactly the chain the loop walks")
	na := p.Nil()
	sites := na.Sites(inScope)
	for _, s := range sites {
		c.Check("C13.a", p.Src(s.Node)+" in "+s.Fn.Name, s.Node, s.OK, "%s is dereferenced without a nil check although it holds the %s: a request that makes it nil crashes the core", s.Var.Name, s.Source)
	}
	c.Floor("C13.a", "dereferences of possibly-nil locals analysed", len(sites), 80)
	beliefs := na.BeliefSites(inScope)
	for _, s := range beliefs {
		c.Check("C13.a", "belief: "+p.Src(s.Node)+" in "+s.Fn.Name, s.Node, false, "%s %s, yet it is dereferenced", s.Var.Name, s.Source)
	}
	c.Check("C13.a", "no dereference contradicts a nil test", nil, true, "")
	mds := na.MapDerefSites(inScope)
	for _, s := range mds {
		c.Check("C13.a", "map entry "+p.Src(s.Node)+" in "+s.Fn.Name, s.Node, s.OK, "%s: the entry is used without a presence test (missing key => nil pointer dereference)", s.Source)
	}
	c.Floor("C13.a", "functions found that may return nil", len(na.mayNil), 40)
	// the nullable getters the SI handlers rely on are recognised as such
	for _, g := range []string{"objects.NewAllocationFromSI", "scheduler.PartitionContext.getApplication", "scheduler.PartitionContext.GetNode", "objects.Allocation.GetRelease",
		"objects.Application.GetQueue", "scheduler.ClusterContext.GetPartition", "objects.baseNodeCollection.GetNode", "ugm.Manager.GetUserTracker"} {
		fn := c.MustFunc("C13.a", g)
		if fn != nil {
			_, is := na.mayNil[fn.Obj]
			c.Check("C13.a", "nullable getter recognised: "+g, fn.Decl, is, "%s is no longer inferred to return nil sometimes: the nil-flow analysis would silently stop covering its callers", g)
		}
	}

	// ------------------------------------------------------------------ C13.b explicit crash sources
	c.Rule("C13.b", "no reachable call of panic, os.Exit, log.Fatal*, zap Fatal/Panic in the scope except the listed ones")
	c.Except("C13.b", "zap.Fatal in security.GetUserGroupCacheLdap", "deliberate fail-fast when the LDAP resolver configuration (secrets directory) is unusable; reached only while a partition with the ldap resolver is created from configuration, not from allocation/application/node traffic")
	c.Except("C13.b", "panic in security.GetUserGroupCacheLdap", "same fail-fast path as above")
	c.Except("C13.b", "panic in rmproxy.RMProxy.handleRMEvents", "default case of the type switch over the five rmevent types that the core itself constructs (C04.d): unreachable for SI input")
	nCrash := 0
	for _, fn := range p.funcs {
		if !inScope(fn) || fn.Decl.Body == nil {
			continue
		}
		ast.Inspect(fn.Decl.Body, func(n ast.Node) bool {
			call, ok := n.(*ast.CallExpr)
			if !ok {
				return true
			}
			kind := ""
			if id, ok := unparen(call.Fun).(*ast.Ident); ok && id.Name == "panic" {
				if _, isB := p.ObjOf(id).(*types.Builtin); isB {
					kind = "panic"
				}
			}
			switch p.CalleeName(call) {
			case "os.Exit", "log.Fatal", "log.Fatalf", "log.Panic", "log.Panicf":
				kind = p.CalleeName(call)
			}
			if f := p.Callee(call); f != nil && f.Pkg() != nil && f.Pkg().Path() == "go.uber.org/zap" && (f.Name() == "Fatal" || f.Name() == "Panic" || f.Name() == "DPanic") {
				if f.Name() != "DPanic" {
					kind = "zap." + f.Name()
				}
			}
			if kind == "" {
				return true
			}
			nCrash++
			c.Check("C13.b", kind+" in "+fn.Name, call, false, "%s is reachable from the SI entry points: %s", kind, reach.Path(p, fn))
			return true
		})
	}
	c.Check("C13.b", "crash sources enumerated", nil, true, "")

	// ------------------------------------------------------------------ C13.c unchecked type assertions
	c.Rule("C13.c", "single-value type assertions (which panic on mismatch) in the scope are only applied to FSM event arguments (the core passes them itself) or are listed")
	nTA := 0
	for _, fn := range p.funcs {
		if !inScope(fn) || fn.Decl.Body == nil {
			continue
		}
		ast.Inspect(fn.Decl.Body, func(n ast.Node) bool {
			ta, ok := n.(*ast.TypeAssertExpr)
			if !ok || ta.Type == nil {
				return true
			}
			// comma-ok form?
			if as, isAs := p.Parent(ta).(*ast.AssignStmt); isAs && len(as.Lhs) == 2 && len(as.Rhs) == 1 {
				return true
			}
			if vs, isVS := p.Parent(ta).(*ast.ValueSpec); isVS && len(vs.Names) == 2 {
				return true
			}
			if _, isSw := p.Parent(ta).(*ast.TypeSwitchStmt); isSw {
				return true
			}
			nTA++
			okArg := strings.HasPrefix(p.Src(ta.X), "event.Args[")
			c.Check("C13.c", "type assertion "+p.Src(ta)+" in "+fn.Name, ta, okArg, "unchecked type assertion on %s: a value of another type panics", p.Src(ta.X))
			return true
		})
	}
	c.Floor("C13.c", "single-value type assertions in scope", nTA, 10)

	// ------------------------------------------------------------------ C13.d integer division
	c.Rule("C13.d", "integer division / remainder by a non-constant divisor in the scope needs a non-zero fact for the divisor (or is listed with its invariant)")
	c.Except("C13.d", "% in events.eventRingBuffer.Add", "capacity >= 1 (C20.g: constructor and Resize only receive non-zero capacities)")
	c.Except("C13.d", "% in events.eventRingBuffer.id2pos", "capacity >= 1 (C20.g)")
	c.Except("C13.d", "% in events.eventRingBuffer.Resize", "capacity >= 1 (C20.g)")
	c.Except("C13.d", "% in events.eventRingBuffer.Resize#2", "capacity >= 1 (C20.g)")
	c.Except("C13.d", "% in events.eventRingBuffer.Resize#3", "newSize != 0: Resize is only called with getRingBufferCapacity() (C20.g)")
	divs := p.intDivSites(func(fn *Func) bool { return inPkgs(fn) })
	sort.SliceStable(divs, func(i, j int) bool { return divs[i].Node.Pos() < divs[j].Node.Pos() })
	for _, s := range divs {
		st := p.StateAt(s.Fn, s.Node)
		nz := st != nil && p.Holds(st, p.CmpAtom(func(op tokenT, x, y Term) bool {
			v, isC := p.ConstInt(y.E)
			return isC && v == 0 && (op == tokNEQ || op == tokGTR) && p.Same(x, T(s.Y, st))
		}))
		if !nz && st != nil {
			// divisor is len(x) with a fact len(x) != 0 / > 0 / x non-empty through a loop over it
			nz = p.Holds(st, p.CmpAtom(func(op tokenT, x, y Term) bool {
				v, isC := p.ConstInt(y.E)
				return isC && ((v == 0 && (op == tokNEQ || op == tokGTR)) || (v >= 1 && (op == tokGEQ || op == tokEQL))) && p.Src(x.E) == p.Src(s.Y)
			}))
		}
		c.Check("C13.d", s.Op+" in "+s.Fn.Name, s.Node, nz, "integer %s by %s without a fact that it is not zero (integer divide by zero panics)", s.Op, p.Src(s.Y))
	}
	c.Floor("C13.d", "integer divisions with a variable divisor", len(divs), 4)

	// ------------------------------------------------------------------ C13.e invalid item => rejection
	c.Rule("C13.e", "processAllocations answers every item it cannot apply with a RejectedAllocation: each `continue` of the per-allocation loop is preceded by an append to the rejected list, and a nil conversion result is one of those cases")
	if fn := c.MustFunc("C13.e", "scheduler.ClusterContext.processAllocations"); fn != nil {
		n := 0
		ast.Inspect(fn.Decl.Body, func(nd ast.Node) bool {
			br, ok := nd.(*ast.BranchStmt)
			if !ok || br.Tok.String() != "continue" {
				return true
			}
			if st := p.StateAt(fn, br); st != nil && p.Holds(st, p.ResultNilAtom(true, nil, "scheduler.PartitionContext.UpdateAllocation")) {
				return true // the item was applied: nothing to reject
			}
			n++
			rej := p.PrecededBy(fn, br, func(b ast.Node) bool {
				as, ok := b.(*ast.AssignStmt)
				if !ok || len(as.Rhs) != 1 {
					return false
				}
				call, ok := unparen(as.Rhs[0]).(*ast.CallExpr)
				if !ok || len(call.Args) < 2 {
					return false
				}
				id, ok := unparen(call.Fun).(*ast.Ident)
				return ok && id.Name == "append" && strings.Contains(p.TypeName(p.TypeOf(call.Args[1])), "RejectedAllocation")
			})
			c.Check("C13.e", "skipped allocation is rejected", br, rej != nil, "an allocation is skipped (continue) without a RejectedAllocation being added: the shim never learns that the item was not applied")
			return true
		})
		c.Floor("C13.e", "skip paths in processAllocations", n, 3)
		// the announcement must not look at the allocation before knowing it was created
		for _, call := range p.callsIn(fn, "scheduler.PartitionContext.UpdateAllocation") {
			st := p.StateAt(fn, call)
			nonNil := len(call.Args) >= 1 && p.Holds(st, p.NilAtom(false, func(t Term) bool { return p.Same(t, T(call.Args[0], st)) }))
			c.Check("C13.e", "UpdateAllocation only receives a converted allocation", call, nonNil, "UpdateAllocation(alloc) is reached with a possibly nil conversion result: UpdateAllocation ignores nil without an error, so the invalid item is dropped silently")
		}
	}

	// ------------------------------------------------------------------ C13.f rejected registration leaves no trace
	c.Rule("C13.f", "a node registration only changes the partition totals after the node collection accepted the node (duplicate ids are refused there); a rejected application is not added to a queue")
	if fn := c.MustFunc("C13.f", "scheduler.PartitionContext.addNodeToList"); fn != nil {
		calls := p.callsIn(fn, "scheduler.PartitionContext.updatePartitionResource")
		for _, call := range calls {
			st := p.StateAt(fn, call)
			ok := p.Holds(st, p.ResultNilAtom(true, nil, "objects.NodeCollection.AddNode"))
			c.Check("C13.f", "partition total grows only for an accepted node", call, ok, "updatePartitionResource(node capacity) runs without the fact nodes.AddNode(node) == nil: a registration that is then rejected (duplicate node id) has already inflated the partition total and the root queue maximum")
		}
		c.Floor("C13.f", "partition total updates in addNodeToList", len(calls), 1)
	}
	if fn := c.MustFunc("C13.f", "scheduler.PartitionContext.AddApplication"); fn != nil {
		for _, call := range p.callsIn(fn, "objects.Queue.AddApplication") {
			st := p.StateAt(fn, call)
			ok := p.Holds(st, p.ResultNilAtom(true, nil, "placement.AppPlacementManager.PlaceApplication"))
			if !ok {
				// the error variable may have been reused since: the placement call is followed at once by
				// `if err != nil { return ... }` and has executed on this path
				if pl := p.DoneCall(st, nil, "placement.AppPlacementManager.PlaceApplication"); pl != nil {
					ok = p.errorReturnedAtOnce(pl)
				}
			}
			c.Check("C13.f", "application reaches a queue only after placement succeeded", call, ok, "queue.AddApplication without PlaceApplication(app) == nil")
		}
	}
}

// errorReturnedAtOnce: the call is the right-hand side of an assignment (or an if-init) whose error result is
// tested non-nil by the very next statement, which returns.
func (p *Prog) errorReturnedAtOnce(call *ast.CallExpr) bool {
	as, ok := p.Parent(call).(*ast.AssignStmt)
	if !ok || len(as.Lhs) == 0 {
		return false
	}
	errID, ok := as.Lhs[len(as.Lhs)-1].(*ast.Ident)
	if !ok {
		return false
	}
	returnsOnErr := func(ifs *ast.IfStmt) bool {
		be, isB := unparen(ifs.Cond).(*ast.BinaryExpr)
		if !isB || be.Op.String() != "!=" || !p.isNilExpr(be.Y) {
			return false
		}
		id, isID := unparen(be.X).(*ast.Ident)
		if !isID || p.ObjOf(id) != p.ObjOf(errID) || len(ifs.Body.List) == 0 {
			return false
		}
		_, isRet := ifs.Body.List[len(ifs.Body.List)-1].(*ast.ReturnStmt)
		return isRet
	}
	switch par := p.Parent(as).(type) {
	case *ast.IfStmt:
		return par.Init == ast.Stmt(as) && returnsOnErr(par)
	case *ast.BlockStmt:
		for i, st := range par.List {
			if st == ast.Stmt(as) && i+1 < len(par.List) {
				if ifs, isIf := par.List[i+1].(*ast.IfStmt); isIf {
					return returnsOnErr(ifs)
				}
			}
		}
	}
	return false
}
