package main

import (
	"go/ast"
)

// C02 — scheduling never takes a queue above its maximum.

func init() { register("C02", rulesC02) }

func rulesC02(c *Ctx) {
	p := c.p
	c.NotDecided("numeric correctness of headroom values", "quota coming from templates / application tags", "that a child's effective limit is numerically tighter than the parent's (only the min-with-parent shape is checked)")

	// ---- C02.a checked increment only
	c.Rule("C02.a", "the unchecked Queue.IncAllocatedResource is only used by RM-forced paths and is unreachable from the scheduling roots; Queue.allocatedResource is written only by the three ledger methods")
	c.whoMayCall("C02.a", "objects.Queue.IncAllocatedResource", 4, map[string]string{
		"scheduler.PartitionContext.UpdateAllocation":   "recovered / externally placed allocation",
		"objects.Application.UpdateAllocationResources": "in-place resource change requested by the RM",
		"objects.Queue.IncAllocatedResource":            "recursion to the parent",
	})
	c.notReachable("C02.a", schedulingRoots, "objects.Queue.IncAllocatedResource")
	c.fieldWritersConfined("C02.a", "objects.Queue.allocatedResource", 4, func(w FieldWrite) (bool, string) {
		switch w.Fn.Name {
		case "objects.Queue.TryIncAllocatedResource", "objects.Queue.IncAllocatedResource", "objects.Queue.DecAllocatedResource", "objects.newBlankQueue":
			return true, ""
		}
		return false, "Queue.allocatedResource written outside Try/Inc/DecAllocatedResource (in " + w.Fn.Name + ")"
	})
	c.fieldWritersConfined("C02.a", "objects.Queue.maxResource", 4, func(w FieldWrite) (bool, string) {
		switch w.Fn.Name {
		case "objects.Queue.setResources", "objects.Queue.SetMaxResource", "objects.Queue.applyTemplate":
			return true, ""
		}
		return false, "Queue.maxResource written outside setResources/SetMaxResource/applyTemplate (in " + w.Fn.Name + ")"
	})
	c.whoMayCall("C02.a", "objects.Queue.SetMaxResource", 1, map[string]string{
		"scheduler.PartitionContext.updatePartitionResource": "root maximum follows the sum of registered node capacities",
	})

	// ---- C02.b every ancestor re-checked before commit
	c.Rule("C02.b", "in TryIncAllocatedResource the write of allocatedResource is dominated by allocatedResFits(alloc) on this queue and (parent == nil or parent.TryIncAllocatedResource(alloc) == nil) on the direct parent with the same operand; allocatedResFits compares max.FitIn/FitInMaxUndef(AddOnlyExisting(alloc, allocated)) with FitIn exactly on the root")
	if fn := c.MustFunc("C02.b", "objects.Queue.TryIncAllocatedResource"); fn != nil {
		f := p.Field("objects.Queue.allocatedResource")
		n := 0
		for _, w := range p.FieldWrites(f) {
			if !p.inFn(w.Fn, fn) {
				continue
			}
			n++
			st := p.StateAt(fn, w.Node)
			allocT := T(paramIdent(fn, 0), st)
			fits := p.Holds(st, p.CallAtom(true, func(call *ast.CallExpr, a Atom) bool {
				return p.isRecvExpr(fn, Recv(call)) && len(call.Args) >= 1 && p.Same(a.term(call.Args[0]), allocT)
			}, "objects.Queue.allocatedResFits"))
			c.Check("C02.b", "own maximum re-checked before commit", w.Node, fits, "allocatedResource is updated without allocatedResFits(alloc) == true on this queue; facts: %v", p.FactStrings(st))
			parent := p.Holds(st, anyReq(
				p.NilAtom(true, func(t Term) bool { return p.recvField(fn, t.E, "objects.Queue.parent") }),
				p.ResultNilAtom(true, func(call *ast.CallExpr, a Atom) bool {
					return p.recvField(fn, Recv(call), "objects.Queue.parent") && len(call.Args) >= 1 && p.Same(a.term(call.Args[0]), allocT)
				}, "objects.Queue.TryIncAllocatedResource")))
			c.Check("C02.b", "direct parent re-checked before commit", w.Node, parent, "allocatedResource is updated without (parent == nil || parent.TryIncAllocatedResource(alloc) == nil) on the direct parent; facts: %v", p.FactStrings(st))
			// the committed value is allocated + alloc
			okVal := false
			if call, ok := unparen(w.Arg).(*ast.CallExpr); ok && p.IsCall(call, "resources.Add") && len(call.Args) >= 2 {
				okVal = p.recvField(fn, call.Args[0], "objects.Queue.allocatedResource") && p.Same(T(call.Args[1], st), allocT)
			}
			c.Check("C02.b", "committed value is allocated+alloc", w.Node, okVal, "TryIncAllocatedResource commits %s instead of Add(allocatedResource, alloc)", p.Src(w.Arg))
		}
		c.Floor("C02.b", "writes of allocatedResource in TryIncAllocatedResource", n, 1)
	}
	if fn := c.MustFunc("C02.b", "objects.Queue.allocatedResFits"); fn != nil {
		n := 0
		for _, ex := range p.returnsOf(fn) {
			rs, ok := ex.Node.(*ast.ReturnStmt)
			if !ok || len(rs.Results) != 1 {
				continue
			}
			n++
			st := ex.State
			call, isCall := unparen(rs.Results[0]).(*ast.CallExpr)
			shape := false
			isFitIn := false
			if isCall && len(call.Args) >= 1 && p.recvField(fn, Recv(call), "objects.Queue.maxResource") {
				isFitIn = p.IsCall(call, "resources.Resource.FitIn")
				if isFitIn || p.IsCall(call, "resources.Resource.FitInMaxUndef") {
					if inner, ok := unparen(call.Args[0]).(*ast.CallExpr); ok && p.IsCall(inner, "resources.AddOnlyExisting") && len(inner.Args) >= 2 {
						shape = p.isParam(fn, inner.Args[0], 0) && p.recvField(fn, inner.Args[1], "objects.Queue.allocatedResource")
					}
				}
			}
			c.Check("C02.b", "allocatedResFits compares max against AddOnlyExisting(alloc, allocated)", rs, shape, "allocatedResFits returns %s, expected maxResource.FitIn*(resources.AddOnlyExisting(alloc, sq.allocatedResource))", p.Src(rs.Results[0]))
			root := p.Holds(st, p.CallAtom(true, func(cl *ast.CallExpr, a Atom) bool { return p.isRecvExpr(fn, Recv(cl)) }, "objects.Queue.isRoot"))
			c.Check("C02.b", "strict FitIn exactly on the root", rs, !shape || root == isFitIn, "FitIn (undefined = 0) must be used exactly on the root branch and FitInMaxUndef elsewhere; isRoot fact=%v, FitIn=%v", root, isFitIn)
		}
		c.Floor("C02.b", "returns of allocatedResFits", n, 2)
	}
	if fn := c.MustFunc("C02.b", "objects.Queue.isRoot"); fn != nil {
		ok := false
		for _, ex := range p.returnsOf(fn) {
			if rs, isR := ex.Node.(*ast.ReturnStmt); isR && len(rs.Results) == 1 {
				if b, isB := unparen(rs.Results[0]).(*ast.BinaryExpr); isB && b.Op == tokEQL && p.recvField(fn, b.X, "objects.Queue.parent") && p.isNilExpr(b.Y) {
					ok = true
				}
			}
		}
		c.Check("C02.b", "isRoot is parent == nil", fn.Decl, ok, "isRoot no longer tests sq.parent == nil")
	}

	// ---- C02.c commit only after queue success, revert otherwise
	c.Rule("C02.c", "in tryNode the ask is marked allocated and added to the application only under queue.TryIncAllocatedResource(res(ask)) == nil; every return on the failure branch is preceded by node.RemoveAllocation(key(ask))")
	if fn := c.MustFunc("C02.c", "objects.Application.tryNode"); fn != nil {
		isTryInc := func(st *State) func(call *ast.CallExpr, a Atom) bool {
			askT := T(paramIdent(fn, 1), st)
			return func(call *ast.CallExpr, a Atom) bool {
				return p.recvField(fn, Recv(call), "objects.Application.queue") && len(call.Args) >= 1 && p.IsResOf(a.term(call.Args[0]), askT)
			}
		}
		n := 0
		for _, call := range p.callsIn(fn, "objects.Application.allocateAsk", "objects.Application.addAllocationInternal") {
			n++
			st := p.StateAt(fn, call)
			ok := p.Holds(st, p.ResultNilAtom(true, isTryInc(st), "objects.Queue.TryIncAllocatedResource"))
			c.Check("C02.c", "commit "+shortFn(p.CalleeName(call))+" after queue success", call, ok, "%s executes without queue.TryIncAllocatedResource(res(ask)) == nil; facts: %v", p.CalleeName(call), p.FactStrings(st))
			ok2 := p.Holds(st, p.CallAtom(true, func(cl *ast.CallExpr, a Atom) bool {
				return p.isParam(fn, Recv(cl), 0) && len(cl.Args) >= 1 && p.isParam(fn, cl.Args[0], 1)
			}, "objects.Node.TryAddAllocation"))
			c.Check("C02.c", "commit "+shortFn(p.CalleeName(call))+" after node success", call, ok2, "%s executes without node.TryAddAllocation(ask) == true", p.CalleeName(call))
		}
		c.Floor("C02.c", "commit calls in tryNode", n, 2)
		nr := 0
		for _, ex := range p.returnsOf(fn) {
			st := ex.State
			if !p.Holds(st, p.ResultNilAtom(false, isTryInc(st), "objects.Queue.TryIncAllocatedResource")) {
				continue
			}
			nr++
			askT := T(paramIdent(fn, 1), st)
			rev := p.DoneCall(st, func(cl *ast.CallExpr) bool {
				return p.isParam(fn, Recv(cl), 0) && len(cl.Args) >= 1 && p.IsKeyOf(T(cl.Args[0], p.StateAt(fn, cl)), askT)
			}, "objects.Node.RemoveAllocation")
			c.Check("C02.c", "node reverted when the queue refuses", ex.Node, rev != nil, "return on the queue-failure branch without node.RemoveAllocation(key(ask))")
			if rs, ok := ex.Node.(*ast.ReturnStmt); ok && len(rs.Results) > 0 {
				c.Check("C02.c", "no result when the queue refuses", rs, p.isNilExpr(rs.Results[0]), "tryNode returns a result although the queue refused the allocation")
			}
		}
		c.Floor("C02.c", "returns on the queue-failure branch of tryNode", nr, 1)
	}

	// ---- C02.d headroom gate
	c.Rule("C02.d", "every bind attempt is dominated by headRoom.FitInMaxUndef(res(request)) with headRoom = getHeadRoom() of the application's own leaf; getHeadRoom recurses over the parent and combines with ComponentWiseMin(SubOnlyExisting(max, allocated), parentHeadRoom)")
	if fn := c.MustFunc("C02.d", "objects.Application.tryAllocate"); fn != nil {
		calls := p.callsIn(fn, "objects.Application.tryNodes", "objects.Application.tryRequiredNode")
		for _, call := range calls {
			st := p.StateAt(fn, call)
			reqT := T(call.Args[0], st)
			ok := p.Holds(st, p.CallAtom(true, func(cl *ast.CallExpr, a Atom) bool {
				return p.isParam(fn, Recv(cl), 0) && len(cl.Args) >= 1 && p.IsResOf(a.term(cl.Args[0]), reqT)
			}, "resources.Resource.FitInMaxUndef"))
			c.Check("C02.d", "queue headroom before "+shortFn(p.CalleeName(call)), call, ok, "%s reached without headRoom.FitInMaxUndef(res(request)); facts: %v", p.CalleeName(call), p.FactStrings(st))
		}
		c.Floor("C02.d", "bind attempts in tryAllocate", len(calls), 2)
	}
	if fn := c.MustFunc("C02.d", "objects.Application.tryReservedAllocate"); fn != nil {
		calls := p.callsIn(fn, "objects.Application.tryNode", "objects.Application.tryNodesNoReserve")
		for _, call := range calls {
			st := p.StateAt(fn, call)
			askArg := p.argOfType(call, "objects.Allocation")
			if askArg == nil {
				c.Check("C02.d", "headrooms before "+shortFn(p.CalleeName(call))+" (reserved)", call, false, "%s is not called with exactly one allocation", p.CalleeName(call))
				continue
			}
			askT := T(askArg, st)
			// checkHeadRooms(...) == true implies the FitInMaxUndef tests it is made of, with its parameters bound to the arguments
			ok := p.Holds(st, p.CallAtom(true, func(cl *ast.CallExpr, a Atom) bool {
				return Recv(cl) != nil && p.isParamTerm(fn, a.term(Recv(cl)), 0) && len(cl.Args) >= 1 && p.IsResOf(a.term(cl.Args[0]), askT)
			}, "resources.Resource.FitInMaxUndef"))
			c.Check("C02.d", "headrooms before "+shortFn(p.CalleeName(call))+" (reserved)", call, ok, "%s reached without checkHeadRooms(ask, userHeadroom, headRoom); facts: %v", p.CalleeName(call), p.FactStrings(st))
		}
		c.Floor("C02.d", "bind attempts in tryReservedAllocate", len(calls), 2)
	}
	if fn := c.MustFunc("C02.d", "objects.Application.checkHeadRooms"); fn != nil {
		ok := false
		for _, ex := range p.returnsOf(fn) {
			rs, isR := ex.Node.(*ast.ReturnStmt)
			if !isR || len(rs.Results) != 1 {
				continue
			}
			b, isB := unparen(rs.Results[0]).(*ast.BinaryExpr)
			if !isB || b.Op.String() != "&&" {
				continue
			}
			seen := map[int]bool{}
			askIdx := -1
			for i := 0; i < 3; i++ {
				if id := paramIdent(fn, i); id != nil && p.TypeName(p.TypeOf(id)) == "objects.Allocation" {
					askIdx = i
				}
			}
			for _, side := range []ast.Expr{b.X, b.Y} {
				cl, isC := unparen(side).(*ast.CallExpr)
				if isC && askIdx >= 0 && p.IsCall(cl, "resources.Resource.FitInMaxUndef") && len(cl.Args) >= 1 && p.IsResOf(T(cl.Args[0], ex.State), T(paramIdent(fn, askIdx), ex.State)) {
					for i := 0; i < 3; i++ {
						if i != askIdx && p.isParam(fn, Recv(cl), i) {
							seen[i] = true
						}
					}
				}
			}
			ok = len(seen) == 2
		}
		c.Check("C02.d", "checkHeadRooms tests user and queue headroom", fn.Decl, ok, "checkHeadRooms is no longer userHeadroom.FitInMaxUndef(res) && headRoom.FitInMaxUndef(res)")
	}
	// provenance of headRoom
	for _, pr := range [][2]string{{"objects.Queue.TryAllocate", "objects.Application.tryAllocate"}, {"objects.Queue.TryReservedAllocate", "objects.Application.tryReservedAllocate"}} {
		fn := c.MustFunc("C02.d", pr[0])
		if fn == nil {
			continue
		}
		calls := p.callsIn(fn, pr[1])
		for _, call := range calls {
			st := p.StateAt(fn, call)
			d := p.DefOf(T(call.Args[0], st))
			cl, isC := unparen(d.E).(*ast.CallExpr)
			ok := isC && p.IsCall(cl, "objects.Queue.getHeadRoom") && p.isRecvExpr(fn, Recv(cl))
			c.Check("C02.d", "headroom passed by "+shortFn(pr[0])+" is its own getHeadRoom()", call, ok, "headRoom argument is %s, expected sq.getHeadRoom() of the leaf queue itself", p.Src(d.E))
			// the application comes from this queue
			appOK := false
			if rc := Recv(call); rc != nil {
				if src, _, isRange := p.RangeSource(T(rc, st)); isRange {
					if sc, ok := unparen(src.E).(*ast.CallExpr); ok && p.IsCall(sc, "objects.Queue.sortApplications") && p.isRecvExpr(fn, Recv(sc)) {
						appOK = true
					}
				}
				dd := p.DefOf(T(rc, st))
				if gc, ok := unparen(dd.E).(*ast.CallExpr); ok && p.IsCall(gc, "objects.Queue.GetApplication") && p.isRecvExpr(fn, Recv(gc)) {
					appOK = true
				}
			}
			c.Check("C02.d", "application scheduled by "+shortFn(pr[0])+" belongs to this leaf", call, appOK, "the application passed to %s does not come from this queue's own application list", pr[1])
		}
		c.Floor("C02.d", "calls of "+pr[1]+" in "+pr[0], len(calls), 1)
	}
	if fn := c.MustFunc("C02.d", "objects.Queue.getHeadRoom"); fn != nil {
		rec := false
		for _, call := range p.callsIn(fn, "objects.Queue.getHeadRoom") {
			st := p.StateAt(fn, call)
			if p.recvField(fn, Recv(call), "objects.Queue.parent") && p.Holds(st, p.NilAtom(false, func(t Term) bool { return p.recvField(fn, t.E, "objects.Queue.parent") })) {
				rec = true
			}
		}
		c.Check("C02.d", "getHeadRoom recurses over the direct parent", fn.Decl, rec, "getHeadRoom no longer asks sq.parent.getHeadRoom() under parent != nil")
		ret := false
		for _, ex := range p.returnsOf(fn) {
			if rs, ok := ex.Node.(*ast.ReturnStmt); ok && len(rs.Results) == 1 {
				if cl, ok := unparen(rs.Results[0]).(*ast.CallExpr); ok && p.IsCall(cl, "objects.Queue.internalHeadRoom") && p.isRecvExpr(fn, Recv(cl)) && len(cl.Args) >= 1 {
					// argument must be the variable assigned from the parent's headroom
					if id, ok := unparen(cl.Args[0]).(*ast.Ident); ok {
						for _, pc := range p.callsIn(fn, "objects.Queue.getHeadRoom") {
							if as, ok := p.Parent(pc).(*ast.AssignStmt); ok && len(as.Lhs) == 1 {
								if lid, ok := as.Lhs[0].(*ast.Ident); ok && p.ObjOf(lid) == p.ObjOf(id) {
									ret = true
								}
							}
						}
					}
				}
			}
		}
		c.Check("C02.d", "getHeadRoom combines with the parent headroom", fn.Decl, ret, "getHeadRoom does not return internalHeadRoom(parentHeadRoom)")
	}
	if fn := c.MustFunc("C02.d", "objects.Queue.internalHeadRoom"); fn != nil {
		subOK := false
		for _, call := range p.callsIn(fn, "resources.SubOnlyExisting") {
			if len(call.Args) >= 2 && p.resolvesToRecvField(fn, call.Args[0], call, "objects.Queue.maxResource") && p.recvField(fn, call.Args[1], "objects.Queue.allocatedResource") {
				subOK = true
			}
		}
		c.Check("C02.d", "headroom = SubOnlyExisting(max, allocated)", fn.Decl, subOK, "internalHeadRoom no longer computes resources.SubOnlyExisting(sq.maxResource, sq.allocatedResource) (argument roles)")
		minOK, parentOnly := false, false
		for _, ex := range p.returnsOf(fn) {
			rs, ok := ex.Node.(*ast.ReturnStmt)
			if !ok || len(rs.Results) != 1 {
				continue
			}
			r := unparen(rs.Results[0])
			if cl, ok := r.(*ast.CallExpr); ok && p.IsCall(cl, "resources.ComponentWiseMin") && len(cl.Args) >= 2 {
				if p.isParam(fn, cl.Args[1], 0) || p.isParam(fn, cl.Args[0], 0) {
					minOK = true
				}
				continue
			}
			if p.isParam(fn, r, 0) {
				// returning the parent's headroom unchanged is only right when this queue has no max
				parentOnly = p.Holds(ex.State, p.NilAtom(true, func(t Term) bool {
					for _, cc := range p.chain(t) {
						if p.recvField(fn, cc.E, "objects.Queue.maxResource") {
							return true
						}
					}
					return false
				}))
				c.Check("C02.d", "parent headroom returned only without own max", rs, parentOnly, "internalHeadRoom returns the parent's headroom although this queue has a maximum")
				continue
			}
			// own headroom only: parent must be nil
			pn := p.Holds(ex.State, p.NilAtom(true, func(t Term) bool { return p.isParam(fn, t.E, 0) }))
			c.Check("C02.d", "own headroom returned only without parent headroom", rs, pn, "internalHeadRoom returns its own headroom although a parent headroom exists (min with parent dropped)")
		}
		c.Check("C02.d", "min with the parent headroom", fn.Decl, minOK, "internalHeadRoom no longer returns ComponentWiseMin(headRoom, parentHeadRoom)")
	}

	// ---- C02.e placeholder swap: real ask not larger than the placeholder
	c.Rule("C02.e", "a placeholder is replaced only when Sub(res(placeholder), res(real)) has no negative value (shared with C06.a)")
	checkSwapPreconditions(c, "C02.e", true)
}
