package main

import (
	"go/ast"
	"go/token"
	"go/types"
	"sort"
	"strings"
)

// C16 — configuration reload: preserves running state, ordered validate -> dry run -> update,
// every configured queue updated, removal gates, queue FSM table.

func init() { register("C16", rulesC16) }

func rulesC16(c *Ctx) {
	p := c.p
	c.NotDecided("atomicity across several partitions or after a failure in the middle of updateQueues (the code has no rollback)",
		"that the new limits and inherited property VALUES are the configured ones",
		"timing between a reload and a concurrent scheduling cycle")
	const pcT = "scheduler.PartitionContext"

	// ------------------------------------------------------------------ C16.a no ledger write in the reload tree
	c.Rule("C16.a", "nothing reachable (VTA call graph) from PartitionContext.updatePartitionDetails writes a ledger field of an existing object: queue allocated/pending/preempting totals and application maps, any application/allocation/reservation field, node ledgers, partition application/allocation counters and maps; writes to objects under construction are exempt")
	forbidden := map[string]bool{}
	for _, f := range []string{"allocatedResource", "pending", "preemptingResource", "applications", "appPriorities", "reservedApps", "runningApps", "allocatingAcceptedApps"} {
		forbidden["objects.Queue."+f] = true
	}
	for _, f := range []string{"totalResource", "occupiedResource", "allocatedResource", "availableResource", "allocations", "reservations", "schedulable"} {
		forbidden["objects.Node."+f] = true
	}
	for _, f := range []string{"applications", "completedApplications", "rejectedApplications", "allocations", "reservations", "placeholderAllocations", "foreignAllocs", "totalPartitionResource"} {
		forbidden[pcT+"."+f] = true
	}
	for _, tn := range []string{"objects.Application", "objects.Allocation", "objects.reservation"} {
		if st := p.Struct(tn); st != nil {
			for i := 0; i < st.NumFields(); i++ {
				forbidden[tn+"."+st.Field(i).Name()] = true
			}
		}
	}
	root := c.MustFunc("C16.a", pcT+".updatePartitionDetails")
	if root != nil {
		r := p.Reachable("vta", root.Name)
		la := p.Locks()
		p.buildWrites()
		nFuncs, nWrites := 0, 0
		var names []string
		byName := map[string]*Func{}
		for _, fn := range p.funcs {
			if r.Has(fn) {
				names = append(names, fn.Name)
				byName[fn.Name] = fn
			}
		}
		sort.Strings(names)
		nFuncs = len(names)
		inTree := map[*Func]bool{}
		for _, n := range names {
			inTree[byName[n]] = true
		}
		var fields []string
		for f := range forbidden {
			fields = append(fields, f)
		}
		sort.Strings(fields)
		for _, fname := range fields {
			f := p.Field(fname)
			if f == nil {
				c.Check("C16.a", "anchor:"+fname, nil, false, "ledger field %s does not resolve", fname)
				continue
			}
			for _, w := range p.FieldWrites(f) {
				if !inTree[w.Fn] {
					continue
				}
				if w.Kind == "compositelit" || w.Base == nil || la.underConstruction(w.Fn, w.Base) {
					continue
				}
				nWrites++
				c.Check("C16.a", "reload tree writes "+fname+" in "+w.Fn.Name, w.Node, false, "%s (%s) is written by %s, which is reachable from the configuration reload: %s", fname, w.Kind, w.Fn.Name, r.Path(p, w.Fn))
			}
		}
		c.Check("C16.a", "reload tree has no ledger write", root.Decl, true, "")
		c.Floor("C16.a", "functions reachable from updatePartitionDetails", nFuncs, 60)
		c.Floor("C16.a", "ledger fields guarded against the reload", len(fields), 60)
		// sanity: the tree does contain the queue update functions (the reachability is not vacuous)
		for _, must := range []string{"objects.Queue.applyConf", "objects.Queue.setResources", "objects.Queue.MarkQueueForRemoval", "objects.Queue.UpdateQueueProperties", "ugm.Manager.UpdateConfig", "placement.AppPlacementManager.UpdateRules"} {
			fn := p.Funcs[must]
			c.Check("C16.a", "reload tree contains "+must, root.Decl, fn != nil && r.Has(fn), "%s is not reachable from updatePartitionDetails in the call graph: the effect closure would be vacuous", must)
		}
	}

	// ------------------------------------------------------------------ C16.b validate -> dry run -> update
	c.Rule("C16.b", "the configuration is validated before anything is changed; an existing partition is only updated after a dry-run construction of the same partition config succeeded; the stored configuration is replaced only after a successful update; every path answers the RM exactly once; the first failure exit of updatePartitionDetails (rule list cannot be built) happens before any other state was changed, and the rule list is rebuilt on every reload")
	if fn := c.MustFunc("C16.b", "scheduler.ClusterContext.updateSchedulerConfig"); fn != nil {
		calls := p.callsIn(fn, pcT+".updatePartitionDetails")
		for _, call := range calls {
			st := p.StateAt(fn, call)
			ok := p.Holds(st, p.ResultNilAtom(true, func(cl *ast.CallExpr, a Atom) bool {
				return len(cl.Args) >= 4 && len(call.Args) >= 1 && p.Same(a.term(cl.Args[0]), T(call.Args[0], st)) && p.isConstBool(cl.Args[3], true)
			}, "scheduler.newPartitionContext"))
			c.Check("C16.b", "update only after the dry run of the same partition config", call, ok, "updatePartitionDetails(p) reached without newPartitionContext(p, _, _, true) == nil; facts: %v", p.FactStrings(st))
		}
		c.Floor("C16.b", "updatePartitionDetails calls in updateSchedulerConfig", len(calls), 1)
	}
	if fn := c.MustFunc("C16.b", "scheduler.ClusterContext.processRMConfigUpdateEvent"); fn != nil {
		for _, call := range p.callsIn(fn, "scheduler.ClusterContext.updateSchedulerConfig") {
			st := p.StateAt(fn, call)
			ok := p.Holds(st, p.ResultNilAtom(true, nil, "configs.LoadSchedulerConfigFromByteArray"))
			c.Check("C16.b", "scheduler state updated only with a validated configuration", call, ok, "updateSchedulerConfig reached without LoadSchedulerConfigFromByteArray(...) err == nil")
		}
		for _, call := range p.callsIn(fn, "configs.SchedulerConfigContext.Set") {
			st := p.StateAt(fn, call)
			ok := p.Holds(st, p.ResultNilAtom(true, nil, "scheduler.ClusterContext.updateSchedulerConfig"))
			c.Check("C16.b", "stored configuration replaced only after a successful update", call, ok, "ConfigContext.Set reached without updateSchedulerConfig(...) == nil")
		}
		// nothing is changed before the configuration has been validated
		for _, call := range p.callsIn(fn, "configs.LoadSchedulerConfigFromByteArray") {
			st := p.StateAt(fn, call)
			var mut []string
			for _, d := range st.Done {
				dc, ok := d.(*ast.CallExpr)
				if !ok || p.IsDeferred(dc) {
					continue
				}
				name := p.CalleeName(dc)
				switch {
				case name == "", strings.HasPrefix(name, "go.uber.org/zap"), strings.HasPrefix(name, "log."), strings.HasPrefix(name, "fmt."):
				case strings.HasSuffix(name, ".Lock"), strings.HasSuffix(name, ".Unlock"), strings.HasSuffix(name, ".RLock"):
				case strings.HasPrefix(name, "configs.Set") || strings.HasPrefix(name, "scheduler.ClusterContext.update") || strings.Contains(name, ".Set"):
					mut = append(mut, name)
				}
			}
			c.Check("C16.b", "nothing is changed before the configuration is validated", call, len(mut) == 0, "%v executed before LoadSchedulerConfigFromByteArray validated the new configuration: a reload that is then rejected has already changed global state", mut)
		}
		// exactly one answer per path
		for _, ex := range p.returnsOf(fn) {
			n := 0
			for _, d := range ex.State.Done {
				if _, isSend := d.(*ast.SendStmt); isSend {
					n++
				}
			}
			// SendStmt is not recorded in Done: count syntactically the sends that dominate this exit
			n = p.sendsBefore(fn, ex.Node)
			c.Check("C16.b", "exactly one answer on the exit at "+p.Pos(ex.Node), ex.Node, n == 1, "%d results are sent to the RM on this path (expected exactly one)", n)
		}
	}
	if root != nil {
		// first failure exit: nothing applied yet
		first := true
		for _, ex := range p.returnsOf(root) {
			rs, ok := ex.Node.(*ast.ReturnStmt)
			if !ok || len(rs.Results) != 1 || p.isNilExpr(rs.Results[0]) {
				continue
			}
			if !p.Holds(ex.State, p.ResultNilAtom(false, nil, "placement.AppPlacementManager.UpdateRules")) {
				continue
			}
			first = false
			var applied []string
			for _, d := range ex.State.Done {
				dc, ok := d.(*ast.CallExpr)
				if !ok {
					continue
				}
				name := p.CalleeName(dc)
				if strings.HasPrefix(name, pcT+".update") || strings.HasPrefix(name, "objects.Queue.") || strings.HasPrefix(name, "ugm.") {
					applied = append(applied, name)
				}
			}
			c.Check("C16.b", "rejected rule list leaves everything else untouched", rs, len(applied) == 0, "%v already ran when the reload is rejected because the placement rules cannot be built: a rejected reload has changed the partition", applied)
		}
		c.Check("C16.b", "updatePartitionDetails rejects a rule list that cannot be built", root.Decl, !first, "no failure exit guarded by UpdateRules(...) != nil found")
		// the rules are rebuilt on every reload (an empty list installs the implicit rule)
		for _, call := range p.callsIn(root, "locking.RWMutex.Lock", "github.com/sasha-s/go-deadlock.RWMutex.Lock") {
			st := p.StateAt(root, call)
			upd := p.DoneCall(st, func(cl *ast.CallExpr) bool {
				return len(cl.Args) >= 1 && strings.HasSuffix(p.Src(cl.Args[0]), ".PlacementRules")
			}, "placement.AppPlacementManager.UpdateRules")
			c.Check("C16.b", "placement rules rebuilt on every reload", call, upd != nil, "the partition lock is taken without UpdateRules(conf.PlacementRules) having run on every path: a reload to an empty rule list keeps the old rules")
		}
	}

	// ------------------------------------------------------------------ C16.c every configured queue is updated
	c.Rule("C16.c", "updateQueues: an existing queue gets ApplyConf, then (on success) MergeParentProperties, then UpdateQueueProperties with the old max returned by ApplyConf; a new queue is created with NewConfiguredQueue; children are processed recursively with error propagation; the queue is marked visited under its own name and every unvisited child is marked for removal")
	if fn := c.MustFunc("C16.c", pcT+".updateQueues"); fn != nil {
		merges := p.callsIn(fn, "objects.Queue.MergeParentProperties")
		for _, call := range merges {
			st := p.StateAt(fn, call)
			applied := p.Holds(st, p.ResultNilAtom(true, p.recvIs(T(Recv(call), st)), "objects.Queue.ApplyConf"))
			early := p.DoneCall(st, func(cl *ast.CallExpr) bool { return p.Src(Recv(cl)) == p.Src(Recv(call)) }, "objects.Queue.UpdateQueueProperties") == nil
			c.Check("C16.c", "inherited properties merged after ApplyConf succeeded", call, applied, "MergeParentProperties without ApplyConf(...) err == nil on the same queue")
			c.Check("C16.c", "inherited properties merged before the policies are derived", call, early, "MergeParentProperties runs after UpdateQueueProperties: sort policy, priority and preemption settings are derived from the queue's own properties only and inherited values are lost on every reload")
		}
		c.Floor("C16.c", "MergeParentProperties calls in updateQueues", len(merges), 1)
		for _, call := range p.callsIn(fn, "objects.Queue.UpdateQueueProperties") {
			st := p.StateAt(fn, call)
			// the argument is the variable assigned from ApplyConf
			okArg := false
			if id, isID := unparen(call.Args[0]).(*ast.Ident); isID {
				for _, ac := range p.callsIn(fn, "objects.Queue.ApplyConf") {
					if as, ok := p.Parent(ac).(*ast.AssignStmt); ok && len(as.Lhs) == 2 {
						if l, ok := as.Lhs[0].(*ast.Ident); ok && p.ObjOf(l) == p.ObjOf(id) {
							okArg = true
						}
					}
				}
			}
			noErr := p.Holds(st, p.CmpAtom(func(op token.Token, x, y Term) bool {
				return op == token.EQL && p.isNilExpr(y.E) && p.TypeOf(x.E) != nil && p.TypeOf(x.E).String() == "error"
			}))
			c.Check("C16.c", "policies derived for every configured queue with the old max", call, okArg && noErr, "UpdateQueueProperties is not called with the old max from ApplyConf on the error-free path")
		}
		rec := p.callsIn(fn, pcT+".updateQueues")
		for _, call := range rec {
			okRec := len(call.Args) >= 2 && strings.HasSuffix(p.Src(call.Args[0]), ".Queues")
			var loop *ast.RangeStmt
			for par := p.Parent(call); par != nil; par = p.Parent(par) {
				if rs, ok := par.(*ast.RangeStmt); ok {
					loop = rs
					break
				}
			}
			prop := false
			if loop != nil {
				if end := p.EndState(fn, loop.Body); end != nil {
					prop = p.Holds(end, p.ResultNilAtom(true, nil, pcT+".updateQueues"))
				}
			}
			c.Check("C16.c", "children updated recursively with error propagation", call, okRec && prop, "the recursive updateQueues(queueConfig.Queues, queue) call is missing or its error is not returned")
		}
		c.Floor("C16.c", "recursive calls in updateQueues", len(rec), 1)
		// visited key and removal loop
		keyOK, rmOK := false, false
		ast.Inspect(fn.Decl.Body, func(n ast.Node) bool {
			switch x := n.(type) {
			case *ast.AssignStmt:
				if len(x.Lhs) == 1 {
					if ix, ok := unparen(x.Lhs[0]).(*ast.IndexExpr); ok && isVisitedMap(p, ix.X) {
						_, isName := p.fieldSel(ix.Index, "objects.Queue.Name")
						keyOK = isName
					}
				}
			case *ast.RangeStmt:
				if call, ok := unparen(x.X).(*ast.CallExpr); ok && p.IsCall(call, "objects.Queue.GetCopyOfChildren") && p.isParam(fn, Recv(call), 1) {
					for _, mc := range p.callsIn(fn, "objects.Queue.MarkQueueForRemoval") {
						if mc.Pos() > x.Pos() && mc.End() < x.End() {
							st := p.StateAt(fn, mc)
							rmOK = p.Holds(st, func(a Atom) bool {
								ix, ok := unparen(a.E).(*ast.IndexExpr)
								return ok && !a.Val && isVisitedMap(p, ix.X) && p.Src(ix.Index) == p.Src(x.Key)
							})
						}
					}
				}
			}
			return true
		})
		c.Check("C16.c", "visited set keyed by the queue's own name", fn.Decl, keyOK, "visited[...] is not keyed by queue.Name (the normalised name the children map uses): a configured queue whose configured spelling differs is marked for removal on every reload")
		c.Check("C16.c", "unvisited children are marked for removal", fn.Decl, rmOK, "the loop over parent.GetCopyOfChildren() does not call MarkQueueForRemoval under !visited[childName]")
	}
	c.mustContainCalls("C16.c", "objects.Queue.applyConf", "objects.Queue.setResourcesFromConf", "security.NewACL")

	// ------------------------------------------------------------------ C16.d removal gates
	c.Rule("C16.d", "a queue is removed only when it is not a running managed queue and has no children and no applications; the cleaner only removes draining or dynamic queues that are empty; MarkQueueForRemoval ignores dynamic queues; a draining parent takes no new child")
	if fn := c.MustFunc("C16.d", "objects.Queue.RemoveQueue"); fn != nil {
		for _, call := range p.callsIn(fn, "objects.Queue.removeChildQueue") {
			st := p.StateAt(fn, call)
			src := strings.Join(p.FactStrings(st), " ; ")
			ok := strings.Contains(src, "!(sq.isManaged && sq.IsRunning())") && strings.Contains(src, "len(sq.children) > 0") && strings.Contains(src, "len(sq.applications) > 0")
			lenZero := func(field string) bool {
				return p.Holds(st, p.CmpAtom(func(op token.Token, x, y Term) bool {
					v, isC := p.ConstInt(y.E)
					lc, isCall := unparen(x.E).(*ast.CallExpr)
					if !isC || v != 0 || !isCall || len(lc.Args) < 1 || (op != token.LEQ && op != token.EQL) {
						return false
					}
					return p.recvField(fn, lc.Args[0], field)
				}))
			}
			noKids := lenZero("objects.Queue.children") && lenZero("objects.Queue.applications")
			notRunning := p.Holds(st, func(a Atom) bool {
				be, isB := unparen(a.E).(*ast.BinaryExpr)
				return isB && !a.Val && be.Op == token.LAND && strings.Contains(p.Src(be), "isManaged") && strings.Contains(p.Src(be), "IsRunning()")
			})
			_ = ok
			c.Check("C16.d", "queue unlinked only when empty", call, noKids, "removeChildQueue reached without the fact !(len(children) > 0 || len(applications) > 0); facts: %v", p.FactStrings(st))
			c.Check("C16.d", "running managed queue is never unlinked", call, notRunning, "removeChildQueue reached without the fact !(isManaged && IsRunning()); facts: %v", p.FactStrings(st))
		}
	}
	if fn := c.MustFunc("C16.d", "scheduler.partitionManager.cleanQueues"); fn != nil {
		calls := p.callsIn(fn, "objects.Queue.RemoveQueue")
		for _, call := range calls {
			st := p.StateAt(fn, call)
			rq := T(Recv(call), st)
			empty := p.Holds(st, p.CallAtom(true, p.recvIs(rq), "objects.Queue.IsEmpty"))
			gate := p.Holds(st, func(a Atom) bool {
				be, isB := unparen(a.E).(*ast.BinaryExpr)
				return isB && a.Val && be.Op == token.LOR && strings.Contains(p.Src(be), "IsDraining()") && strings.Contains(p.Src(be), "!") && strings.Contains(p.Src(be), "IsManaged()")
			})
			c.Check("C16.d", "cleaner removes only empty queues", call, empty, "RemoveQueue reached without queue.IsEmpty()")
			c.Check("C16.d", "cleaner removes only draining or dynamic queues", call, gate, "RemoveQueue reached without queue.IsDraining() || !queue.IsManaged()")
		}
		c.Floor("C16.d", "RemoveQueue calls in cleanQueues", len(calls), 1)
	}
	c.whoMayCall("C16.d", "objects.Queue.RemoveQueue", 1, map[string]string{"scheduler.partitionManager.cleanQueues": "periodic cleaner", "scheduler.partitionManager.remove": "partition removal"})
	if fn := c.MustFunc("C16.d", "objects.Queue.MarkQueueForRemoval"); fn != nil {
		for _, call := range p.callsIn(fn, "objects.Queue.doRemoveQueue") {
			st := p.StateAt(fn, call)
			c.Check("C16.d", "only managed queues are marked for removal", call, p.Holds(st, p.CallAtom(true, nil, "objects.Queue.IsManaged")), "doRemoveQueue reached without the fact sq.IsManaged()")
		}
	}
	if fn := c.MustFunc("C16.d", "objects.Queue.addChildQueue"); fn != nil {
		f := p.Field("objects.Queue.children")
		for _, w := range p.FieldWrites(f) {
			if !p.inFn(w.Fn, fn) {
				continue
			}
			st := p.StateAt(fn, w.Node)
			c.Check("C16.d", "draining or leaf parent takes no new child", w.Node, p.Holds(st, p.CallAtom(false, nil, "objects.Queue.IsDraining")) && p.Holds(st, p.BoolAtom(false, func(t Term) bool { return p.recvField(fn, t.E, "objects.Queue.isLeaf") })), "a child is linked without the facts !sq.isLeaf and !sq.IsDraining()")
		}
	}
	// a queue that reappears in the configuration is reactivated
	if fn := c.MustFunc("C16.d", "objects.Queue.applyConf"); fn != nil {
		re := false
		for _, call := range p.callsIn(fn, "objects.Queue.handleQueueEvent") {
			st := p.StateAt(fn, call)
			if len(call.Args) >= 1 && strings.HasSuffix(p.Src(call.Args[0]), "Start") && p.Holds(st, p.CallAtom(false, nil, "objects.Queue.IsRunning")) {
				re = true
			}
		}
		c.Check("C16.d", "a draining queue that is configured again is reactivated", fn.Decl, re, "applyConf no longer raises Start under !sq.IsRunning()")
	}

	// ------------------------------------------------------------------ C16.f queue / partition FSM table
	c.Rule("C16.f", "the queue and partition life cycle table equals {Remove: Active|Draining -> Draining; Start: Active|Stopped|Draining -> Active; Stop: Active|Stopped -> Stopped}")
	if fn := c.MustFunc("C16.f", "objects.NewObjectState"); fn != nil {
		got, problems := p.fsmEvents(fn)
		for _, pr := range problems {
			c.Check("C16.f", "table extraction", fn.Decl, false, "%s", pr)
		}
		want := []fsmTransition{
			{"Remove", "Active", "Draining"}, {"Remove", "Draining", "Draining"},
			{"Start", "Active", "Active"}, {"Start", "Stopped", "Active"}, {"Start", "Draining", "Active"},
			{"Stop", "Active", "Stopped"}, {"Stop", "Stopped", "Stopped"},
		}
		c.compareTransitions("C16.f", fn.Decl, got, want)
		c.Floor("C16.f", "transitions in NewObjectState()", len(got), 7)
	}
}

// sendsBefore counts the channel send statements that lie on the straight-line path to the exit
// node: sends in the same block before it, or in enclosing blocks before the statement containing
// it (sends nested in other branches are not on this path).
// isSend: a send statement, or a call of a private helper whose body sends exactly once, unconditionally.
func (p *Prog) isSend(s ast.Stmt) bool {
	if _, ok := s.(*ast.SendStmt); ok {
		return true
	}
	es, ok := s.(*ast.ExprStmt)
	if !ok {
		return false
	}
	call, ok := es.X.(*ast.CallExpr)
	if !ok {
		return false
	}
	callee := p.Callee(call)
	if callee == nil || p.FuncOf[callee] == nil || p.FuncOf[callee].Decl.Body == nil {
		return false
	}
	body := p.FuncOf[callee].Decl.Body
	// every path through the helper sends exactly once
	unknown := false
	var walk func(list []ast.Stmt, counts map[int]bool) (fall map[int]bool, done map[int]bool)
	walk = func(list []ast.Stmt, counts map[int]bool) (map[int]bool, map[int]bool) {
		done := map[int]bool{}
		cur := counts
		for _, st := range list {
			next := map[int]bool{}
			switch x := st.(type) {
			case *ast.SendStmt:
				for c := range cur {
					next[c+1] = true
				}
			case *ast.ReturnStmt:
				for c := range cur {
					done[c] = true
				}
				return map[int]bool{}, done
			case *ast.IfStmt:
				f1, d1 := walk(x.Body.List, cur)
				for c := range d1 {
					done[c] = true
				}
				for c := range f1 {
					next[c] = true
				}
				switch e := x.Else.(type) {
				case nil:
					for c := range cur {
						next[c] = true
					}
				case *ast.BlockStmt:
					f2, d2 := walk(e.List, cur)
					for c := range d2 {
						done[c] = true
					}
					for c := range f2 {
						next[c] = true
					}
				case *ast.IfStmt:
					f2, d2 := walk([]ast.Stmt{e}, cur)
					for c := range d2 {
						done[c] = true
					}
					for c := range f2 {
						next[c] = true
					}
				}
			case *ast.ForStmt, *ast.RangeStmt, *ast.SwitchStmt, *ast.TypeSwitchStmt, *ast.SelectStmt, *ast.GoStmt, *ast.DeferStmt:
				ast.Inspect(st, func(n ast.Node) bool {
					if _, isS := n.(*ast.SendStmt); isS {
						unknown = true
					}
					return true
				})
				next = cur
			default:
				next = cur
			}
			cur = next
		}
		return cur, done
	}
	fall, done := walk(body.List, map[int]bool{0: true})
	if unknown {
		return false
	}
	all := map[int]bool{}
	for c := range fall {
		all[c] = true
	}
	for c := range done {
		all[c] = true
	}
	return len(all) == 1 && all[1]
}

func (p *Prog) sendsBefore(fn *Func, exit ast.Node) int {
	n := 0
	cur := exit
	if cur == ast.Node(fn.Decl.Body) {
		for _, s := range fn.Decl.Body.List {
			if p.isSend(s) {
				n++
			}
		}
		return n
	}
	for {
		par := p.Parent(cur)
		if par == nil {
			return n
		}
		if blk, ok := par.(*ast.BlockStmt); ok {
			for _, s := range blk.List {
				if s.Pos() >= cur.Pos() {
					break
				}
				if p.isSend(s) {
					n++
				}
			}
		}
		if _, isFn := par.(*ast.FuncDecl); isFn {
			return n
		}
		cur = par
	}
}

// isVisitedMap: a local map[string]bool (the set of configured child names seen by updateQueues).
func isVisitedMap(p *Prog, e ast.Expr) bool {
	if _, isLocal := unparen(e).(*ast.Ident); !isLocal {
		return false
	}
	t := p.TypeOf(e)
	if t == nil {
		return false
	}
	mt, ok := t.Underlying().(*types.Map)
	return ok && mt.Key().String() == "string" && mt.Elem().String() == "bool"
}
