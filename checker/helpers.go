package main

// E11: extracted-helper transparency.
//
// An unexported function with exactly one static call site, never used as a value and not reachable through an
// interface, is an *extracted block* of its caller: the facts known at the call site hold on entry, and the calls it
// executes on every path have executed in the caller once the call returns.  The walker uses both, so that moving a
// block of a function into a private helper (the most common refactoring) does not change what the rules see.

import (
	"go/ast"
	"go/token"
	"go/types"
	"strings"
)

type helperSite struct {
	Caller    *Func
	Call      *ast.CallExpr
	Recursive bool // the helper also calls itself: it is part of its caller, but the facts of the outer call site do not hold for the inner calls
}

func (p *Prog) buildHelperIndex() {
	p.helperOf = map[*Func]*helperSite{}
	p.sharedHelpers = map[*Func][]*Func{}
	// functions used as values (method values, callbacks): dynamic callers unknown
	valueUse := map[*types.Func]bool{}
	for _, f := range p.fileOf {
		ast.Inspect(f, func(n ast.Node) bool {
			id, ok := n.(*ast.Ident)
			if !ok {
				return true
			}
			obj, ok := p.Info.Uses[id].(*types.Func)
			if !ok {
				return true
			}
			var e ast.Node = id
			par := p.Parent(e)
			if sel, isSel := par.(*ast.SelectorExpr); isSel && sel.Sel == id {
				e = sel
				par = p.Parent(sel)
			}
			for {
				pe, isParen := par.(*ast.ParenExpr)
				if !isParen {
					break
				}
				e = pe
				par = p.Parent(pe)
			}
			if call, isCall := par.(*ast.CallExpr); isCall && call.Fun == e {
				return true
			}
			valueUse[obj.Origin()] = true
			return true
		})
	}
	// unexported method names that occur in an interface of the module: possible dynamic dispatch
	ifaceMethod := map[string]bool{}
	for _, pk := range p.Pkgs {
		scope := pk.Types.Scope()
		for _, nm := range scope.Names() {
			tn, ok := scope.Lookup(nm).(*types.TypeName)
			if !ok {
				continue
			}
			if it, isI := tn.Type().Underlying().(*types.Interface); isI {
				for i := 0; i < it.NumMethods(); i++ {
					ifaceMethod[it.Method(i).Name()] = true
				}
			}
		}
	}
	for _, fn := range p.funcs {
		if fn.Decl.Body == nil || fn.Obj.Exported() || p.standsForExported[fn] || fn.Obj.Name() == "init" || fn.Obj.Name() == "main" {
			continue
		}
		if valueUse[fn.Obj.Origin()] {
			continue
		}
		if fn.Decl.Recv != nil && ifaceMethod[fn.Obj.Name()] {
			continue
		}
		sites := p.CallSites(fn.Obj)
		if len(sites) >= 2 && p.baselineKnown != nil && !p.baselineKnown[fn.Name] {
			// a private function the rules were not written against, with several call sites: a block that was
			// duplicated in its callers and has been moved into one shared helper
			okAll := true
			for _, cs := range sites {
				if cs.Caller == fn {
					okAll = false
				}
			}
			if okAll {
				seenCaller := map[*Func]bool{}
				for _, cs := range sites {
					if !seenCaller[cs.Caller] {
						seenCaller[cs.Caller] = true
						p.sharedHelpers[cs.Caller] = append(p.sharedHelpers[cs.Caller], fn)
					}
				}
			}
		}
		var outer []CallSite
		for _, s := range sites {
			if s.Caller != fn {
				outer = append(outer, s)
			}
		}
		if len(outer) != 1 {
			continue
		}
		cs := outer[0]
		recursive := len(outer) != len(sites)
		if cs.InLit != nil {
			continue
		}
		bad := false
		for cur := p.Parent(cs.Call); cur != nil; cur = p.Parent(cur) {
			switch cur.(type) {
			case *ast.GoStmt, *ast.DeferStmt:
				bad = true
			}
			if cur == ast.Node(cs.Caller.Decl) {
				break
			}
		}
		if bad {
			continue
		}
		p.helperOf[fn] = &helperSite{cs.Caller, cs.Call, recursive}
	}
	// break cycles (mutual sole callers cannot happen without recursion, but be safe)
	for fn := range p.helperOf {
		seen := map[*Func]bool{fn: true}
		for cur := p.helperOf[fn]; cur != nil; cur = p.helperOf[cur.Caller] {
			if seen[cur.Caller] {
				delete(p.helperOf, fn)
				break
			}
			seen[cur.Caller] = true
		}
	}
}

// HelperSite returns the sole call site of an extracted-block helper, nil for every other function.
func (p *Prog) HelperSite(fn *Func) *helperSite {
	if p.helperOf == nil {
		p.buildHelperIndex()
	}
	return p.helperOf[fn]
}

// HelperRoot follows sole call sites upwards: the function whose body fn is (transitively) an extracted block of.
func (p *Prog) HelperRoot(fn *Func) *Func {
	for {
		hs := p.HelperSite(fn)
		if hs == nil {
			return fn
		}
		fn = hs.Caller
	}
}

// HelpersOf lists the extracted-block helpers whose root is fn (transitively), in source order.
func (p *Prog) HelpersOf(fn *Func) []*Func {
	var out []*Func
	for _, h := range p.funcs {
		if h != fn && p.HelperSite(h) != nil && p.helperWithin(h, fn) {
			out = append(out, h)
		}
	}
	if experimentalShared {
		seen := map[*Func]bool{fn: true}
		for _, h := range out {
			seen[h] = true
		}
		work := append([]*Func{fn}, out...)
		for len(work) > 0 {
			cur := work[0]
			work = work[1:]
			for _, h := range p.sharedHelpers[cur] {
				if !seen[h] {
					seen[h] = true
					out = append(out, h)
					work = append(work, h)
				}
			}
		}
	}
	return out
}

var experimentalShared = true

// inheritState builds the entry state of helper fn from the state at its sole call site.
func (w *walker) inheritState(hs *helperSite, cst *State) *State {
	p := w.p
	st := cst.clone()
	env := st.Env
	bind := func(id *ast.Ident, arg ast.Expr) {
		if id == nil || arg == nil || id.Name == "_" {
			return
		}
		if o := p.ObjOf(id); o != nil {
			env = env.with(o, &Def{Rhs: arg, Idx: -1, Kind: DefAssign, Env: cst.Env, Param: true})
		}
	}
	fd := w.fn.Decl
	if fd.Recv != nil && len(fd.Recv.List) > 0 && len(fd.Recv.List[0].Names) > 0 {
		bind(fd.Recv.List[0].Names[0], Recv(hs.Call))
	}
	k := 0
	variadic := fd.Type.Params != nil && len(fd.Type.Params.List) > 0
	if variadic {
		_, variadic = fd.Type.Params.List[len(fd.Type.Params.List)-1].Type.(*ast.Ellipsis)
	}
	if fd.Type.Params != nil {
		for fi, f := range fd.Type.Params.List {
			last := fi == len(fd.Type.Params.List)-1
			for _, nm := range f.Names {
				if !(variadic && last) && k < len(hs.Call.Args) && hs.Call.Ellipsis == 0 {
					bind(nm, hs.Call.Args[k])
				}
				k++
			}
			if len(f.Names) == 0 {
				k++
			}
		}
	}
	st.Env = env
	return st
}

// ---------------------------------------------------------------- pure wrappers

// wrapperReturn: fn's body is logging / locking statements followed by one return statement; the call
// fn(args) then stands for the returned expressions with the parameters bound to the arguments.
func (p *Prog) wrapperReturn(fn *Func) []ast.Expr {
	if fn == nil || fn.Decl.Body == nil {
		return nil
	}
	if r, ok := p.wrapCache[fn]; ok {
		return r
	}
	if p.wrapCache == nil {
		p.wrapCache = map[*Func][]ast.Expr{}
	}
	p.wrapCache[fn] = nil
	list := fn.Decl.Body.List
	if len(list) == 0 {
		return nil
	}
	ret, ok := list[len(list)-1].(*ast.ReturnStmt)
	if !ok || len(ret.Results) == 0 {
		return nil
	}
	// a function with a single return statement at its end whose other statements only define locals:
	// its results are the returned expressions read in the environment at that return
	nret := 0
	ast.Inspect(fn.Decl.Body, func(n ast.Node) bool {
		switch n.(type) {
		case *ast.FuncLit:
			return false
		case *ast.ReturnStmt:
			nret++
		}
		return true
	})
	onlyDefs := nret == 1
	for _, s := range list[:len(list)-1] {
		switch x := s.(type) {
		case *ast.AssignStmt:
			// straight-line definitions of locals / named results only
			if x.Tok != token.DEFINE && x.Tok != token.ASSIGN {
				onlyDefs = false
			}
			for _, l := range x.Lhs {
				if _, isID := l.(*ast.Ident); !isID {
					onlyDefs = false
				}
			}
		case *ast.DeclStmt:
		case *ast.ExprStmt, *ast.DeferStmt:
		default:
			onlyDefs = false
		}
	}
	if onlyDefs {
		if r := p.Walk(fn); len(r.undecided) == 0 && len(r.exits) == 1 && r.exits[0].State != nil {
			p.wrapCache[fn] = ret.Results
			if p.wrapEnv == nil {
				p.wrapEnv = map[*Func]*Env{}
			}
			p.wrapEnv[fn] = r.exits[0].State.Env
			return ret.Results
		}
	}
	for _, s := range list[:len(list)-1] {
		var call *ast.CallExpr
		switch x := s.(type) {
		case *ast.ExprStmt:
			call, _ = x.X.(*ast.CallExpr)
		case *ast.DeferStmt:
			call = x.Call
		}
		if call == nil {
			return nil
		}
		if op, _ := p.lockOp(call); op != "" {
			continue
		}
		if p.isLogCall(call) {
			continue
		}
		return nil
	}
	p.wrapCache[fn] = ret.Results
	return ret.Results
}

// isLogCall: log.Log(...).<Level>(...) of the module's logger.
func (p *Prog) isLogCall(call *ast.CallExpr) bool {
	sel, ok := unparen(call.Fun).(*ast.SelectorExpr)
	if !ok {
		return false
	}
	inner, ok := unparen(sel.X).(*ast.CallExpr)
	if !ok {
		return false
	}
	name := p.CalleeName(inner)
	return name == "log.Log" || name == "log.Logger"
}

// Unwrap: when t is a call of a pure wrapper, the term it stands for (parameters bound to the arguments).
func (p *Prog) Unwrap(t Term) (Term, bool) {
	call, ok := unparen(t.E).(*ast.CallExpr)
	if !ok {
		return t, false
	}
	callee := p.Callee(call)
	if callee == nil {
		return t, false
	}
	fn := p.FuncOf[callee]
	rets := p.wrapperReturn(fn)
	if rets == nil {
		return t, false
	}
	k := t.Idx
	if k < 0 {
		k = 0
	}
	if len(rets) == 1 && t.Idx > 0 || k >= len(rets) {
		return t, false
	}
	if call.Ellipsis != 0 {
		return t, false
	}
	env := &Env{m: map[types.Object]*Def{}}
	if we := p.wrapEnv[fn]; we != nil {
		// the wrapper's own locals (defined before its single return); bindings of another call site are dropped
		for k, v := range we.m {
			if v != nil && !v.Param {
				env.m[k] = v
			}
		}
	}
	bind := func(id *ast.Ident, arg ast.Expr) {
		if id == nil || arg == nil || id.Name == "_" {
			return
		}
		if o := p.ObjOf(id); o != nil {
			env.m[o] = &Def{Rhs: arg, Idx: -1, Kind: DefAssign, Env: t.Env, Param: true}
		}
	}
	fd := fn.Decl
	if fd.Recv != nil && len(fd.Recv.List) > 0 && len(fd.Recv.List[0].Names) > 0 {
		bind(fd.Recv.List[0].Names[0], Recv(call))
	}
	i := 0
	if fd.Type.Params != nil {
		for _, f := range fd.Type.Params.List {
			if _, variadic := f.Type.(*ast.Ellipsis); variadic {
				break
			}
			for _, nm := range f.Names {
				if i < len(call.Args) {
					bind(nm, call.Args[i])
				}
				i++
			}
			if len(f.Names) == 0 {
				i++
			}
		}
	}
	return Term{E: rets[k], Env: env, Idx: -1}, true
}

// UnwrapExpr resolves e through local definitions and pure wrappers to the expression it stands for.
func (p *Prog) UnwrapExpr(e ast.Expr, st *State) Term {
	c := p.chain(T(e, st))
	return c[len(c)-1]
}

// CanonSrc renders e with every single-definition local replaced by what it is defined as (recursively), so
// that keys and comparisons do not depend on the names or the presence of intermediate locals.
func (p *Prog) CanonSrc(e ast.Expr, env *Env, depth int) string {
	if e == nil {
		return ""
	}
	sub := func(x ast.Expr) string { return p.CanonSrc(x, env, depth) }
	switch x := e.(type) {
	case *ast.ParenExpr:
		return sub(x.X)
	case *ast.Ident:
		if depth < 6 && env != nil {
			if o := p.ObjOf(x); o != nil {
				if d := env.get(o); d != nil && d.Rhs != nil && d.Kind == DefAssign && d.Idx <= 0 {
					s := p.CanonSrc(d.Rhs, d.Env, depth+1)
					if _, isBin := unparen(d.Rhs).(*ast.BinaryExpr); isBin {
						return "(" + s + ")"
					}
					return s
				}
			}
		}
		return p.aliasName(x)
	case *ast.BinaryExpr:
		return sub(x.X) + " " + x.Op.String() + " " + sub(x.Y)
	case *ast.UnaryExpr:
		return x.Op.String() + sub(x.X)
	case *ast.StarExpr:
		return "*" + sub(x.X)
	case *ast.SelectorExpr:
		return sub(x.X) + "." + x.Sel.Name
	case *ast.IndexExpr:
		return sub(x.X) + "[" + sub(x.Index) + "]"
	case *ast.CallExpr:
		var args []string
		for _, a := range x.Args {
			args = append(args, sub(a))
		}
		return sub(x.Fun) + "(" + strings.Join(args, ", ") + ")"
	}
	return p.Src(e)
}

// ---------------------------------------------------------------- predicate summaries

// predSummary: the facts that hold whenever a boolean function answers true (resp. false): the join of the
// states at every return statement that can produce that answer (the returned expression itself included).
type predSummary struct {
	when map[bool]*State
}

func (p *Prog) predicateSummary(fn *Func) *predSummary { return p.predicateSummaryK(fn, 0, 1) }

// predicateSummaryK: the same for the k-th of n results (a boolean), e.g. the ok of `victims, ok := h()`.
func (p *Prog) predicateSummaryK(fn *Func, k, n int) *predSummary {
	if fn == nil || fn.Decl.Body == nil {
		return nil
	}
	key := predKey{fn, k}
	if s, ok := p.predCacheK[key]; ok {
		return s
	}
	if p.predCacheK == nil {
		p.predCacheK = map[predKey]*predSummary{}
	}
	p.predCacheK[key] = nil // in progress / not a predicate
	res := fn.Decl.Type.Results
	if res == nil {
		return nil
	}
	var rtypes []ast.Expr
	named := false
	for _, f := range res.List {
		cnt := len(f.Names)
		if cnt > 0 {
			named = true
		} else {
			cnt = 1
		}
		for i := 0; i < cnt; i++ {
			rtypes = append(rtypes, f.Type)
		}
	}
	if named || len(rtypes) != n || k >= n {
		return nil // named results: bare returns
	}
	if b, ok := p.TypeOf(rtypes[k]).Underlying().(*types.Basic); !ok || b.Info()&types.IsBoolean == 0 {
		return nil
	}
	r := p.Walk(fn)
	if len(r.undecided) > 0 {
		return nil
	}
	w := &walker{p: p, fn: fn, res: r}
	ends := map[bool][]*State{}
	for _, ex := range r.exits {
		rs, ok := ex.Node.(*ast.ReturnStmt)
		if ex.Lit != nil {
			continue
		}
		if !ok || len(rs.Results) != n || ex.State == nil {
			return nil
		}
		for _, v := range []bool{true, false} {
			if p.isConstBool(rs.Results[k], !v) {
				continue
			}
			st := ex.State
			if !p.isConstBool(rs.Results[k], v) {
				st = w.addFact(st, rs.Results[k], v)
			}
			ends[v] = append(ends[v], st)
		}
	}
	s := &predSummary{when: map[bool]*State{}}
	for _, v := range []bool{true, false} {
		if len(ends[v]) == 0 {
			continue
		}
		st := ends[v][0]
		for _, o := range ends[v][1:] {
			st = join(st, o)
		}
		s.when[v] = st
	}
	p.predCacheK[key] = s
	return s
}

type predKey struct {
	fn *Func
	k  int
}

// impliedByCall: the atoms implied by `call == val` for a call of a boolean module function.
func (p *Prog) impliedByCall(call *ast.CallExpr, val bool, env *Env, depth int) []Atom {
	return p.impliedByCallK(call, 0, 1, val, env, depth)
}

// impliedByCallK: the atoms implied by "the k-th of n results of call is val".
func (p *Prog) impliedByCallK(call *ast.CallExpr, k, n int, val bool, env *Env, depth int) []Atom {
	callee := p.Callee(call)
	if callee == nil {
		return nil
	}
	fn := p.FuncOf[callee]
	if fn == nil || call.Ellipsis != 0 {
		return nil
	}
	s := p.predicateSummaryK(fn, k, n)
	if s == nil || s.when[val] == nil {
		return nil
	}
	// bind the parameters to the arguments (in the environment of the call)
	binds := map[types.Object]*Def{}
	bind := func(id *ast.Ident, arg ast.Expr) {
		if id == nil || arg == nil || id.Name == "_" {
			return
		}
		if o := p.ObjOf(id); o != nil {
			binds[o] = &Def{Rhs: arg, Idx: -1, Kind: DefAssign, Env: env, Param: true}
		}
	}
	fd := fn.Decl
	if fd.Recv != nil && len(fd.Recv.List) > 0 && len(fd.Recv.List[0].Names) > 0 {
		bind(fd.Recv.List[0].Names[0], Recv(call))
	}
	i := 0
	if fd.Type.Params != nil {
		for _, f := range fd.Type.Params.List {
			if _, variadic := f.Type.(*ast.Ellipsis); variadic {
				break
			}
			for _, nm := range f.Names {
				if i < len(call.Args) {
					bind(nm, call.Args[i])
				}
				i++
			}
			if len(f.Names) == 0 {
				i++
			}
		}
	}
	rebound := map[*Env]*Env{}
	reb := func(e *Env) *Env {
		if n, ok := rebound[e]; ok {
			return n
		}
		n := &Env{m: map[types.Object]*Def{}}
		if e != nil {
			for k, v := range e.m {
				if v != nil && v.Param {
					continue // binding of the sole call site: this call's own binding wins
				}
				n.m[k] = v
			}
		}
		for k, v := range binds {
			n.m[k] = v
		}
		rebound[e] = n
		return n
	}
	var out []Atom
	inherited := p.Walk(fn).inheritedFacts
	for _, f := range s.when[val].Facts {
		if f.Alt != nil || inherited[f] {
			continue
		}
		out = append(out, p.atoms(f.E, f.Val, reb(f.Env), f.Frozen, depth+1)...)
	}
	return out
}

// isRecvTerm: t is (through local aliases and parameter bindings of helpers) the receiver of fn.
func (p *Prog) isRecvTerm(fn *Func, t Term) bool {
	r := p.recvObj(fn)
	if r == nil {
		return false
	}
	for _, c := range p.chain(t) {
		if id, ok := unparen(c.E).(*ast.Ident); ok && p.ObjOf(id) == r {
			return true
		}
	}
	return false
}

// inFn: owner is fn or an extracted-block helper of fn.
func (p *Prog) inFn(owner, fn *Func) bool {
	return owner == fn || (owner != nil && p.helperWithin(owner, fn))
}

// helperWithin: h is an extracted block of fn, directly or through a chain of extracted blocks.
func (p *Prog) helperWithin(h, fn *Func) bool {
	for i := 0; i < 20; i++ {
		hs := p.HelperSite(h)
		if hs == nil {
			return false
		}
		if hs.Caller == fn {
			return true
		}
		h = hs.Caller
	}
	return false
}

// InspectDeep visits the body of fn and the bodies of its private helpers (extracted blocks and shared helpers).
func (p *Prog) InspectDeep(fn *Func, visit func(n ast.Node) bool) {
	if fn == nil || fn.Decl.Body == nil {
		return
	}
	ast.Inspect(fn.Decl.Body, visit)
	for _, h := range p.HelpersOf(fn) {
		if h.Decl.Body != nil {
			ast.Inspect(h.Decl.Body, visit)
		}
	}
}

// Multiplicity: how many functions a private helper stands in for (1 for every other function): a block that
// existed in k functions and was moved into one shared helper still counts k times in a floor.
func (p *Prog) Multiplicity(fn *Func) int {
	if p.helperOf == nil {
		p.buildHelperIndex()
	}
	n := 0
	shared := false
	for _, hs := range p.sharedHelpers {
		for _, h := range hs {
			if h == fn {
				shared = true
			}
		}
	}
	if shared {
		n = len(p.CallSites(fn.Obj)) // one instance per place the moved block used to be
	}
	if n < 1 {
		n = 1
	}
	return n
}

// argOfType: the unique argument of the call whose (pointer-stripped) named type is typ ("objects.Allocation");
// nil when none or several match.  Selecting by type keeps a rule independent of the parameter order of
// unexported functions.
func (p *Prog) argOfType(call *ast.CallExpr, typ string) ast.Expr {
	var found ast.Expr
	for _, a := range call.Args {
		if p.TypeName(p.TypeOf(a)) == typ {
			if found != nil {
				return nil
			}
			found = a
		}
	}
	return found
}

// isParamTerm: t is (through local aliases and parameter bindings of helpers) the i-th parameter of fn.
func (p *Prog) isParamTerm(fn *Func, t Term, i int) bool {
	o := paramObj(p, fn, i)
	if o == nil {
		return false
	}
	for _, c := range p.chain(t) {
		if id, ok := unparen(c.E).(*ast.Ident); ok && p.ObjOf(id) == o {
			return true
		}
	}
	return false
}

// reaches: some term of t's definition chain is a call of one of the named functions.
func (p *Prog) reaches(t Term, names ...string) bool {
	for _, c := range p.chain(t) {
		if call, ok := unparen(c.E).(*ast.CallExpr); ok && p.IsCall(call, names...) {
			return true
		}
	}
	return false
}

// paramOfType: index of the unique parameter of fn whose type prints as typ ("string", "*objects.Allocation");
// -1 when none or several.
func (p *Prog) paramOfType(fn *Func, typ string) int {
	found, k := -1, 0
	if fn == nil || fn.Decl.Type.Params == nil {
		return -1
	}
	for _, f := range fn.Decl.Type.Params.List {
		n := len(f.Names)
		if n == 0 {
			n = 1
		}
		for i := 0; i < n; i++ {
			t := p.TypeOf(f.Type)
			s := ""
			if t != nil {
				s = types.TypeString(t, func(pk *types.Package) string { return p.PkgShort(pk.Path()) })
			}
			if s == typ {
				if found >= 0 {
					return -1
				}
				found = k
			}
			k++
		}
	}
	return found
}

// returnsNilOr: every return of fn yields nil or (through locals) the result of one of the named functions.
func (p *Prog) returnsNilOr(fn *Func, names ...string) bool {
	if fn == nil || fn.Decl.Body == nil {
		return false
	}
	n := 0
	for _, ex := range p.Walk(fn).exits {
		rs, ok := ex.Node.(*ast.ReturnStmt)
		if ex.Lit != nil {
			continue
		}
		if !ok || len(rs.Results) != 1 {
			return false
		}
		n++
		if p.isNilExpr(rs.Results[0]) {
			continue
		}
		if !p.reaches(T(rs.Results[0], ex.State), names...) {
			return false
		}
	}
	return n > 0
}

// assignedFrom: the local variables of fn (and of its private helpers) that are somewhere assigned the
// (first) result of a call of one of the named functions.  Identifies a local by what it holds, not by its name.
func (p *Prog) assignedFrom(fn *Func, names ...string) map[types.Object]bool {
	out := map[types.Object]bool{}
	p.InspectDeep(fn, func(n ast.Node) bool {
		var lhs, rhs []ast.Expr
		switch x := n.(type) {
		case *ast.AssignStmt:
			lhs, rhs = x.Lhs, x.Rhs
		case *ast.ValueSpec:
			for _, nm := range x.Names {
				lhs = append(lhs, nm)
			}
			rhs = x.Values
		default:
			return true
		}
		for i, r := range rhs {
			call, ok := unparen(r).(*ast.CallExpr)
			if !ok || !p.IsCall(call, names...) || i >= len(lhs) {
				continue
			}
			if id, isID := unparen(lhs[i]).(*ast.Ident); isID {
				if o := p.ObjOf(id); o != nil {
					out[o] = true
				}
			}
		}
		return true
	})
	return out
}

// identIn: e is an identifier denoting one of the objects.
func (p *Prog) identIn(e ast.Expr, set map[types.Object]bool) bool {
	id, ok := unparen(e).(*ast.Ident)
	return ok && set[p.ObjOf(id)]
}

// callsInNode: calls of the named functions below n.
func (p *Prog) callsInNode(n ast.Node, names ...string) []*ast.CallExpr {
	var out []*ast.CallExpr
	ast.Inspect(n, func(m ast.Node) bool {
		if call, ok := m.(*ast.CallExpr); ok && p.IsCall(call, names...) {
			out = append(out, call)
		}
		return true
	})
	return out
}

// ownersAllowed: fn satisfies pred, or fn is a private helper (extracted block, or new shared helper) and every
// function it is part of does (recursively).
func (p *Prog) ownersAllowed(fn *Func, pred func(*Func) bool, depth int) bool {
	if pred(fn) {
		return true
	}
	if depth > 6 {
		return false
	}
	if p.helperOf == nil {
		p.buildHelperIndex()
	}
	var direct []*Func
	if hs := p.HelperSite(fn); hs != nil {
		direct = []*Func{hs.Caller}
	} else {
		for caller, hs := range p.sharedHelpers {
			for _, h := range hs {
				if h == fn {
					direct = append(direct, caller)
				}
			}
		}
	}
	if len(direct) == 0 {
		return false
	}
	for _, d := range direct {
		if !p.ownersAllowed(d, pred, depth+1) {
			return false
		}
	}
	return true
}

// keyOwner: the function under whose name constructs of fn are keyed: fn itself, or, for an extracted block or a
// new shared helper all of whose call sites are in one function, that function (so that an exception or a known
// finding recorded for a construct keeps applying when the construct moves into a private helper).
func (p *Prog) keyOwner(fn *Func) *Func {
	for i := 0; i < 6; i++ {
		if p.baselineKnown == nil || p.baselineKnown[fn.Name] || fn.Obj.Exported() || p.standsForExported[fn] {
			break // a function of the reference tree keeps its own name
		}
		if hs := p.HelperSite(fn); hs != nil {
			fn = hs.Caller
			continue
		}
		if p.baselineKnown != nil && !p.baselineKnown[fn.Name] && !fn.Obj.Exported() {
			var owner *Func
			same := true
			for _, cs := range p.CallSites(fn.Obj) {
				if owner == nil {
					owner = cs.Caller
				} else if owner != cs.Caller {
					same = false
				}
			}
			if owner != nil && same && owner != fn {
				fn = owner
				continue
			}
		}
		break
	}
	return fn
}

// sharedSitesOf: the call sites of a new shared private helper (nil for every other function).
func (p *Prog) sharedSitesOf(fn *Func) []CallSite {
	if p.helperOf == nil {
		p.buildHelperIndex()
	}
	shared := false
	for _, hs := range p.sharedHelpers {
		for _, h := range hs {
			if h == fn {
				shared = true
			}
		}
	}
	if !shared {
		return nil
	}
	return p.CallSites(fn.Obj)
}

// StateAtIn: the state at node n as seen from root.  When n lies in a new shared helper that root calls, the facts
// and executed calls of root's call site are put in front of the helper's own (context of this caller); otherwise
// it is StateAt of the function that owns n.
func (p *Prog) StateAtIn(root *Func, n ast.Node) *State {
	owner := p.EnclosingFunc(n.Pos())
	if owner == nil {
		return nil
	}
	local := p.StateAt(owner, n)
	if owner == root || local == nil || p.HelperSite(owner) != nil {
		return local
	}
	for _, cs := range p.sharedSitesOf(owner) {
		if cs.Caller != root && !p.helperWithin(cs.Caller, root) {
			continue
		}
		site := p.StateAt(cs.Caller, cs.Call)
		if site == nil || site.Dead {
			continue
		}
		out := &State{Env: local.Env, Dead: local.Dead}
		out.Facts = append(append([]*Fact{}, site.Facts...), local.Facts...)
		out.Done = append(append([]ast.Node{}, site.Done...), local.Done...)
		return out
	}
	return local
}
