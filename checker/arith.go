package main

// E5: operator confinement and guard shapes on typed operands.

import (
	"go/ast"
	"go/token"
	"go/types"
)

type arithSite struct {
	Fn   *Func
	Node ast.Node
	Op   string // "+", "-", "*", "/", "%", "neg", "+=", "++", "conv:<from>-><to>"
	X, Y ast.Expr
}

func (p *Prog) isTypeNamed(t types.Type, name string) bool {
	if t == nil {
		return false
	}
	n, ok := t.(*types.Named)
	if !ok {
		return false
	}
	return p.TypeName(n) == name
}

// arithSites lists every arithmetic operator application whose operand or result has the named type,
// and every numeric conversion into or out of it.
func (p *Prog) arithSites(typ string) []arithSite {
	var out []arithSite
	for _, fn := range p.funcs {
		if fn.Decl.Body == nil {
			continue
		}
		ast.Inspect(fn.Decl.Body, func(n ast.Node) bool {
			switch x := n.(type) {
			case *ast.BinaryExpr:
				switch x.Op {
				case token.ADD, token.SUB, token.MUL, token.QUO, token.REM, token.SHL, token.SHR:
					if p.isTypeNamed(p.TypeOf(x), typ) || p.isTypeNamed(p.TypeOf(x.X), typ) || p.isTypeNamed(p.TypeOf(x.Y), typ) {
						out = append(out, arithSite{Fn: fn, Node: x, Op: x.Op.String(), X: x.X, Y: x.Y})
					}
				}
			case *ast.UnaryExpr:
				if x.Op == token.SUB && p.isTypeNamed(p.TypeOf(x), typ) {
					if _, isLit := unparen(x.X).(*ast.BasicLit); !isLit {
						out = append(out, arithSite{Fn: fn, Node: x, Op: "neg", X: x.X})
					}
				}
			case *ast.AssignStmt:
				switch x.Tok {
				case token.ADD_ASSIGN, token.SUB_ASSIGN, token.MUL_ASSIGN, token.QUO_ASSIGN, token.REM_ASSIGN:
					if len(x.Lhs) == 1 && p.isTypeNamed(p.TypeOf(x.Lhs[0]), typ) {
						out = append(out, arithSite{Fn: fn, Node: x, Op: x.Tok.String(), X: x.Lhs[0], Y: x.Rhs[0]})
					}
				}
			case *ast.IncDecStmt:
				if p.isTypeNamed(p.TypeOf(x.X), typ) {
					out = append(out, arithSite{Fn: fn, Node: x, Op: x.Tok.String(), X: x.X})
				}
			case *ast.CallExpr:
				if len(x.Args) != 1 {
					return true
				}
				tv, ok := p.Info.Types[x.Fun]
				if !ok || !tv.IsType() {
					return true
				}
				to, from := tv.Type, p.TypeOf(x.Args[0])
				if from == nil {
					return true
				}
				if p.isTypeNamed(to, typ) {
					if b, ok := from.Underlying().(*types.Basic); ok && b.Info()&types.IsFloat != 0 {
						if ctv, ok := p.Info.Types[x.Args[0]]; !ok || ctv.Value == nil {
							out = append(out, arithSite{Fn: fn, Node: x, Op: "conv:float->" + typ, X: x.Args[0]})
						}
					}
				}
			}
			return true
		})
	}
	return out
}

// intDivSites lists integer divisions / remainders with a non-constant divisor in the given packages.
func (p *Prog) intDivSites(inPkg func(fn *Func) bool) []arithSite {
	var out []arithSite
	for _, fn := range p.funcs {
		if fn.Decl.Body == nil || !inPkg(fn) {
			continue
		}
		ast.Inspect(fn.Decl.Body, func(n ast.Node) bool {
			var op token.Token
			var xx, yy ast.Expr
			switch x := n.(type) {
			case *ast.BinaryExpr:
				op, xx, yy = x.Op, x.X, x.Y
			case *ast.AssignStmt:
				if len(x.Lhs) == 1 && len(x.Rhs) == 1 {
					switch x.Tok {
					case token.QUO_ASSIGN:
						op, xx, yy = token.QUO, x.Lhs[0], x.Rhs[0]
					case token.REM_ASSIGN:
						op, xx, yy = token.REM, x.Lhs[0], x.Rhs[0]
					}
				}
			}
			if op != token.QUO && op != token.REM {
				return true
			}
			t := p.TypeOf(yy)
			if t == nil {
				return true
			}
			b, ok := t.Underlying().(*types.Basic)
			if !ok || b.Info()&types.IsInteger == 0 {
				return true
			}
			if tv, ok := p.Info.Types[yy]; ok && tv.Value != nil {
				return true // constant divisor (the compiler rejects a zero constant)
			}
			out = append(out, arithSite{Fn: fn, Node: n, Op: op.String(), X: xx, Y: yy})
			return true
		})
	}
	return out
}
