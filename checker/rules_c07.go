package main

import (
	"go/ast"
	"go/types"
	"strings"
)

// C07 — only eligible allocations are chosen as preemption victims.
// C08 — preemption respects guarantees and never kills without effect.

func init() {
	register("C07", rulesC07)
	register("C08", rulesC08)
}

// appendSites finds `dst = append(dst, v)` statements in fn whose destination satisfies isDst.
func appendSites(p *Prog, fn *Func, isDst func(e ast.Expr) bool) []*ast.CallExpr {
	var out []*ast.CallExpr
	ast.Inspect(fn.Decl.Body, func(n ast.Node) bool {
		call, ok := n.(*ast.CallExpr)
		if !ok || len(call.Args) < 2 {
			return true
		}
		id, ok := unparen(call.Fun).(*ast.Ident)
		if !ok || id.Name != "append" {
			return true
		}
		if _, isB := p.ObjOf(id).(*types.Builtin); !isB {
			return true
		}
		if isDst(call.Args[0]) {
			out = append(out, call)
		}
		return true
	})
	return out
}

func onAlloc(p *Prog, t Term) func(call *ast.CallExpr, a Atom) bool {
	return func(call *ast.CallExpr, a Atom) bool { return Recv(call) != nil && p.Same(a.term(Recv(call)), t) }
}

// requiredNodeEmpty: fact x.GetRequiredNode() == "" (or the requiredNode field) for allocation t.
func requiredNodeEmpty(p *Prog, t Term) Req {
	return p.CmpAtom(func(op tokenT, x, y Term) bool {
		if op != tokEQL || !p.IsEmptyString(y.E) {
			return false
		}
		for _, cc := range p.chain(x) {
			if call, ok := unparen(cc.E).(*ast.CallExpr); ok && p.IsCall(call, "objects.Allocation.GetRequiredNode") && Recv(call) != nil {
				if p.Same(Term{E: Recv(call), Env: cc.Env, Frozen: cc.Frozen, Idx: -1}, t) {
					return true
				}
			}
			if base, ok := p.fieldSel(cc.E, "objects.Allocation.requiredNode"); ok && p.Same(Term{E: base, Env: cc.Env, Frozen: cc.Frozen, Idx: -1}, t) {
				return true
			}
		}
		return false
	})
}

// matchAnyOf: <something>.MatchAny(res(t)) is true.
func matchAnyOf(p *Prog, t Term) Req {
	return p.CallAtom(true, func(call *ast.CallExpr, a Atom) bool {
		return len(call.Args) >= 1 && p.IsResOf(a.term(call.Args[0]), t)
	}, "resources.Resource.MatchAny")
}

type markShape int

const (
	markNone         markShape = iota
	markAllOrNothing           // loop over the slice; a failed mark leaves the function
	markPerElement             // slice is built only from elements whose mark succeeded
)

// markedSlice decides how the slice expression s (used at node `at` in fn) relates to MarkPreempted.
func markedSlice(p *Prog, fn *Func, s ast.Expr, at ast.Node) (markShape, string) {
	id, ok := unparen(s).(*ast.Ident)
	if !ok {
		return markNone, "announced slice is not a plain variable: " + p.Src(s)
	}
	obj := p.ObjOf(id)
	// a parameter of an extracted block: the list is the argument at its only call site
	if k := paramIndexOfObj(p, fn, obj); k >= 0 {
		if hs := p.HelperSite(fn); hs != nil && k < len(hs.Call.Args) {
			if shape, why := markedSlice(p, hs.Caller, hs.Call.Args[k], hs.Call); shape != markNone {
				return shape, why
			}
		}
	}
	// (1) built by appends under a successful mark
	apps := appendSites(p, fn, func(e ast.Expr) bool {
		eid, ok := unparen(e).(*ast.Ident)
		return ok && p.ObjOf(eid) == obj
	})
	if len(apps) > 0 {
		all := true
		for _, ap := range apps {
			st := p.StateAt(fn, ap)
			v := T(ap.Args[1], st)
			if !p.Holds(st, p.ResultNilAtom(true, onAlloc(p, v), "objects.Allocation.MarkPreempted")) {
				all = false
			}
		}
		if all {
			return markPerElement, ""
		}
	}
	// (2) all-or-nothing loop over the same variable before `at`
	found, why := markLoop(p, fn, obj, id.Name, at)
	if found != markNone {
		return found, why
	}
	// (3) the same loop in a private helper that is handed the slice and whose success is required before `at`
	var allCalls []*ast.CallExpr
	ast.Inspect(fn.Decl.Body, func(n ast.Node) bool {
		if cl, ok := n.(*ast.CallExpr); ok {
			allCalls = append(allCalls, cl)
		}
		return true
	})
	for _, cl := range allCalls {
		if cl.End() > at.Pos() {
			continue
		}
		callee := p.Callee(cl)
		if callee == nil || p.FuncOf[callee] == nil {
			continue
		}
		h := p.FuncOf[callee]
		for k, arg := range cl.Args {
			aid, ok := unparen(arg).(*ast.Ident)
			if !ok || p.ObjOf(aid) != obj {
				continue
			}
			po := paramObj(p, h, k)
			if po == nil || h.Decl.Body == nil {
				continue
			}
			hf, hwhy := markLoop(p, h, po, po.Name(), h.Decl.Body.List[len(h.Decl.Body.List)-1])
			if hf == markNone {
				why = hwhy
				continue
			}
			// the helper's failure answer must stop the caller
			st := p.StateAt(fn, at)
			okAns := p.Holds(st, anyReq(
				p.CallAtom(true, func(c2 *ast.CallExpr, a Atom) bool { return c2 == cl }, h.Name),
				p.ResultNilAtom(true, func(c2 *ast.CallExpr, a Atom) bool { return c2 == cl }, h.Name)))
			if okAns {
				return markAllOrNothing, ""
			}
			why = "the answer of " + h.Name + " is not required before the victims are announced"
		}
	}
	return found, why
}

// markLoop: fn contains, before `at`, a loop over the slice variable obj that marks every element and leaves the
// function (return) as soon as one cannot be marked.
func markLoop(p *Prog, fn *Func, obj types.Object, name string, at ast.Node) (markShape, string) {
	found := markNone
	why := "no loop over " + name + " marks its elements before they are announced"
	ast.Inspect(fn.Decl.Body, func(n ast.Node) bool {
		rs, ok := n.(*ast.RangeStmt)
		if !ok || rs.End() > at.Pos() {
			return true
		}
		rid, ok := unparen(rs.X).(*ast.Ident)
		if !ok || p.ObjOf(rid) != obj || rs.Value == nil {
			return true
		}
		vid, ok := rs.Value.(*ast.Ident)
		if !ok {
			return true
		}
		// the loop must dominate `at`: same or enclosing block sequence (loop is a top-level statement of a block enclosing `at`)
		if !p.encloses(p.Parent(rs), at) {
			return true
		}
		for _, s := range rs.Body.List {
			var call *ast.CallExpr
			var initOf *ast.IfStmt
			switch x := s.(type) {
			case *ast.AssignStmt:
				if len(x.Rhs) == 1 {
					call, _ = unparen(x.Rhs[0]).(*ast.CallExpr)
				}
			case *ast.IfStmt:
				// if err := v.MarkPreempted(); err != nil { ... }
				if as, isA := x.Init.(*ast.AssignStmt); isA && len(as.Rhs) == 1 {
					call, _ = unparen(as.Rhs[0]).(*ast.CallExpr)
					initOf = x
				}
			}
			if call == nil || !p.IsCall(call, "objects.Allocation.MarkPreempted") {
				continue
			}
			if rcv, ok := unparen(Recv(call)).(*ast.Ident); !ok || p.ObjOf(rcv) != p.ObjOf(vid) {
				continue
			}
			// find the error branch
			for _, s2 := range rs.Body.List {
				ifs, ok := s2.(*ast.IfStmt)
				if !ok || (ifs != initOf && ifs.Pos() < s.End()) {
					continue
				}
				if len(ifs.Body.List) == 0 {
					continue
				}
				st := p.StateAt(fn, ifs.Body.List[0])
				if st == nil || !p.Holds(st, p.ResultNilAtom(false, nil, "objects.Allocation.MarkPreempted")) {
					continue
				}
				// every path through the error branch must return
				last := ifs.Body.List[len(ifs.Body.List)-1]
				if _, isRet := last.(*ast.ReturnStmt); isRet {
					found = markAllOrNothing
					why = ""
				} else {
					why = "a failed MarkPreempted in the loop at " + p.Pos(rs) + " does not stop the preemption: the element is still announced"
				}
			}
		}
		return true
	})
	return found, why
}

// encloses: block-like node outer contains node inner.
func (p *Prog) encloses(outer ast.Node, inner ast.Node) bool {
	return outer != nil && outer.Pos() <= inner.Pos() && inner.End() <= outer.End()
}

func rulesC07(c *Ctx) {
	p := c.p
	c.NotDecided("that the priority / offset arithmetic selects the intended sub-tree", "exactly-once announcement across the message history")

	// ---- C07.a the three victim filters
	c.Rule("C07.a", "at each of the three sites that add a candidate to a victim list the candidate carries every eligibility predicate with the right polarity: no required node, not released, not preempted, shares a resource type; queue preemption additionally priority/fence, policy not disabled, other leaf, queue above guarantee; required-node preemption additionally not outranking and taken from that node")
	type site struct {
		fn    string
		isDst func(fn *Func) func(e ast.Expr) bool
		label string
	}
	sites := []site{
		{"objects.Queue.findEligiblePreemptionVictims", func(fn *Func) func(e ast.Expr) bool {
			return func(e ast.Expr) bool {
				_, ok := p.fieldSel(e, "objects.QueuePreemptionSnapshot.PotentialVictims")
				return ok
			}
		}, "queue preemption"},
		{"objects.PreemptionContext.filterAllocations", func(fn *Func) func(e ast.Expr) bool {
			return func(e ast.Expr) bool { return p.recvField(fn, e, "objects.PreemptionContext.allocations") }
		}, "required-node preemption"},
		{"objects.QuotaPreemptionContext.filterAllocations", func(fn *Func) func(e ast.Expr) bool {
			return func(e ast.Expr) bool { return p.recvField(fn, e, "objects.QuotaPreemptionContext.allocations") }
		}, "quota preemption"},
	}
	total := 0
	for _, s := range sites {
		fn := c.MustFunc("C07.a", s.fn)
		if fn == nil {
			continue
		}
		apps := appendSites(p, fn, s.isDst(fn))
		for _, ap := range apps {
			total++
			st := p.StateAt(fn, ap)
			v := T(ap.Args[1], st)
			chk := func(name string, r Req) {
				c.Check("C07.a", s.label+": "+name, ap, p.Holds(st, r), "candidate added to the victim list without the fact [%s]; facts: %v", name, p.FactStrings(st))
			}
			chk("no required node", requiredNodeEmpty(p, v))
			chk("not released", p.CallAtom(false, onAlloc(p, v), "objects.Allocation.IsReleased"))
			chk("not already preempted", p.CallAtom(false, onAlloc(p, v), "objects.Allocation.IsPreempted"))
			chk("shares a resource type", matchAnyOf(p, v))
			// provenance of the candidate
			src, _, isRange := p.RangeSource(v)
			switch s.label {
			case "queue preemption":
				prio := anyReq(
					p.BoolAtom(true, func(t Term) bool { return p.isParam(fn, t.E, 5) }),
					p.CmpAtom(func(op tokenT, x, y Term) bool {
						if op != tokLEQ || !p.isParam(fn, y.E, 4) {
							return false
						}
						found := false
						ast.Inspect(x.E, func(n ast.Node) bool {
							if cl, ok := n.(*ast.CallExpr); ok && p.IsCall(cl, "objects.Allocation.GetPriority") && Recv(cl) != nil && p.Same(Term{E: Recv(cl), Env: x.Env, Frozen: x.Frozen, Idx: -1}, v) {
								found = true
							}
							return true
						})
						return found
					}))
				chk("fenced or priority <= ask priority", prio)
				chk("queue preemption policy not disabled", p.CmpAtom(func(op tokenT, x, y Term) bool {
					cl, ok := unparen(x.E).(*ast.CallExpr)
					return op == tokNEQ && ok && p.IsCall(cl, "objects.Queue.GetPreemptionPolicy") && p.isRecvExpr(fn, Recv(cl)) && p.Src(y.E) == "policies.DisabledPreemptionPolicy"
				}))
				chk("different leaf than the ask", p.CmpAtom(func(op tokenT, x, y Term) bool {
					cl, ok := unparen(x.E).(*ast.CallExpr)
					return op == tokNEQ && ok && p.IsCall(cl, "objects.Queue.GetQueuePath") && p.isRecvExpr(fn, Recv(cl)) && p.isParam(fn, y.E, p.paramOfType(fn, "string"))
				}))
				chk("victim queue not within its guarantee", func(a Atom) bool {
					// !(remaining != nil && StrictlyGreaterThanOrEquals(remaining, Zero)) known
					b, ok := unparen(a.E).(*ast.BinaryExpr)
					if !ok || a.Val || b.Op.String() != "&&" {
						return false
					}
					has := false
					ast.Inspect(b, func(n ast.Node) bool {
						if cl, ok := n.(*ast.CallExpr); ok && p.IsCall(cl, "resources.StrictlyGreaterThanOrEquals") {
							d := p.DefOf(a.term(cl.Args[0]))
							if dc, ok := unparen(d.E).(*ast.CallExpr); ok && p.IsCall(dc, "objects.QueuePreemptionSnapshot.GetRemainingGuaranteedResource") {
								has = true
							}
						}
						return true
					})
					return has
				})
				okSrc := false
				if isRange {
					if sc, ok := unparen(src.E).(*ast.CallExpr); ok && p.IsCall(sc, "objects.Application.GetAllAllocations") {
						asrc, _, isR2 := p.RangeSource(Term{E: Recv(sc), Env: src.Env, Idx: -1})
						if isR2 {
							if ac, ok := unparen(asrc.E).(*ast.CallExpr); ok && p.IsCall(ac, "objects.Queue.GetCopyOfApps") && p.isRecvExpr(fn, Recv(ac)) {
								okSrc = true
							}
						}
					}
				}
				c.Check("C07.a", s.label+": candidates are bound allocations of this queue's applications", ap, okSrc, "candidate does not come from sq.GetCopyOfApps()[..].GetAllAllocations()")
			case "required-node preemption":
				chk("does not outrank the ask", p.CmpAtom(func(op tokenT, x, y Term) bool {
					cx, ok1 := unparen(x.E).(*ast.CallExpr)
					cy, ok2 := unparen(y.E).(*ast.CallExpr)
					return op == tokLEQ && ok1 && ok2 && p.IsCall(cx, "objects.Allocation.GetPriority") && p.IsCall(cy, "objects.Allocation.GetPriority") &&
						p.Same(Term{E: Recv(cx), Env: x.Env, Frozen: x.Frozen, Idx: -1}, v) && p.recvField(fn, Recv(cy), "objects.PreemptionContext.requiredAsk")
				}))
				okSrc := false
				if isRange {
					d := p.DefOf(src)
					if sc, ok := unparen(d.E).(*ast.CallExpr); ok && p.IsCall(sc, "objects.Node.GetYunikornAllocations") && p.recvField(fn, Recv(sc), "objects.PreemptionContext.node") {
						okSrc = true
					}
				}
				c.Check("C07.a", s.label+": candidates are yunikorn allocations of that node", ap, okSrc, "candidate does not come from p.node.GetYunikornAllocations()")
			case "quota preemption":
				okSrc := false
				if isRange {
					d := p.DefOf(src)
					if sc, ok := unparen(d.E).(*ast.CallExpr); ok && p.IsCall(sc, "objects.Application.GetAllAllocations") {
						okSrc = true
					}
				}
				c.Check("C07.a", s.label+": candidates are bound allocations", ap, okSrc, "candidate does not come from app.GetAllAllocations()")
			}
		}
	}
	c.Floor("C07.a", "victim-list insertion sites", total, 3)
	// priority fence descent
	if fn := c.MustFunc("C07.a", "objects.Queue.findEligiblePreemptionVictims"); fn != nil {
		rec := 0
		for _, call := range p.callsIn(fn, "objects.Queue.findEligiblePreemptionVictims") {
			rec++
			st := p.StateAt(fn, call)
			ok := p.Holds(st, func(a Atom) bool {
				if op, x, y, okc := p.cmpParts(a); okc {
					// !(int64(offset) > askPriority)  <=>  offset <= askPriority
					if op == tokLEQ && p.isParam(fn, y, 4) {
						return true
					}
					if op == tokNEQ && p.Src(y) == "policies.FencePriorityPolicy" {
						_ = x
						return true
					}
				}
				// priority already computed on the ask path
				if id, isId := unparen(a.E).(*ast.Ident); isId && a.Val {
					if d := a.Env.get(p.ObjOf(id)); d != nil && d.Kind == DefCommaOk {
						return true
					}
				}
				return false
			})
			c.Check("C07.a", "priority fence: sub-tree above the ask priority is skipped", call, ok, "descent into a child queue without (known priority | policy != fence | offset <= askPriority); facts: %v", p.FactStrings(st))
		}
		c.Floor("C07.a", "recursive descents in findEligiblePreemptionVictims", rec, 1)
	}

	// ---- C07.b preconditions
	c.Rule("C07.b", "CheckPreconditions answers true only if the ask may preempt others, has not triggered preemption, has no required node, and both delays have passed; TryPreemption is only called after it, with attempts left; the delay comes from the leaf queue")
	if fn := c.MustFunc("C07.b", "objects.Preemptor.CheckPreconditions"); fn != nil {
		n := 0
		askT := func(st *State) Term {
			return T(&ast.SelectorExpr{X: fn.Decl.Recv.List[0].Names[0], Sel: ast.NewIdent("ask")}, st)
		}
		_ = askT
		isAsk := func(e ast.Expr) bool { return p.recvField(fn, e, "objects.Preemptor.ask") }
		for _, ex := range p.returnsOf(fn) {
			rs, ok := ex.Node.(*ast.ReturnStmt)
			if !ok || len(rs.Results) != 1 || p.isConstBool(rs.Results[0], false) {
				continue
			}
			n++
			st := ex.State
			chk := func(name string, r Req) {
				c.Check("C07.b", "CheckPreconditions: "+name, rs, p.Holds(st, r), "CheckPreconditions can return true without [%s]; facts: %v", name, p.FactStrings(st))
			}
			onAsk := func(cl *ast.CallExpr, a Atom) bool { return isAsk(Recv(cl)) }
			chk("ask may preempt others", p.CallAtom(true, onAsk, "objects.Allocation.IsAllowPreemptOther"))
			chk("ask has not triggered preemption before", p.CallAtom(false, onAsk, "objects.Allocation.HasTriggeredPreemption"))
			chk("ask has no required node", p.CmpAtom(func(op tokenT, x, y Term) bool {
				cl, ok := unparen(x.E).(*ast.CallExpr)
				return op == tokEQL && ok && p.IsCall(cl, "objects.Allocation.GetRequiredNode") && isAsk(Recv(cl)) && p.IsEmptyString(y.E)
			}))
			before := func(getter string, addend func(e ast.Expr) bool) Req {
				return p.CallAtom(false, func(cl *ast.CallExpr, a Atom) bool {
					if len(cl.Args) < 1 {
						return false
					}
					add, ok := unparen(cl.Args[0]).(*ast.CallExpr)
					if !ok || p.CalleeName(add) != "time.Time.Add" || len(add.Args) < 1 || !addend(add.Args[0]) {
						return false
					}
					g, ok := unparen(Recv(add)).(*ast.CallExpr)
					return ok && p.IsCall(g, getter) && isAsk(Recv(g))
				}, "time.Time.Before")
			}
			chk("queue preemption delay has passed", before("objects.Allocation.GetCreateTime", func(e ast.Expr) bool { return p.recvField(fn, e, "objects.Preemptor.preemptionDelay") }))
			chk("attempt frequency respected", before("objects.Allocation.GetPreemptCheckTime", func(e ast.Expr) bool { return p.Src(e) == "preemptAttemptFrequency" }))
		}
		c.Floor("C07.b", "positive answers of CheckPreconditions", n, 1)
	}
	if fn := c.MustFunc("C07.b", "objects.Application.tryPreemption"); fn != nil {
		calls := p.callsIn(fn, "objects.Preemptor.TryPreemption")
		for _, call := range calls {
			st := p.StateAt(fn, call)
			pre := p.Holds(st, p.CallAtom(true, func(cl *ast.CallExpr, a Atom) bool {
				return Recv(cl) != nil && p.Same(a.term(Recv(cl)), T(Recv(call), st))
			}, "objects.Preemptor.CheckPreconditions"))
			c.Check("C07.b", "preconditions checked before tried", call, pre, "TryPreemption called without CheckPreconditions() == true on the same preemptor")
			att := p.Holds(st, p.CmpAtom(func(op tokenT, x, y Term) bool {
				v, isC := p.ConstInt(y.E)
				return op == tokNEQ && isC && v == 0 && p.Src(x.E) == "*preemptionAttemptsRemaining"
			}))
			c.Check("C07.b", "attempt budget respected", call, att, "TryPreemption called without *preemptionAttemptsRemaining != 0")
		}
		c.Floor("C07.b", "calls of Preemptor.TryPreemption", len(calls), 1)
		for _, cs := range p.CallSitesByName("objects.Preemptor.TryPreemption") {
			c.Check("C07.b", "TryPreemption caller "+cs.Caller.Name, cs.Call, cs.Caller == fn, "Preemptor.TryPreemption called outside Application.tryPreemption")
		}
	}
	if fn := c.MustFunc("C07.b", "objects.Queue.TryAllocate"); fn != nil {
		for _, call := range p.callsIn(fn, "objects.Application.tryAllocate") {
			d := p.DefOf(T(call.Args[2], p.StateAt(fn, call)))
			cl, ok := unparen(d.E).(*ast.CallExpr)
			c.Check("C07.b", "preemption delay comes from the leaf queue", call, ok && p.IsCall(cl, "objects.Queue.GetPreemptionDelay") && p.isRecvExpr(fn, Recv(cl)), "preemptionDelay argument is %s", p.Src(d.E))
		}
	}

	// ---- C07.c fence root
	c.Rule("C07.c", "findPreemptionFenceRoot returns a queue only if it is the root, a preemption fence, or fenced by its maximum, otherwise asks the direct parent; victims are searched below the returned queue only")
	if fn := c.MustFunc("C07.c", "objects.Queue.findPreemptionFenceRoot"); fn != nil {
		n := 0
		// locals assigned a test of the configured maximum against the projected usage
		fenceFlags := map[types.Object]bool{}
		ast.Inspect(fn.Decl.Body, func(nn ast.Node) bool {
			as, ok := nn.(*ast.AssignStmt)
			if !ok || len(as.Lhs) != 1 || len(as.Rhs) != 1 {
				return true
			}
			uses := false
			ast.Inspect(as.Rhs[0], func(m ast.Node) bool {
				if cl, isC := m.(*ast.CallExpr); isC && p.IsCall(cl, "resources.Resource.StrictlyGreaterThanOrEqualsOnlyExisting", "resources.Resource.StrictlyGreaterThanOrEquals", "resources.Resource.FitIn", "resources.Resource.FitInMaxUndef") {
					if Recv(cl) != nil && p.reaches(T(Recv(cl), p.StateAt(fn, cl)), "objects.Queue.GetMaxResource") {
						uses = true
					}
				}
				return true
			})
			if id, isID := as.Lhs[0].(*ast.Ident); isID && uses {
				fenceFlags[p.ObjOf(id)] = true
			}
			return true
		})
		for _, ex := range p.returnsOf(fn) {
			rs, ok := ex.Node.(*ast.ReturnStmt)
			if !ok || len(rs.Results) != 1 {
				continue
			}
			if p.isRecvExpr(fn, rs.Results[0]) {
				n++
				okF := p.Holds(ex.State, anyReq(
					p.NilAtom(true, func(t Term) bool { return p.recvField(fn, t.E, "objects.Queue.parent") }),
					p.CmpAtom(func(op tokenT, x, y Term) bool {
						cl, ok := unparen(x.E).(*ast.CallExpr)
						return op == tokEQL && ok && p.IsCall(cl, "objects.Queue.GetPreemptionPolicy") && p.Src(y.E) == "policies.FencePreemptionPolicy"
					}),
					// the max-fence flag: a local that is assigned the (negated) comparison of the configured
					// maximum with the projected usage
					p.BoolAtom(true, func(t Term) bool { return p.identIn(t.E, fenceFlags) }),
				))
				c.Check("C07.c", "fence root only for root / fence policy / max-fenced", rs, okF, "findPreemptionFenceRoot returns the queue itself without one of the three fence conditions; facts: %v", p.FactStrings(ex.State))
			} else if cl, ok := unparen(rs.Results[0]).(*ast.CallExpr); ok && p.IsCall(cl, "objects.Queue.findPreemptionFenceRoot") {
				n++
				c.Check("C07.c", "otherwise the direct parent is asked", rs, p.recvField(fn, Recv(cl), "objects.Queue.parent"), "recursion does not go to sq.parent")
			}
		}
		c.Floor("C07.c", "returns of findPreemptionFenceRoot", n, 2)
	}
	if fn := c.MustFunc("C07.c", "objects.Queue.FindEligiblePreemptionVictims"); fn != nil {
		calls := p.callsInShallow(fn, "objects.Queue.findEligiblePreemptionVictims") // the start of the search, not its recursion
		for _, call := range calls {
			d := p.DefOf(T(Recv(call), p.StateAt(fn, call)))
			cl, ok := unparen(d.E).(*ast.CallExpr)
			c.Check("C07.c", "victims searched inside the fence only", call, ok && p.IsCall(cl, "objects.Queue.findPreemptionFenceRoot") && p.isRecvExpr(fn, Recv(cl)), "victim search does not start at the fence root (%s)", p.Src(d.E))
		}
		c.Floor("C07.c", "victim searches started", len(calls), 1)
	}

	// ---- C07.d announced iff marked
	c.Rule("C07.d", "every allocation announced with PREEMPTED_BY_SCHEDULER has been marked (MarkPreempted() == nil): the announced slice is built from marked elements only, or marking is all-or-nothing with rollback")
	nAnn := 0
	for _, cs := range p.CallSitesByName("objects.Application.notifyRMAllocationReleased") {
		if len(cs.Call.Args) < 3 || p.Src(cs.Call.Args[1]) != "si.TerminationType_PREEMPTED_BY_SCHEDULER" {
			continue
		}
		nAnn++
		shape, why := markedSlice(p, cs.Caller, cs.Call.Args[0], cs.Call)
		c.Check("C07.d", "announced victims are marked in "+shortFn(cs.Caller.Name), cs.Call, shape != markNone, "PREEMPTED release announced for allocations that may not have been marked: %s", why)
		if shape == markAllOrNothing {
			// rollback completeness
			fn := cs.Caller
			un := p.callsIn(fn, "objects.Allocation.MarkUnPreempted")
			okRb := false
			for _, u := range un {
				owner := p.EnclosingFunc(u.Pos()) // fn itself or the private helper that holds the marking loop
				if owner == nil {
					continue
				}
				st := p.StateAt(owner, u)
				if src, _, isRange := p.RangeSource(T(Recv(u), st)); isRange {
					// ranged list must be the list of successfully marked ones (appended after a successful mark)
					if rid, ok := unparen(src.E).(*ast.Ident); ok {
						aps := appendSites(p, owner, func(e ast.Expr) bool { eid, ok := unparen(e).(*ast.Ident); return ok && p.ObjOf(eid) == p.ObjOf(rid) })
						okRb = len(aps) > 0
						for _, ap := range aps {
							s2 := p.StateAt(owner, ap)
							if !p.Holds(s2, p.ResultNilAtom(true, onAlloc(p, T(ap.Args[1], s2)), "objects.Allocation.MarkPreempted")) {
								okRb = false
							}
						}
					}
				}
			}
			c.Check("C07.d", "rollback un-marks every previously marked victim in "+shortFn(fn.Name), cs.Call, okRb, "all-or-nothing marking without MarkUnPreempted over the list of already marked victims")
		}
		// marked once: the ask is flagged before the announcement
		st := p.StateAt(cs.Caller, cs.Call)
		trig := p.DoneCall(st, nil, "objects.Allocation.MarkTriggeredPreemption")
		if p.methodOf(cs.Caller, "objects.QuotaPreemptionContext") {
			continue
		}
		c.Check("C07.e", "ask flagged as having triggered preemption before the announcement in "+shortFn(cs.Caller.Name), cs.Call, trig != nil, "victims announced without MarkTriggeredPreemption() on the ask: the same ask can preempt again")
	}
	c.Floor("C07.d", "PREEMPTED_BY_SCHEDULER announcements", nAnn, 3)
	c.Rule("C07.e", "the asking allocation is marked as having triggered preemption before victims are announced")
	// MarkPreempted / SetReleased mutual exclusion
	for _, pr := range []struct{ fn, field, guard string }{
		{"objects.Allocation.MarkPreempted", "objects.Allocation.preempted", "objects.Allocation.released"},
		{"objects.Allocation.SetReleased", "objects.Allocation.released", "objects.Allocation.preempted"},
	} {
		fn := c.MustFunc("C07.d", pr.fn)
		if fn == nil {
			continue
		}
		for _, w := range p.FieldWrites(p.Field(pr.field)) {
			if !p.inFn(w.Fn, fn) {
				continue
			}
			st := p.StateAt(fn, w.Node)
			excl := p.Holds(st, p.BoolAtom(false, func(t Term) bool { return p.recvField(fn, t.E, pr.guard) }))
			if pr.fn == "objects.Allocation.SetReleased" {
				// released := false is always allowed; released = true needs !preempted (Alt of the outer if)
				excl = excl || p.Holds(st, anyReq(
					p.BoolAtom(false, func(t Term) bool { return p.recvField(fn, t.E, pr.guard) }),
					p.BoolAtom(false, func(t Term) bool { return p.isParam(fn, t.E, 0) })))
			}
			held := p.lockHeld(fn, w.Node, func(e ast.Expr) bool { return p.isRecvExpr(fn, e) }, true)
			c.Check("C07.d", shortFn(pr.fn)+" refuses the other mark", w.Node, excl && held, "%s sets its flag without checking !%s under the allocation lock; facts: %v", pr.fn, pr.guard, p.FactStrings(st))
		}
	}
}

func rulesC08(c *Ctx) {
	p := c.p
	c.NotDecided("GetRemainingGuaranteedResource / GetPreemptableResource arithmetic", "that victims never exceed the excess over the lowered maximum as values", "that a queue at or under its guarantee never loses a task (value-level)")

	// ---- C08.a commit only after all checks
	c.Rule("C08.a", "in TryPreemption nothing is marked, booked, flagged or announced before the guarantee check, node selection, additional-victim check, non-empty victim list and the final shortfall test have all passed")
	if fn := c.MustFunc("C08.a", "objects.Preemptor.TryPreemption"); fn != nil {
		commits := p.callsIn(fn, "objects.Allocation.MarkPreempted", "objects.Queue.IncPreemptingResource", "objects.Allocation.MarkTriggeredPreemption",
			"objects.Application.notifyRMAllocationReleased", "objects.newReservedAllocationResult", "objects.Allocation.SendPreemptedBySchedulerEvent")
		for _, call := range commits {
			st := p.StateAt(fn, call)
			name := shortFn(p.CalleeName(call))
			chk := func(what string, r Req) {
				c.Check("C08.a", name+" after "+what, call, p.Holds(st, r), "%s executes without [%s]; facts: %v", name, what, p.FactStrings(st))
			}
			chk("queue guarantee check", p.CallAtom(true, nil, "objects.Preemptor.checkPreemptionQueueGuarantees"))
			chk("node and victims found", p.CallAtom(true, nil, "objects.Preemptor.tryNodes"))
			chk("additional victims sufficient", p.CallAtom(true, nil, "objects.Preemptor.calculateAdditionalVictims"))
			chk("victim list not empty", p.CmpAtom(func(op tokenT, x, y Term) bool {
				v, isC := p.ConstInt(y.E)
				return op == tokNEQ && isC && v == 0 && p.Src(x.E) == "len(victims)"
			}))
			chk("no shortfall", p.CallAtom(false, func(cl *ast.CallExpr, a Atom) bool {
				rc, ok := unparen(Recv(cl)).(*ast.CallExpr)
				return ok && p.IsCall(rc, fnGetAllocatedResource) && p.recvField(fn, Recv(rc), "objects.Preemptor.ask")
			}, "resources.Resource.StrictlyGreaterThanOnlyExisting"))
		}
		c.Floor("C08.a", "commit actions in TryPreemption", len(commits), 6)
		// every failure return happens before any mark or after the rollback
		for _, ex := range p.returnsOf(fn) {
			rs, ok := ex.Node.(*ast.ReturnStmt)
			if !ok || len(rs.Results) != 2 || !p.isConstBool(rs.Results[1], false) {
				continue
			}
			marked := p.DoneCall(ex.State, nil, "objects.Allocation.MarkPreempted")
			if marked == nil {
				continue
			}
			rb := false
			// the rollback loop is a range statement before the return in the same block
			if blk, ok := p.Parent(rs).(*ast.BlockStmt); ok {
				for _, s := range blk.List {
					if r, ok := s.(*ast.RangeStmt); ok && r.End() < rs.Pos() {
						ast.Inspect(r.Body, func(n ast.Node) bool {
							if cl, ok := n.(*ast.CallExpr); ok && p.IsCall(cl, "objects.Allocation.MarkUnPreempted") {
								rb = true
							}
							return true
						})
					}
				}
			}
			c.Check("C08.a", "failure after marking rolls the marks back", rs, rb, "TryPreemption fails after MarkPreempted without un-marking the earlier victims")
			inc := p.DoneCall(ex.State, nil, "objects.Queue.IncPreemptingResource")
			c.Check("C08.a", "no failure after booking preempting resources", rs, inc == nil, "TryPreemption can fail after IncPreemptingResource")
		}
	}

	// ---- C08.b victim queue over guarantee
	c.Rule("C08.b", "a victim is kept only if its queue stays preemptable (>= 0) and was over its guarantee for a type the ask needs; otherwise the snapshot is restored")
	for _, fnName := range []string{"objects.Preemptor.calculateVictimsByNode", "objects.Preemptor.calculateAdditionalVictims"} {
		fn := c.MustFunc("C08.b", fnName)
		if fn == nil {
			continue
		}
		aps := appendSites(p, fn, func(e ast.Expr) bool {
			id, ok := unparen(e).(*ast.Ident)
			if !ok {
				return false
			}
			// a local list of kept victims: []*Allocation declared in this function
			if v, isVar := p.ObjOf(id).(*types.Var); isVar && !v.IsField() && v.Parent() != nil && v.Pkg() != nil && v.Parent() != v.Pkg().Scope() {
				if sl, isSl := v.Type().Underlying().(*types.Slice); isSl && p.TypeName(sl.Elem()) == "objects.Allocation" {
					return paramIndexOfObj(p, fn, v) < 0
				}
			}
			return false
		})
		n := 0
		for _, ap := range aps {
			if p.TypeName(p.TypeOf(ap.Args[1])) != "objects.Allocation" {
				continue // append(head, tail...) merge
			}
			// only the lists filled by a loop that tentatively takes its element off the queue snapshot
			if lp := p.enclosingLoop(ap); lp == nil || len(p.callsInNode(lp, "objects.QueuePreemptionSnapshot.RemoveAllocation")) == 0 {
				continue
			}
			if ap.Ellipsis.IsValid() {
				continue
			}
			n++
			st := p.StateAt(fn, ap)
			pre := p.Holds(st, p.CallAtom(true, func(cl *ast.CallExpr, a Atom) bool {
				if len(cl.Args) < 2 || p.Src(cl.Args[1]) != "resources.Zero" {
					return false
				}
				d := p.DefOf(a.term(cl.Args[0]))
				dc, ok := unparen(d.E).(*ast.CallExpr)
				return ok && p.IsCall(dc, "objects.QueuePreemptionSnapshot.GetPreemptableResource")
			}, "resources.StrictlyGreaterThanOrEquals"))
			c.Check("C08.b", "victim kept only while its queue stays preemptable in "+shortFn(fnName), ap, pre, "victim kept without StrictlyGreaterThanOrEquals(GetPreemptableResource(), Zero); facts: %v", p.FactStrings(st))
			over := p.Holds(st, anyReq(
				p.NilAtom(true, func(t Term) bool {
					d := p.DefOf(t)
					dc, ok := unparen(d.E).(*ast.CallExpr)
					return ok && p.IsCall(dc, "objects.QueuePreemptionSnapshot.GetRemainingGuaranteedResource")
				}),
				p.CallAtom(true, func(cl *ast.CallExpr, a Atom) bool {
					if len(cl.Args) < 2 {
						return false
					}
					rc, ok := unparen(cl.Args[0]).(*ast.CallExpr)
					return ok && p.IsCall(rc, fnGetAllocatedResource) && p.recvField(fn, Recv(rc), "objects.Preemptor.ask")
				}, "objects.isVictimQueueOverGuaranteed")))
			c.Check("C08.b", "victim kept only from a queue over its guarantee in "+shortFn(fnName), ap, over, "victim kept without (remaining == nil || isVictimQueueOverGuaranteed(res(ask), remaining)); facts: %v", p.FactStrings(st))
		}
		floor := 3
		if fnName == "objects.Preemptor.calculateAdditionalVictims" {
			floor = 1
		}
		c.Floor("C08.b", "victims kept in "+fnName, n, floor)
		// every path from the statement that takes the victim off its queue snapshot to the end of the loop
		// iteration either keeps the victim or puts the amount back on the same snapshot (whatever the shape:
		// else branch, early continue, break)
		nIf := 0
		for _, first := range p.callsInShallow(fn, "objects.QueuePreemptionSnapshot.RemoveAllocation") {
			loop, _ := p.enclosingLoop(first).(*ast.RangeStmt)
			es, isStmt := p.Parent(first).(*ast.ExprStmt)
			if loop == nil || !isStmt || len(first.Args) < 1 || Recv(first) == nil {
				continue
			}
			gc, isC := unparen(first.Args[0]).(*ast.CallExpr)
			if !isC || Recv(gc) == nil {
				continue
			}
			vic := p.Src(Recv(gc))
			// only the tentative removal of the loop's own element from its victim queue: the first removal of a
			// loop body that goes on to test the guarantee (not the undo of a give to the ask queue, not the
			// definitive removal of the victims already chosen for the node)
			if rv, isID := loop.Value.(*ast.Ident); !isID || p.Src(rv) != vic {
				continue
			}
			tentative, isFirst := false, true
			ast.Inspect(loop.Body, func(m ast.Node) bool {
				if cl, isCall := m.(*ast.CallExpr); isCall {
					if p.IsCall(cl, "objects.isVictimQueueOverGuaranteed") {
						tentative = true
					}
					if p.IsCall(cl, "objects.QueuePreemptionSnapshot.RemoveAllocation") && cl.Pos() < first.Pos() {
						isFirst = false
					}
				}
				return true
			})
			if !tentative || !isFirst {
				continue
			}
			settles := func(n ast.Node) bool {
				ok := false
				ast.Inspect(n, func(m ast.Node) bool {
					dc, isCall := m.(*ast.CallExpr)
					if !isCall {
						return true
					}
					if p.IsCall(dc, "objects.QueuePreemptionSnapshot.AddAllocation") && Recv(dc) != nil && len(dc.Args) >= 1 &&
						p.Src(Recv(dc)) == p.Src(Recv(first)) && p.Src(dc.Args[0]) == p.Src(first.Args[0]) {
						ok = true
					}
					if id, isID := unparen(dc.Fun).(*ast.Ident); isID && id.Name == "append" && len(dc.Args) >= 2 && p.Src(dc.Args[1]) == vic {
						ok = true
					}
					return true
				})
				return ok
			}
			// walk outwards from the removal to the loop body: the rest of each enclosing block follows it
			var bad []ast.Node
			undecided := ""
			var explore func(list []ast.Stmt, settled bool) (fall bool, fallSettled []bool)
			explore = func(list []ast.Stmt, settled bool) (bool, []bool) {
				cur := []bool{settled}
				for _, st := range list {
					var next []bool
					for _, sd := range cur {
						switch x := st.(type) {
						case *ast.IfStmt:
							if x.Init != nil && settles(x.Init) {
								sd = true
							}
							f1, s1 := explore(x.Body.List, sd)
							if f1 {
								next = append(next, s1...)
							}
							switch e := x.Else.(type) {
							case nil:
								next = append(next, sd)
							case *ast.BlockStmt:
								if f2, s2 := explore(e.List, sd); f2 {
									next = append(next, s2...)
								}
							case *ast.IfStmt:
								if f2, s2 := explore([]ast.Stmt{e}, sd); f2 {
									next = append(next, s2...)
								}
							}
						case *ast.BranchStmt, *ast.ReturnStmt:
							if !sd {
								bad = append(bad, st)
							}
						case *ast.ForStmt, *ast.RangeStmt, *ast.SwitchStmt, *ast.TypeSwitchStmt, *ast.SelectStmt:
							if settles(st) {
								undecided = "the keep/restore step sits inside a nested loop or switch at " + p.Pos(st)
							}
							next = append(next, sd)
						default:
							next = append(next, sd || settles(st))
						}
					}
					// collapse
					seenT, seenF := false, false
					cur = cur[:0]
					for _, v := range next {
						if v && !seenT {
							seenT = true
							cur = append(cur, true)
						}
						if !v && !seenF {
							seenF = true
							cur = append(cur, false)
						}
					}
					if len(cur) == 0 {
						return false, nil
					}
				}
				return true, cur
			}
			var node ast.Node = es
			fallStates := []bool{false}
			for node != ast.Node(loop.Body) && node != nil {
				par := p.Parent(node)
				var rest []ast.Stmt
				switch b := par.(type) {
				case *ast.BlockStmt:
					for i, st := range b.List {
						if ast.Node(st) == node {
							rest = b.List[i+1:]
						}
					}
					var nf []bool
					for _, sd := range fallStates {
						if f, ss := explore(rest, sd); f {
							nf = append(nf, ss...)
						}
					}
					fallStates = nf
				}
				node = par
				if len(fallStates) == 0 {
					break
				}
			}
			for _, sd := range fallStates {
				if !sd {
					bad = append(bad, loop.Body)
				}
			}
			nIf++
			c.Check("C08.b", "snapshot restored when the victim is rejected in "+shortFn(fnName), first, len(bad) == 0 && undecided == "", "a loop iteration that removed %s from %s can end (at %s) without keeping the victim or restoring the snapshot with AddAllocation(%s) %s", p.Src(first.Args[0]), p.Src(Recv(first)), posList(p, bad), p.Src(first.Args[0]), undecided)
		}
		nIfFloor := 2
		if fnName == "objects.Preemptor.calculateAdditionalVictims" {
			nIfFloor = 1
		}
		c.Floor("C08.b", "tentative removals followed to the end of the iteration in "+fnName, nIf, nIfFloor)
	}

	// ---- C08.c preempting ledger
	c.Rule("C08.c", "IncPreemptingResource books exactly the resource of victims that were marked; Inc/DecPreemptingResource recurse to the direct parent; release sites decrement (see C03.c)")
	nInc := 0
	for _, cs := range p.CallSitesByName("objects.Queue.IncPreemptingResource") {
		if cs.Caller.Name == "objects.Queue.IncPreemptingResource" {
			continue
		}
		nInc++
		fn := cs.Caller
		st := p.StateAt(fn, cs.Call)
		ac, ok := unparen(cs.Call.Args[0]).(*ast.CallExpr)
		if !ok || !p.IsCall(ac, fnGetAllocatedResource) {
			c.Check("C08.c", "preempting amount is the victim's resource in "+shortFn(fn.Name), cs.Call, false, "IncPreemptingResource(%s)", p.Src(cs.Call.Args[0]))
			continue
		}
		v := T(Recv(ac), st)
		okM := p.Holds(st, p.ResultNilAtom(true, onAlloc(p, v), "objects.Allocation.MarkPreempted"))
		if !okM {
			if src, _, isRange := p.RangeSource(v); isRange {
				shape, _ := markedSlice(p, fn, src.E, cs.Call)
				okM = shape != markNone
			}
		}
		c.Check("C08.c", "preempting resources booked only for marked victims in "+shortFn(fn.Name), cs.Call, okM, "IncPreemptingResource for a victim without MarkPreempted() == nil")
	}
	c.Floor("C08.c", "external call sites of IncPreemptingResource", nInc, 3)
	for _, nm := range []string{"objects.Queue.IncPreemptingResource", "objects.Queue.DecPreemptingResource"} {
		fn := c.MustFunc("C08.c", nm)
		if fn == nil {
			continue
		}
		rec := false
		for _, call := range p.callsIn(fn, nm) {
			if !p.recvField(fn, Recv(call), "objects.Queue.parent") || !p.isParam(fn, call.Args[0], 0) {
				continue
			}
			// unconditional, or only under "there is a parent" (the method is nil-safe, so the guard changes nothing)
			st := p.StateAt(fn, call)
			extra := ""
			for _, a := range p.AllAtoms(st) {
				_, x, y, isCmp := p.cmpParts(a)
				if isCmp && (p.isNilExpr(x) || p.isNilExpr(y)) {
					continue // presence tests: receiver, parent
				}
				extra = p.Src(a.E)
			}
			if st != nil && extra == "" {
				rec = true
			}
		}
		c.Check("C08.c", shortFn(nm)+" recurses to the direct parent", fn.Decl, rec, "%s no longer propagates to sq.parent", nm)
		own := false
		for _, w := range p.FieldWrites(p.Field("objects.Queue.preemptingResource")) {
			if p.inFn(w.Fn, fn) {
				if cl, ok := unparen(w.Arg).(*ast.CallExpr); ok && len(cl.Args) >= 2 && p.recvField(fn, cl.Args[0], "objects.Queue.preemptingResource") && p.isParam(fn, cl.Args[1], 0) {
					if (nm == "objects.Queue.IncPreemptingResource") == p.IsCall(cl, "resources.Add") {
						own = true
					}
				}
			}
		}
		c.Check("C08.c", shortFn(nm)+" updates its own ledger with the right sign", fn.Decl, own, "%s does not Add/Sub its own preemptingResource", nm)
	}
	c.fieldWritersConfined("C08.c", "objects.Queue.preemptingResource", 3, func(w FieldWrite) (bool, string) {
		switch w.Fn.Name {
		case "objects.Queue.IncPreemptingResource", "objects.Queue.DecPreemptingResource", "objects.newBlankQueue":
			return true, ""
		}
		return false, "Queue.preemptingResource written outside Inc/DecPreemptingResource"
	})

	// ---- C08.d quota preemption typestate
	c.Rule("C08.d", "quota preemption runs only after tryAcquirePreemption() succeeded and always releases the running flag; the flag is only acquired for a managed queue above its maximum whose start time has passed; the trigger honours the feature flag; victims are kept only within the preemptable amount")
	if fn := c.MustFunc("C08.d", "objects.Queue.TryQuotaPreemption"); fn != nil {
		calls := p.callsIn(fn, "objects.NewQuotaPreemptor", "objects.QuotaPreemptionContext.tryPreemption")
		for _, call := range calls {
			st := p.StateAt(fn, call)
			ok := p.Holds(st, p.CallAtom(true, func(cl *ast.CallExpr, a Atom) bool { return p.isRecvExpr(fn, Recv(cl)) }, "objects.Queue.tryAcquirePreemption"))
			c.Check("C08.d", shortFn(p.CalleeName(call))+" only after acquiring the running flag", call, ok, "quota preemption started without tryAcquirePreemption() == true; facts: %v", p.FactStrings(st))
			rel := false
			if st != nil {
				for _, d := range st.Done {
					if cl, ok := d.(*ast.CallExpr); ok && p.IsDeferred(cl) && p.IsCall(cl, "objects.Queue.setQuotaPreemptionState") && p.isConstBool(cl.Args[0], false) {
						rel = true
					}
				}
			}
			c.Check("C08.d", shortFn(p.CalleeName(call))+" releases the running flag on exit", call, rel, "quota preemption goroutine does not defer setQuotaPreemptionState(false)")
		}
		c.Floor("C08.d", "quota preemption start sites", len(calls), 2)
	}
	if fn := c.MustFunc("C08.d", "objects.Queue.tryAcquirePreemption"); fn != nil {
		n := 0
		for _, w := range p.FieldWrites(p.Field("objects.Queue.isQuotaPreemptionRunning")) {
			if !p.inFn(w.Fn, fn) || !p.isConstBool(w.Arg, true) {
				continue
			}
			n++
			st := p.StateAt(fn, w.Node)
			chk := func(name string, r Req) {
				c.Check("C08.d", "running flag acquired only if "+name, w.Node, p.Holds(st, r), "isQuotaPreemptionRunning = true without [%s]; facts: %v", name, p.FactStrings(st))
			}
			chk("queue is managed", p.BoolAtom(true, func(t Term) bool { return p.recvField(fn, t.E, "objects.Queue.isManaged") }))
			chk("not already running", p.BoolAtom(false, func(t Term) bool { return p.recvField(fn, t.E, "objects.Queue.isQuotaPreemptionRunning") }))
			chk("usage above the maximum", p.CallAtom(false, func(cl *ast.CallExpr, a Atom) bool {
				return p.recvField(fn, Recv(cl), "objects.Queue.maxResource") && len(cl.Args) >= 1 && p.recvField(fn, cl.Args[0], "objects.Queue.allocatedResource")
			}, "resources.Resource.StrictlyGreaterThanOrEqualsOnlyExisting"))
			chk("start time set", p.CallAtom(false, func(cl *ast.CallExpr, a Atom) bool {
				return p.recvField(fn, Recv(cl), "objects.Queue.quotaPreemptionStartTime")
			}, "time.Time.IsZero"))
			chk("delay elapsed", p.CallAtom(false, func(cl *ast.CallExpr, a Atom) bool {
				return len(cl.Args) >= 1 && p.recvField(fn, cl.Args[0], "objects.Queue.quotaPreemptionStartTime")
			}, "time.Time.Before"))
			held := p.lockHeld(fn, w.Node, func(e ast.Expr) bool { return p.isRecvExpr(fn, e) }, true)
			c.Check("C08.d", "running flag acquired under the queue lock", w.Node, held, "check-and-set of isQuotaPreemptionRunning is not atomic")
		}
		c.Floor("C08.d", "acquisitions of the running flag", n, 1)
	}
	c.fieldWritersConfined("C08.d", "objects.Queue.isQuotaPreemptionRunning", 2, func(w FieldWrite) (bool, string) {
		switch w.Fn.Name {
		case "objects.Queue.tryAcquirePreemption", "objects.Queue.setQuotaPreemptionState", "objects.Queue.ResetPreemptionTime":
			return true, ""
		}
		return false, "running flag written in " + w.Fn.Name
	})
	if fn := c.MustFunc("C08.d", "scheduler.Scheduler.triggerQuotaPreemption"); fn != nil {
		calls := p.callsIn(fn, "objects.Queue.TryQuotaPreemption")
		for _, call := range calls {
			st := p.StateAt(fn, call)
			ok := p.Holds(st, p.CallAtom(true, nil, "scheduler.PartitionContext.IsQuotaPreemptionEnabled"))
			c.Check("C08.d", "quota preemption only with the feature enabled", call, ok, "TryQuotaPreemption triggered without IsQuotaPreemptionEnabled()")
		}
		c.Floor("C08.d", "quota preemption triggers", len(calls), 1)
		for _, cs := range p.CallSitesByName("objects.Queue.TryQuotaPreemption") {
			okC := cs.Caller == fn || cs.Caller.Name == "objects.Queue.TryQuotaPreemption"
			c.Check("C08.d", "TryQuotaPreemption caller "+cs.Caller.Name, cs.Call, okC, "quota preemption triggered outside Scheduler.triggerQuotaPreemption")
		}
	}
	if fn := c.MustFunc("C08.d", "objects.QuotaPreemptionContext.preemptVictims"); fn != nil {
		aps := appendSites(p, fn, func(e ast.Expr) bool { _, ok := unparen(e).(*ast.IndexExpr); return ok })
		for _, ap := range aps {
			st := p.StateAt(fn, ap)
			v := T(ap.Args[1], st)
			fit := p.Holds(st, p.CallAtom(true, func(cl *ast.CallExpr, a Atom) bool {
				return p.recvField(fn, Recv(cl), "objects.QuotaPreemptionContext.preemptableResource") && len(cl.Args) >= 1 && p.IsResOf(a.term(cl.Args[0]), v)
			}, "resources.Resource.FitInMaxUndef"))
			c.Check("C08.d", "quota victim fits in the preemptable amount", ap, fit, "victim selected without preemptableResource.FitInMaxUndef(res(victim)); facts: %v", p.FactStrings(st))
			within := p.Holds(st, p.CallAtom(true, func(cl *ast.CallExpr, a Atom) bool {
				return p.recvField(fn, Recv(cl), "objects.QuotaPreemptionContext.preemptableResource") && len(cl.Args) >= 1
			}, "resources.Resource.StrictlyGreaterThanOrEqualsOnlyExisting"))
			c.Check("C08.d", "running total stays within the preemptable amount", ap, within, "victim selected without preemptableResource >= running total")
		}
		c.Floor("C08.d", "quota victim selections", len(aps), 1)
	}
}

func posList(p *Prog, ns []ast.Node) string {
	var out []string
	for _, n := range ns {
		out = append(out, p.Pos(n))
	}
	return strings.Join(out, ", ")
}

// paramIndexOfObj: index of the parameter of fn that o denotes, -1 if it is not a parameter.
func paramIndexOfObj(p *Prog, fn *Func, o types.Object) int {
	for i := 0; ; i++ {
		id := paramIdent(fn, i)
		if id == nil {
			return -1
		}
		if p.ObjOf(id) == o {
			return i
		}
	}
}
