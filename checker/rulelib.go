package main

// Helpers shared by the per-property rule files.

import (
	"fmt"
	"go/ast"
	"go/token"
	"go/types"
	"sort"
	"strings"
)

const (
	fnGetAllocatedResource = "objects.Allocation.GetAllocatedResource"
	fnGetAllocationKey     = "objects.Allocation.GetAllocationKey"
)

// IsResOf: t denotes the allocated resource of allocation x (x.GetAllocatedResource(), possibly via a local).
func (p *Prog) IsResOf(t, x Term) bool {
	for _, c := range p.chain(t) {
		call, ok := unparen(c.E).(*ast.CallExpr)
		if ok && p.IsCall(call, fnGetAllocatedResource) && Recv(call) != nil {
			if p.Same(Term{E: Recv(call), Env: c.Env, Frozen: c.Frozen, Idx: -1}, x) {
				return true
			}
		}
	}
	return false
}

// IsKeyOf: t denotes the allocation key of x (GetAllocationKey() or the allocationKey field).
func (p *Prog) IsKeyOf(t, x Term) bool {
	for _, c := range p.chain(t) {
		e := unparen(c.E)
		if call, ok := e.(*ast.CallExpr); ok && p.IsCall(call, fnGetAllocationKey) && Recv(call) != nil {
			if p.Same(Term{E: Recv(call), Env: c.Env, Frozen: c.Frozen, Idx: -1}, x) {
				return true
			}
		}
		if sel, ok := e.(*ast.SelectorExpr); ok {
			if f := p.SelField(sel); f != nil && p.FieldName(f) == "objects.Allocation.allocationKey" {
				if p.Same(Term{E: sel.X, Env: c.Env, Frozen: c.Frozen, Idx: -1}, x) {
					return true
				}
			}
		}
	}
	return false
}

// recvIs returns a call predicate: the receiver of the call is the same value as x.
func (p *Prog) recvIs(x Term) func(call *ast.CallExpr, a Atom) bool {
	return func(call *ast.CallExpr, a Atom) bool {
		r := Recv(call)
		return r != nil && p.Same(a.term(r), x)
	}
}

// argIs: argument i of the call satisfies pred.
func (p *Prog) argIs(i int, pred func(t Term) bool) func(call *ast.CallExpr, a Atom) bool {
	return func(call *ast.CallExpr, a Atom) bool {
		return i < len(call.Args) && pred(a.term(call.Args[i]))
	}
}

func allOf(preds ...func(call *ast.CallExpr, a Atom) bool) func(call *ast.CallExpr, a Atom) bool {
	return func(call *ast.CallExpr, a Atom) bool {
		for _, pr := range preds {
			if !pr(call, a) {
				return false
			}
		}
		return true
	}
}

func anyReq(rs ...Req) Req {
	return func(a Atom) bool {
		for _, r := range rs {
			if r(a) {
				return true
			}
		}
		return false
	}
}

// methodOf: fn is a method whose receiver type is the named type (pkg.Type).
func (p *Prog) methodOf(fn *Func, typ string) bool {
	r := p.recvObj(fn)
	if r == nil {
		if fn.Decl.Recv != nil && len(fn.Decl.Recv.List) > 0 {
			return p.TypeName(p.TypeOf(fn.Decl.Recv.List[0].Type)) == typ
		}
		return false
	}
	return p.TypeName(r.Type()) == typ
}

// isRecvExpr: e is the receiver variable of fn.
func (p *Prog) isRecvExpr(fn *Func, e ast.Expr) bool {
	id, ok := unparen(e).(*ast.Ident)
	if !ok {
		return false
	}
	r := p.recvObj(fn)
	if r == nil {
		return false
	}
	if p.ObjOf(id) == r {
		return true
	}
	// the receiver of an extracted-block helper of fn that is called on fn's receiver
	if owner := p.EnclosingFunc(id.Pos()); owner != nil && owner != fn {
		if hs := p.HelperSite(owner); hs != nil && p.recvObj(owner) != nil && p.ObjOf(id) == p.recvObj(owner) && Recv(hs.Call) != nil {
			return p.isRecvExpr(fn, Recv(hs.Call))
		}
	}
	return false
}

// fieldSel: e is a selector of the named field ("pkg.Type.field"); returns the base expression.
func (p *Prog) fieldSel(e ast.Expr, field string) (ast.Expr, bool) {
	sel, ok := unparen(e).(*ast.SelectorExpr)
	if !ok {
		return nil, false
	}
	f := p.SelField(sel)
	if f == nil || p.FieldName(f) != field {
		return nil, false
	}
	return sel.X, true
}

// lockHeld: at node n in fn, x.Lock() (or RLock when !exclusive) was certainly executed on base
// expression matching isBase and no explicit Unlock followed.
func (p *Prog) lockHeld(fn *Func, n ast.Node, isBase func(e ast.Expr) bool, exclusive bool) bool {
	st := p.StateAt(fn, n)
	if st == nil {
		return false
	}
	held := false
	for _, d := range st.Done {
		call, ok := d.(*ast.CallExpr)
		if !ok {
			continue
		}
		sel, ok := unparen(call.Fun).(*ast.SelectorExpr)
		if !ok || !isBase(sel.X) {
			continue
		}
		if p.IsDeferred(call) {
			continue
		}
		switch sel.Sel.Name {
		case "Lock":
			held = true
		case "RLock":
			if !exclusive {
				held = true
			}
		case "Unlock", "RUnlock":
			held = false
		}
	}
	return held
}

// returnsOf lists the return statements of fn's own body (not of nested literals) with their states.
func (p *Prog) returnsOf(fn *Func) []exitPoint {
	var out []exitPoint
	for _, e := range p.Walk(fn).exits {
		if e.Lit == nil {
			out = append(out, e)
		}
	}
	return out
}

func (p *Prog) isNilLit(e ast.Expr) bool { return p.isNilExpr(e) }

func (p *Prog) isConstBool(e ast.Expr, v bool) bool {
	id, ok := unparen(e).(*ast.Ident)
	if !ok {
		return false
	}
	c, ok := p.ObjOf(id).(*types.Const)
	if !ok || c.Pkg() != nil {
		return false
	}
	return id.Name == fmt.Sprint(v)
}

// callsIn lists calls to names inside fn (including nested literals), in source order.
func (p *Prog) callsIn(fn *Func, names ...string) []*ast.CallExpr {
	out := p.callsInShallow(fn, names...)
	if fn != nil {
		// extracted blocks (private helpers with a sole call site in fn) are part of fn
		for _, h := range p.HelpersOf(fn) {
			out = append(out, p.callsInShallow(h, names...)...)
		}
	}
	return out
}

func (p *Prog) callsInShallow(fn *Func, names ...string) []*ast.CallExpr {
	var out []*ast.CallExpr
	if fn == nil || fn.Decl.Body == nil {
		return nil
	}
	ast.Inspect(fn.Decl.Body, func(n ast.Node) bool {
		if call, ok := n.(*ast.CallExpr); ok && p.IsCall(call, names...) {
			out = append(out, call)
		}
		return true
	})
	return out
}

func shortFn(name string) string {
	if i := strings.Index(name, "."); i >= 0 {
		return name[i+1:]
	}
	return name
}

// whoMayCall checks that every static call site of callee is in one of the allowed callers.
func (c *Ctx) whoMayCall(rule, callee string, floor int, allowed map[string]string) {
	p := c.p
	fn := c.MustFunc(rule, callee)
	if fn == nil {
		return
	}
	sites := p.CallSites(fn.Obj)
	nSites := 0
	for _, cs := range sites {
		_, ok := allowed[cs.Caller.Name]
		if !ok {
			// a private helper (extracted block or new shared helper) all of whose callers are allowed
			ok = p.ownersAllowed(cs.Caller, func(o *Func) bool { _, isAllowed := allowed[o.Name]; return isAllowed }, 0)
		}
		nSites += p.Multiplicity(cs.Caller)
		c.Check(rule, "call "+callee+" from "+cs.Caller.Name, cs.Call, ok,
			"%s may only be called from %v; called from %s", callee, keys(allowed), cs.Caller.Name)
	}
	c.Floor(rule, "call sites of "+callee, nSites, floor)
	// function values (method values) escape the static index: forbid them
	for _, f := range p.funcs {
		if f.Decl.Body == nil {
			continue
		}
		ast.Inspect(f.Decl.Body, func(n ast.Node) bool {
			sel, ok := n.(*ast.SelectorExpr)
			if !ok {
				if id, ok := n.(*ast.Ident); ok && p.Info.Uses[id] == types.Object(fn.Obj) {
					if call, isCall := p.Parent(id).(*ast.CallExpr); !isCall || unparen(call.Fun) != ast.Expr(id) {
						if _, isSel := p.Parent(id).(*ast.SelectorExpr); !isSel {
							c.Check(rule, "function value of "+callee+" in "+f.Name, id, false, "%s is used as a value (escapes the who-may-call table)", callee)
						}
					}
				}
				return true
			}
			if p.Info.Uses[sel.Sel] == types.Object(fn.Obj) {
				par := p.Parent(sel)
				for {
					if pe, ok := par.(*ast.ParenExpr); ok {
						par = p.Parent(pe)
						continue
					}
					break
				}
				if call, isCall := par.(*ast.CallExpr); !isCall || unparen(call.Fun) != ast.Expr(sel) {
					if _, allowedCaller := allowed[f.Name+"#value"]; !allowedCaller {
						c.Check(rule, "method value of "+callee+" in "+f.Name, sel, false, "%s is used as a method value (escapes the who-may-call table)", callee)
					}
				}
			}
			return true
		})
	}
}

func keys(m map[string]string) []string {
	var out []string
	for k := range m {
		out = append(out, k)
	}
	sort.Strings(out)
	return out
}

// fieldWritersConfined: every write to field happens in an allowed function.
func (c *Ctx) fieldWritersConfined(rule, field string, floor int, allowed func(fw FieldWrite) (bool, string)) {
	f := c.p.Field(field)
	if f == nil {
		c.Check(rule, "anchor:"+field, nil, false, "field %s does not resolve", field)
		return
	}
	ws := c.p.FieldWrites(f)
	n := 0
	for _, w := range ws {
		ok, why := allowed(w)
		if !ok {
			// a write in a private helper counts as a write in the functions the helper is part of
			ok = c.p.ownersAllowed(w.Fn, func(o *Func) bool {
				w2 := w
				w2.Fn = o
				ok2, _ := allowed(w2)
				return ok2
			}, 0)
		}
		n += c.p.Multiplicity(w.Fn)
		c.Check(rule, "write "+field+" ("+w.Kind+") in "+w.Fn.Name, w.Node, ok, "%s", why)
	}
	c.Floor(rule, "writes of "+field, n, floor)
}

// notReachable: target is not reachable from the roots in the call graph(s).
func (c *Ctx) notReachable(rule string, roots []string, target string) {
	p := c.p
	fn := c.MustFunc(rule, target)
	if fn == nil {
		return
	}
	for _, r := range roots {
		c.MustFunc(rule, r)
	}
	graphs := []string{"vta"}
	for _, g := range graphs {
		r := p.Reachable(g, roots...)
		c.Check(rule, "unreachable("+g+") "+target, fn.Decl, !r.Has(fn), "%s is reachable from the scheduling roots: %s", target, r.Path(p, fn))
	}
}

func (p *Prog) exprHasOp(e ast.Expr, op token.Token) bool {
	b, ok := unparen(e).(*ast.BinaryExpr)
	return ok && b.Op == op
}

type tokenT = token.Token

const (
	tokEQL = token.EQL
	tokNEQ = token.NEQ
	tokLSS = token.LSS
	tokLEQ = token.LEQ
	tokGTR = token.GTR
	tokGEQ = token.GEQ
)

// paramObj returns the object of the i-th parameter of fn (flattened), or nil.
func paramObj(p *Prog, fn *Func, i int) types.Object {
	k := 0
	for _, f := range fn.Decl.Type.Params.List {
		for _, nm := range f.Names {
			if k == i {
				return p.ObjOf(nm)
			}
			k++
		}
		if len(f.Names) == 0 {
			k++
		}
	}
	return nil
}

// paramIdent returns the identifier of the i-th parameter.
func paramIdent(fn *Func, i int) *ast.Ident {
	k := 0
	for _, f := range fn.Decl.Type.Params.List {
		for _, nm := range f.Names {
			if k == i {
				return nm
			}
			k++
		}
		if len(f.Names) == 0 {
			k++
		}
	}
	return nil
}
