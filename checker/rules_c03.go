package main

import (
	"go/ast"
	"strings"
)

// C03 — resource accounting is conserved across app, queue, node and partition.

func init() { register("C03", rulesC03) }

// ledgerDelta classifies an assignment "x.f = Add(x.f, d)" / "Sub(x.f, d)" / reset.
func ledgerDelta(p *Prog, w FieldWrite, field string) (kind string, operand ast.Expr) {
	if w.Kind != "assign" {
		return "", nil
	}
	call, ok := unparen(w.Arg).(*ast.CallExpr)
	if !ok {
		return "other", nil
	}
	switch {
	case p.IsCall(call, "resources.Add") && len(call.Args) >= 2:
		if _, isF := p.fieldSel(call.Args[0], field); isF {
			return "add", call.Args[1]
		}
	case (p.IsCall(call, "resources.Sub") || p.IsCall(call, "resources.SubErrorNegative")) && len(call.Args) >= 2:
		if _, isF := p.fieldSel(call.Args[0], field); isF {
			return "sub", call.Args[1]
		}
	case p.IsCall(call, "resources.NewResource"):
		return "reset", nil
	}
	return "other", nil
}

func checkUserUsagePairing(c *Ctx, rule string) {
	p := c.p
	n := 0
	for _, fld := range []string{"objects.Application.allocatedResource", "objects.Application.allocatedPlaceholder"} {
		f := p.Field(fld)
		if f == nil {
			c.Check(rule, "anchor:"+fld, nil, false, "field does not resolve")
			continue
		}
		for _, w := range p.FieldWrites(f) {
			if w.Kind == "compositelit" || w.Kind == "mutcall:Prune" {
				continue
			}
			kind, operand := ledgerDelta(p, w, fld)
			key := shortFn(fld) + " " + kind + " in " + shortFn(w.Fn.Name)
			switch kind {
			case "add", "sub":
				n++
				want := "objects.Application.incUserResourceUsage"
				if kind == "sub" {
					want = "objects.Application.decUserResourceUsage"
				}
				isB := func(nn ast.Node) bool {
					call, ok := nn.(*ast.CallExpr)
					return ok && p.IsCall(call, want) && len(call.Args) >= 1 && p.SameOperand(w.Fn, call.Args[0], call, operand, w.Node)
				}
				b, why := p.PairedWith(w.Fn, w.Node, isB)
				c.Check(rule, key+": user usage updated with the same amount", w.Node, b != nil, "change of %s is not paired with %s(<same resource>) in the same function (%s)", fld, want, why)
			case "reset":
				n++
				// the reset must be accompanied by a decrease of the user usage with the summed totals
				calls := p.callsIn(w.Fn, "objects.Application.decUserResourceUsage")
				c.Check(rule, key+": user usage released on reset", w.Node, len(calls) > 0, "%s is reset without any decUserResourceUsage in %s", fld, w.Fn.Name)
			default:
				c.Check(rule, key+": unrecognised ledger write", w.Node, false, "write to %s is not Add/Sub/reset of the ledger: %s", fld, p.Src(w.Arg))
			}
		}
	}
	c.Floor(rule, "changes of Application.allocatedResource/allocatedPlaceholder", n, 7)
}

func rulesC03(c *Ctx) {
	p := c.p
	c.NotDecided("the equalities between the ledgers at run time", "non-negativity and return-to-zero as values")

	// ---- C03.a pending pairing
	c.Rule("C03.a", "every change of Application.pending is paired in the same function with queue.inc/decPendingResource of the same amount; inc/decPendingResource recurse to the direct parent with the same operand")
	if f := p.Field("objects.Application.pending"); f != nil {
		n := 0
		for _, w := range p.FieldWrites(f) {
			if w.Kind == "compositelit" || w.Kind == "mutcall:Prune" {
				continue
			}
			kind, operand := ledgerDelta(p, w, "objects.Application.pending")
			key := "pending " + kind + " in " + shortFn(w.Fn.Name)
			n++
			var want string
			switch kind {
			case "add":
				want = "objects.Queue.incPendingResource"
			case "sub":
				want = "objects.Queue.decPendingResource"
			case "reset":
				want = "objects.Queue.decPendingResource"
				// the amount released is the old total saved just before
				if prev := p.PrecededBy(w.Fn, w.Node, func(nn ast.Node) bool {
					as, ok := nn.(*ast.AssignStmt)
					if !ok || len(as.Rhs) != 1 {
						return false
					}
					return p.recvField(w.Fn, as.Rhs[0], "objects.Application.pending")
				}); prev != nil {
					operand = prev.(*ast.AssignStmt).Lhs[0]
				}
			default:
				c.Check("C03.a", key+": unrecognised ledger write", w.Node, false, "write to Application.pending is not Add/Sub/reset: %s", p.Src(w.Arg))
				continue
			}
			if operand == nil {
				c.Check("C03.a", key+": amount identified", w.Node, false, "cannot identify the amount by which pending changes")
				continue
			}
			isB := func(nn ast.Node) bool {
				call, ok := nn.(*ast.CallExpr)
				if !ok || !p.IsCall(call, want) || len(call.Args) < 1 {
					return false
				}
				if !p.recvField(w.Fn, Recv(call), "objects.Application.queue") {
					return false
				}
				return p.SameOperand(w.Fn, call.Args[0], call, operand, w.Node)
			}
			b, why := p.PairedWith(w.Fn, w.Node, isB)
			c.Check("C03.a", key+": queue pending updated with the same amount", w.Node, b != nil, "change of Application.pending is not paired with sa.queue.%s(<same amount>) (%s)", shortFn(want), why)
		}
		c.Floor("C03.a", "changes of Application.pending", n, 6)
	}
	for _, nm := range []string{"objects.Queue.incPendingResource", "objects.Queue.decPendingResource"} {
		fn := c.MustFunc("C03.a", nm)
		if fn == nil {
			continue
		}
		rec := false
		for _, call := range p.callsIn(fn, nm) {
			st := p.StateAt(fn, call)
			if p.recvField(fn, Recv(call), "objects.Queue.parent") && len(call.Args) >= 1 && p.isParam(fn, call.Args[0], 0) &&
				p.Holds(st, p.NilAtom(false, func(t Term) bool { return p.recvField(fn, t.E, "objects.Queue.parent") })) {
				rec = true
			}
		}
		c.Check("C03.a", shortFn(nm)+" recurses to the direct parent with the same amount", fn.Decl, rec, "%s no longer calls sq.parent.%s(delta)", nm, shortFn(nm))
		own := false
		for _, w := range p.FieldWrites(p.Field("objects.Queue.pending")) {
			if p.inFn(w.Fn, fn) {
				if call, ok := unparen(w.Arg).(*ast.CallExpr); ok && len(call.Args) >= 2 && p.recvField(fn, call.Args[0], "objects.Queue.pending") && p.isParam(fn, call.Args[1], 0) {
					wantAdd := strings.HasSuffix(nm, "incPendingResource")
					if wantAdd == p.IsCall(call, "resources.Add") && (wantAdd || p.IsCall(call, "resources.SubErrorNegative") || p.IsCall(call, "resources.Sub")) {
						own = true
					}
				}
			}
		}
		c.Check("C03.a", shortFn(nm)+" updates its own pending with the right sign", fn.Decl, own, "%s does not update sq.pending with Add/Sub(sq.pending, delta)", nm)
	}
	c.fieldWritersConfined("C03.a", "objects.Queue.pending", 3, func(w FieldWrite) (bool, string) {
		switch w.Fn.Name {
		case "objects.Queue.incPendingResource", "objects.Queue.decPendingResource", "objects.newBlankQueue":
			return true, ""
		}
		return false, "Queue.pending written outside inc/decPendingResource"
	})

	// ---- C03.b allocated pairing
	c.Rule("C03.b", "every change of Application.allocatedResource / allocatedPlaceholder is paired with inc/decUserResourceUsage of the same amount; every insert/delete on Application.allocations is paired with a booking of the totals")
	checkUserUsagePairing(c, "C03.b")
	if f := p.Field("objects.Application.allocations"); f != nil {
		n := 0
		for _, w := range p.FieldWrites(f) {
			if w.Kind != "elem" && w.Kind != "delete" {
				continue
			}
			n++
			isB := func(nn ast.Node) bool {
				as, ok := nn.(*ast.AssignStmt)
				if !ok {
					return false
				}
				for _, l := range as.Lhs {
					if p.recvField(w.Fn, l, "objects.Application.allocatedResource") || p.recvField(w.Fn, l, "objects.Application.allocatedPlaceholder") {
						return true
					}
				}
				return false
			}
			b, why := p.PairedWith(w.Fn, w.Node, isB)
			c.Check("C03.b", "allocations "+w.Kind+" in "+shortFn(w.Fn.Name)+" booked", w.Node, b != nil, "change of Application.allocations without a booking of allocatedResource/allocatedPlaceholder on every path (%s)", why)
		}
		c.Floor("C03.b", "insert/delete on Application.allocations", n, 2)
	}
	c.fieldWritersConfined("C03.b", "objects.Application.allocatedResource", 4, func(w FieldWrite) (bool, string) {
		return p.methodOf(w.Fn, "objects.Application") || w.Fn.Name == "objects.NewApplication", "Application.allocatedResource written outside Application methods"
	})
	c.fieldWritersConfined("C03.b", "objects.Application.allocations", 3, func(w FieldWrite) (bool, string) {
		return p.methodOf(w.Fn, "objects.Application") || w.Fn.Name == "objects.NewApplication", "Application.allocations written outside Application methods"
	})

	// ---- C03.c release-site agreement
	c.Rule("C03.c", "each function that takes an allocation away performs the full effect set (node, queue, preempting, partition counters); DecPreemptingResource amounts come only from allocations with IsPreempted()")
	c.mustContainCalls("C03.c", "scheduler.PartitionContext.removeAllocation",
		"objects.Node.RemoveAllocation", "objects.Node.ReplaceAllocation", "objects.Queue.DecAllocatedResource", "objects.Queue.DecPreemptingResource",
		"scheduler.PartitionContext.updateAllocationCount", "scheduler.PartitionContext.updatePhAllocationCount", "objects.Application.RemoveAllocationAsk")
	c.mustContainCalls("C03.c", "scheduler.PartitionContext.removeNodeAllocations",
		"objects.Application.RemoveAllocation", "objects.Queue.DecAllocatedResource", "objects.Queue.DecPreemptingResource",
		"scheduler.PartitionContext.updateAllocationCount", "scheduler.PartitionContext.decPhAllocationCount")
	c.mustContainCalls("C03.c", "scheduler.PartitionContext.removeApplication",
		"objects.Application.RemoveAllocationAsk", "objects.Queue.RemoveApplication", "objects.Application.RemoveAllAllocations",
		"scheduler.PartitionContext.updateAllocationCount", "objects.Node.RemoveAllocation")
	c.mustContainCalls("C03.c", "objects.Queue.RemoveApplication",
		"objects.Queue.decPendingResource", "objects.Queue.DecAllocatedResource", "objects.Queue.DecPreemptingResource")
	c.mustContainCalls("C03.c", "scheduler.PartitionContext.removeNode",
		"scheduler.PartitionContext.unReserve", "scheduler.PartitionContext.removeNodeAllocations", "scheduler.PartitionContext.updatePartitionResource")
	// in removeNodeAllocations the per-allocation effects happen on the path where the app really removed the allocation
	if fn := c.MustFunc("C03.c", "scheduler.PartitionContext.removeNodeAllocations"); fn != nil {
		for _, call := range p.callsIn(fn, "objects.Queue.DecAllocatedResource") {
			st := p.StateAt(fn, call)
			ok := p.Holds(st, p.ResultNilAtom(false, nil, "objects.Application.RemoveAllocation"))
			c.Check("C03.c", "queue released only for allocations the app really removed (node removal)", call, ok, "DecAllocatedResource without app.RemoveAllocation(...) != nil")
			argOK := len(call.Args) >= 1 && func() bool {
				cl, ok := unparen(call.Args[0]).(*ast.CallExpr)
				return ok && p.IsCall(cl, fnGetAllocatedResource)
			}()
			c.Check("C03.c", "queue released with the allocation's own resource (node removal)", call, argOK, "DecAllocatedResource argument is %s", p.Src(call.Args[0]))
		}
	}
	// DecPreemptingResource provenance
	nPre := 0
	for _, cs := range p.CallSitesByName("objects.Queue.DecPreemptingResource") {
		if cs.Caller.Name == "objects.Queue.DecPreemptingResource" {
			continue
		}
		nPre++
		st := p.StateAt(cs.Caller, cs.Call)
		arg := cs.Call.Args[0]
		ok := false
		isPre := func(st *State, of Term) bool {
			return p.Holds(st, p.CallAtom(true, func(cl *ast.CallExpr, a Atom) bool {
				return Recv(cl) != nil && p.Same(a.term(Recv(cl)), of)
			}, "objects.Allocation.IsPreempted"))
		}
		if cl, isC := unparen(arg).(*ast.CallExpr); isC && p.IsCall(cl, fnGetAllocatedResource) {
			ok = isPre(st, T(Recv(cl), st))
		} else if id, isI := unparen(arg).(*ast.Ident); isI {
			// accumulator: every AddTo on it must be under IsPreempted of the allocation whose resource is added
			obj := p.ObjOf(id)
			all, any := true, false
			ast.Inspect(cs.Caller.Decl.Body, func(nn ast.Node) bool {
				cl, isC := nn.(*ast.CallExpr)
				if !isC || !p.IsCall(cl, "resources.Resource.AddTo") {
					return true
				}
				rid, isI := unparen(Recv(cl)).(*ast.Ident)
				if !isI || p.ObjOf(rid) != obj {
					return true
				}
				any = true
				s2 := p.StateAt(cs.Caller, cl)
				ac, isC2 := unparen(cl.Args[0]).(*ast.CallExpr)
				if !isC2 || !p.IsCall(ac, fnGetAllocatedResource) || !isPre(s2, T(Recv(ac), s2)) {
					all = false
				}
				return true
			})
			ok = all && any
		}
		c.Check("C03.c", "preempting amount released in "+shortFn(cs.Caller.Name)+" comes from preempted allocations", cs.Call, ok, "DecPreemptingResource(%s) is not derived from allocations with IsPreempted() == true", p.Src(arg))
	}
	c.Floor("C03.c", "external call sites of DecPreemptingResource", nPre, 3)

	// ---- C03.d partition counters
	c.Rule("C03.d", "the partition counters (allocations, placeholderAllocations, reservations) are changed only inside their locked helpers")
	for fld, helpers := range map[string][]string{
		"allocations":            {"scheduler.PartitionContext.updateAllocationCount"},
		"placeholderAllocations": {"scheduler.PartitionContext.incPhAllocationCount", "scheduler.PartitionContext.decPhAllocationCount"},
		"reservations":           {"scheduler.PartitionContext.incReservationCount", "scheduler.PartitionContext.decReservationCount"},
	} {
		c.fieldWritersConfined("C03.d", "scheduler.PartitionContext."+fld, 1, func(w FieldWrite) (bool, string) {
			for _, h := range helpers {
				if w.Fn.Name == h {
					held := p.lockHeld(w.Fn, w.Node, func(e ast.Expr) bool { return p.isRecvExpr(w.Fn, e) }, true)
					if !held {
						return false, "counter changed without the partition lock"
					}
					return true, ""
				}
			}
			return false, "partition counter " + fld + " changed outside " + strings.Join(helpers, ", ")
		})
	}
	// the success path of allocate() counts the allocation (and the placeholder)
	if fn := c.MustFunc("C03.d", "scheduler.PartitionContext.allocate"); fn != nil {
		for _, ex := range p.returnsOf(fn) {
			rs, ok := ex.Node.(*ast.ReturnStmt)
			if !ok || len(rs.Results) != 1 || p.isNilExpr(rs.Results[0]) {
				continue
			}
			d := p.DoneCall(ex.State, func(cl *ast.CallExpr) bool { v, ok := p.ConstInt(cl.Args[0]); return ok && v == 1 }, "scheduler.PartitionContext.updateAllocationCount")
			c.Check("C03.d", "confirmed allocation counted", rs, d != nil, "allocate() returns a result without updateAllocationCount(1)")
		}
		ph := p.callsIn(fn, "scheduler.PartitionContext.incPhAllocationCount")
		okPh := false
		for _, call := range ph {
			if p.Holds(p.StateAt(fn, call), p.CallAtom(true, nil, "objects.Allocation.IsPlaceholder")) {
				okPh = true
			}
		}
		c.Check("C03.d", "confirmed placeholder counted", fn.Decl, okPh, "allocate() no longer counts placeholders under IsPlaceholder()")
	}

	// ---- C03.e alias leaks
	c.Rule("C03.e", "no function returns a live reference to a ledger resource that is mutated in place (AddTo/SubFrom/MultiplyTo) elsewhere")
	ledgers := []string{
		"objects.Application.pending", "objects.Application.allocatedResource", "objects.Application.allocatedPlaceholder", "objects.Application.maxAllocatedResource",
		"objects.Queue.pending", "objects.Queue.allocatedResource", "objects.Queue.preemptingResource", "objects.Queue.maxResource", "objects.Queue.guaranteedResource",
		"objects.Node.totalResource", "objects.Node.occupiedResource", "objects.Node.allocatedResource", "objects.Node.availableResource",
		"scheduler.PartitionContext.totalPartitionResource",
	}
	nleak := 0
	for _, fn := range p.funcs {
		if fn.Decl.Body == nil {
			continue
		}
		ast.Inspect(fn.Decl.Body, func(n ast.Node) bool {
			rs, ok := n.(*ast.ReturnStmt)
			if !ok {
				return true
			}
			for _, r := range rs.Results {
				f := p.SelField(r)
				if f == nil {
					continue
				}
				name := p.FieldName(f)
				for _, l := range ledgers {
					if l != name {
						continue
					}
					nleak++
					inPlace := ""
					for _, w := range p.FieldWrites(f) {
						if strings.HasPrefix(w.Kind, "mutcall:") && w.Kind != "mutcall:Prune" {
							inPlace = w.Kind + " in " + w.Fn.Name
						}
					}
					c.Check("C03.e", "live "+name+" returned by "+fn.Name, rs, inPlace == "", "returns the live ledger %s which is mutated in place (%s)", name, inPlace)
				}
			}
			return true
		})
	}
	c.Floor("C03.e", "functions returning a ledger field (replace-only ones are tolerated)", nleak, 1)
}
