package main

// Rules added after the third round of seeded changes.

import (
	"go/ast"
	"go/token"
	"go/types"
	"strconv"
	"strings"
)

func init() {
	registerExtra("C02", ruleQueueLookupNormalised)
	registerExtra("C16", ruleQueueLookupNormalised)
	registerExtra("C03", ruleOwnCheckBeforeParent)
	registerExtra("C02", ruleOwnCheckBeforeParent)
	registerExtra("C04", ruleBoundNodeAlwaysSet)
	registerExtra("C05", ruleNoGroupRemembered)
	registerExtra("C06", ruleTimerClearedWithLastPlaceholder)
	registerExtra("C07", rulePropertiesAfterTemplate)
	registerExtra("C08", ruleQuotaClaimOnlyMaxTypes)
	registerExtra("C09", ruleNodeReservedLast)
	registerExtra("C09", ruleQueueUnreserveAtZero)
}

// noFactsOn: no fact known at st (other than nil / presence tests accepted by allow) mentions a term for which
// about() is true; returns the first offending fact.
func (p *Prog) factAbout(st *State, about func(e ast.Expr, a Atom) bool) string {
	for _, a := range p.AllAtoms(st) {
		hit := false
		ast.Inspect(a.E, func(n ast.Node) bool {
			if e, ok := n.(ast.Expr); ok && !hit && about(e, a) {
				hit = true
			}
			return !hit
		})
		if hit {
			return p.Src(a.E)
		}
	}
	return ""
}

// ruleQueueLookupNormalised: the reload looks an existing queue up under the name the loader registered it with.
func ruleQueueLookupNormalised(c *Ctx) {
	p := c.p
	rule := c.Prop + ".lk"
	c.Rule(rule, "queue objects are registered under their lower-cased name; a lookup of a child by a name taken from the configuration (QueueConfig.Name) goes through getQueueInternal (which lower-cases the path) or lower-cases the name: a miss re-creates the queue on every reload and replaces the one that carries the usage")
	n := 0
	for _, fn := range p.funcs {
		if fn.Decl.Body == nil || !p.InPkg(fn, "scheduler") {
			continue
		}
		for _, call := range p.callsInShallow(fn, "objects.Queue.GetChildQueue") {
			if len(call.Args) < 1 {
				continue
			}
			fromConf := false
			lowered := false
			for _, t := range p.chain(T(call.Args[0], p.StateAt(fn, call))) {
				ast.Inspect(t.E, func(m ast.Node) bool {
					if sel, ok := m.(*ast.SelectorExpr); ok && sel.Sel.Name == "Name" && p.TypeName(p.TypeOf(sel.X)) == "configs.QueueConfig" {
						fromConf = true
					}
					if cl, ok := m.(*ast.CallExpr); ok && p.IsCall(cl, "strings.ToLower") {
						lowered = true
					}
					return true
				})
			}
			if !fromConf {
				continue
			}
			n++
			c.Check(rule, "configured child looked up under its registered name in "+fn.Name, call, lowered, "GetChildQueue(%s) is called with a configuration name that is not lower-cased: a configured queue with capitals in its name is not found, re-created empty and the old object with its usage drops out of the tree", p.Src(call.Args[0]))
		}
	}
	c.Check(rule, "no raw configuration name is used for a child lookup", nil, true, "")
	_ = n
	if fn := c.MustFunc(rule, "scheduler.PartitionContext.updateQueues"); fn != nil {
		c.Floor(rule, "lookups through getQueueInternal in updateQueues", len(p.callsIn(fn, "scheduler.PartitionContext.getQueueInternal")), 1)
	}
}

// ruleOwnCheckBeforeParent: nothing above is changed before this level has agreed.
func ruleOwnCheckBeforeParent(c *Ctx) {
	p := c.p
	rule := c.Prop + ".own"
	c.Rule(rule, "Queue.TryIncAllocatedResource asks the parent (which checks AND books on success) only after this queue's own fit test has passed, and has no refusing exit after the parent's success: a refusal below must not leave the ancestors incremented")
	fn := c.MustFunc(rule, "objects.Queue.TryIncAllocatedResource")
	if fn == nil {
		return
	}
	calls := p.callsIn(fn, "objects.Queue.TryIncAllocatedResource")
	for _, call := range calls {
		st := p.StateAt(fn, call)
		own := p.Holds(st, p.CallAtom(true, func(cl *ast.CallExpr, a Atom) bool { return p.isRecvExpr(fn, Recv(cl)) }, "objects.Queue.allocatedResFits"))
		c.Check(rule, "parent asked only after the own check passed", call, own, "the parent is asked to check-and-book without the fact sq.allocatedResFits(alloc): when this queue then refuses, the ancestors keep the increment; facts: %v", p.FactStrings(st))
	}
	c.Floor(rule, "parent consultations in TryIncAllocatedResource", len(calls), 1)
	for _, ex := range p.returnsOf(fn) {
		rs, ok := ex.Node.(*ast.ReturnStmt)
		if !ok || len(rs.Results) != 1 || p.isNilExpr(rs.Results[0]) {
			continue
		}
		// a refusing exit: the parent has not succeeded before it
		after := p.Holds(ex.State, p.ResultNilAtom(true, nil, "objects.Queue.TryIncAllocatedResource"))
		c.Check(rule, "no refusal after the parent booked", rs, !after, "TryIncAllocatedResource returns an error after the parent's TryIncAllocatedResource succeeded (and booked) without giving the amount back")
	}
}

// ruleBoundNodeAlwaysSet: the announced node is the node the allocation was booked on.
func ruleBoundNodeAlwaysSet(c *Ctx) {
	p := c.p
	c.Rule("C04.g", "PartitionContext.allocate stamps the node it booked the allocation on (SetNodeID(targetNodeID)) unconditionally with respect to what the allocation carried before: a re-queued ask keeps no stale node id that would be announced to the shim")
	fn := c.MustFunc("C04.g", "scheduler.PartitionContext.allocate")
	if fn == nil {
		return
	}
	calls := p.callsIn(fn, "objects.Allocation.SetNodeID")
	for _, call := range calls {
		st := p.StateAt(fn, call)
		bad := p.factAbout(st, func(e ast.Expr, a Atom) bool {
			cl, ok := e.(*ast.CallExpr)
			return ok && p.IsCall(cl, "objects.Allocation.GetNodeID")
		})
		c.Check("C04.g", "node id stamped whatever the previous one was", call, bad == "", "SetNodeID only runs under a condition on the allocation's previous node id (%s): an ask that was bound before keeps the old node id and is announced on a node it is not on", bad)
	}
	c.Floor("C04.g", "SetNodeID in PartitionContext.allocate", len(calls), 1)
	for _, ex := range p.returnsOf(fn) {
		rs, ok := ex.Node.(*ast.ReturnStmt)
		if !ok || len(rs.Results) != 1 || p.isNilExpr(rs.Results[0]) {
			continue
		}
		c.Check("C04.g", "every announced result has its node stamped", rs, p.DoneCall(ex.State, nil, "objects.Allocation.SetNodeID") != nil, "allocate returns a result to be announced on a path on which SetNodeID has not run")
	}
}

// ruleNoGroupRemembered: "no group" is an answer too.
func ruleNoGroupRemembered(c *Ctx) {
	p := c.p
	c.Rule("C05.h", "UserTracker.setGroupForApp records the resolution of the application's group whatever the result (nil = no group applies): hasGroupForApp tests the presence of the key, so an unrecorded 'no group' is re-resolved later and links a running application to a group that never saw its usage")
	fn := c.MustFunc("C05.h", "ugm.UserTracker.setGroupForApp")
	if fn == nil {
		return
	}
	n := 0
	for _, w := range p.FieldWrites(p.Field("ugm.UserTracker.appGroupTrackers")) {
		if !p.inFn(w.Fn, fn) || w.Kind != "elem" {
			continue
		}
		n++
		st := p.StateAt(fn, w.Node)
		// no condition on the value that is stored (nil or not)
		var stored interface{}
		if id, ok := unparen(w.Arg).(*ast.Ident); ok {
			stored = p.ObjOf(id)
		}
		extra := p.factAbout(st, func(e ast.Expr, a Atom) bool {
			id, ok := e.(*ast.Ident)
			return ok && stored != nil && p.ObjOf(id) == stored
		})
		c.Check("C05.h", "group resolution stored unconditionally", w.Node, st != nil && stored != nil && extra == "", "the application's group is only recorded under the condition %s on the resolved tracker", extra)
	}
	c.Floor("C05.h", "stores into appGroupTrackers in setGroupForApp", n, 1)
}

// ruleTimerClearedWithLastPlaceholder: the placeholder timer dies with the last placeholder.
func ruleTimerClearedWithLastPlaceholder(c *Ctx) {
	p := c.p
	c.Rule("C06.i", "when removeAllocationInternal removes the last allocated placeholder (allocatedPlaceholder becomes zero) the placeholder timer is cleared whatever the application state: a timer that survives a completed gang fires later and releases the real allocations as timed out")
	fn := c.MustFunc("C06.i", "objects.Application.removeAllocationInternal")
	if fn == nil {
		return
	}
	calls := p.callsIn(fn, "objects.Application.clearPlaceholderTimer")
	for _, call := range calls {
		st := p.StateAt(fn, call)
		bad := p.factAbout(st, func(e ast.Expr, a Atom) bool {
			cl, ok := e.(*ast.CallExpr)
			return ok && p.IsCall(cl, "objects.Application.IsCompleting", "objects.Application.IsFailing", "objects.Application.IsResuming", "objects.Application.hasZeroAllocations", "objects.Application.IsRunning")
		})
		zero := p.Holds(st, p.CallAtom(true, func(cl *ast.CallExpr, a Atom) bool {
			return len(cl.Args) >= 1 && p.recvField(fn, cl.Args[0], "objects.Application.allocatedPlaceholder")
		}, "resources.IsZero"))
		c.Check("C06.i", "timer cleared as soon as no placeholder is allocated", call, zero && bad == "", "clearPlaceholderTimer in the placeholder branch runs under the state condition %q (expected: only IsZero(allocatedPlaceholder)): a running gang keeps an armed timer", bad)
	}
	c.Floor("C06.i", "clearPlaceholderTimer in removeAllocationInternal", len(calls), 1)
}

// rulePropertiesAfterTemplate: a dynamic queue's policies come from the template of its parent.
func rulePropertiesAfterTemplate(c *Ctx) {
	p := c.p
	c.Rule("C07.j", "newDynamicQueueInternal converts the queue properties into policies (UpdateQueueProperties: preemption policy and delay, priority policy and offset) after the queue was added to its parent, because addChildQueue is where the parent's child template fills the properties of a dynamic queue")
	fn := c.MustFunc("C07.j", "objects.newDynamicQueueInternal")
	if fn == nil {
		return
	}
	calls := p.callsIn(fn, "objects.Queue.UpdateQueueProperties")
	for _, call := range calls {
		st := p.StateAt(fn, call)
		c.Check("C07.j", "properties converted after the template was applied", call, p.DoneCall(st, nil, "objects.Queue.addChildQueue") != nil, "UpdateQueueProperties runs before addChildQueue: the template's preemption.policy / preemption.delay / priority.* never take effect for the dynamic queue")
	}
	c.Floor("C07.j", "UpdateQueueProperties in newDynamicQueueInternal", len(calls), 1)
}

// ruleQuotaClaimOnlyMaxTypes: quota preemption claims only types the lowered maximum names.
func ruleQuotaClaimOnlyMaxTypes(c *Ctx) {
	p := c.p
	c.Rule("C08.k", "setPreemptableResources combines the excess over the maximum with the parents' preemptable amount over the types of the former only (ComponentWiseMinOnlyExisting): a type that is merely over its guaranteed share, but not over the maximum, is not claimed")
	fn := c.MustFunc("C08.k", "objects.QuotaPreemptionContext.setPreemptableResources")
	if fn == nil {
		return
	}
	for _, call := range p.callsIn(fn, "resources.ComponentWiseMin") {
		c.Check("C08.k", "no union of types in the preemptable amount", call, false, "setPreemptableResources uses ComponentWiseMin, which keeps the types of both operands: types that only the parents' guaranteed-based amount names are claimed although the queue is not over its maximum for them")
	}
	c.Check("C08.k", "preemptable amount restricted to the types over the maximum", fn.Decl, len(p.callsIn(fn, "resources.ComponentWiseMinOnlyExisting")) >= 1, "setPreemptableResources no longer calls ComponentWiseMinOnlyExisting")
}

// ruleNodeReservedLast: the node is touched only when the application side has agreed.
func ruleNodeReservedLast(c *Ctx) {
	p := c.p
	c.Rule("C09.k", "Application.reserveInternal reserves the node (which is not rolled back here) only after every check that can still refuse has passed: Node.Reserve runs under the fact canAllocationReserve(ask) == nil, and no error exit follows its success")
	fn := c.MustFunc("C09.k", "objects.Application.reserveInternal")
	if fn == nil {
		return
	}
	calls := p.callsIn(fn, "objects.Node.Reserve")
	for _, call := range calls {
		st := p.StateAt(fn, call)
		ok := p.Holds(st, p.ResultNilAtom(true, nil, "objects.Application.canAllocationReserve"))
		c.Check("C09.k", "node reserved only after the ask may reserve", call, ok, "Node.Reserve runs without the fact canAllocationReserve(ask) == nil: when the application then refuses, the node keeps a reservation no other view knows")
	}
	c.Floor("C09.k", "Node.Reserve in reserveInternal", len(calls), 1)
	for _, ex := range p.returnsOf(fn) {
		rs, ok := ex.Node.(*ast.ReturnStmt)
		if !ok || len(rs.Results) != 1 || p.isNilExpr(rs.Results[0]) {
			continue
		}
		if p.Holds(ex.State, p.ResultNilAtom(true, nil, "objects.Node.Reserve")) {
			undone := p.DoneCall(ex.State, nil, "objects.Node.unReserve") != nil
			c.Check("C09.k", "no refusal after the node was reserved", rs, undone, "reserveInternal returns an error after Node.Reserve succeeded without un-reserving the node")
		}
	}
}

// ruleQueueUnreserveAtZero: the queue forgets an application exactly when it holds no reservation any more.
func ruleQueueUnreserveAtZero(c *Ctx) {
	p := c.p
	c.Rule("C09.l", "Queue.UnReserve deletes the application's entry exactly when the remaining number of reservations is not positive (count <= releases, or count - releases <= 0 / == 0 / < 1); any other bound drops an application that still holds a reservation, which is then never tried again")
	fn := c.MustFunc("C09.l", "objects.Queue.UnReserve")
	if fn == nil {
		return
	}
	relIdx := p.paramOfType(fn, "int")
	n := 0
	for _, w := range p.FieldWrites(p.Field("objects.Queue.reservedApps")) {
		if !p.inFn(w.Fn, fn) || w.Kind != "delete" {
			continue
		}
		n++
		st := p.StateAt(fn, w.Node)
		ok := p.Holds(st, p.CmpAtom(func(op token.Token, x, y Term) bool {
			if relIdx >= 0 && p.isParamTerm(fn, y, relIdx) {
				return op == token.LEQ
			}
			if v, isC := p.ConstInt(y.E); isC {
				mentions := strings.Contains(p.CanonSrc(x.E, x.Env, 0), "reservedApps") || true
				switch {
				case v == 0:
					return mentions && (op == token.LEQ || op == token.EQL)
				case v == 1:
					return mentions && op == token.LSS
				}
			}
			return false
		}))
		c.Check("C09.l", "entry deleted exactly when nothing is left", w.Node, ok, "the application's entry is deleted from reservedApps without the fact (count <= releases) / (remaining <= 0): an application with a remaining reservation is forgotten by the queue; facts: %v", p.FactStrings(st))
	}
	c.Floor("C09.l", "deletions from reservedApps in UnReserve", n, 1)
}

func init() {
	registerExtra("C10", ruleNoRejectionAfterQueueLink)
	registerExtra("C13", ruleOptionalCapacityGuarded)
	registerExtra("C18", ruleComponentWiseSymmetric)
	registerExtra("C19", ruleComparatorsDoNotSubtract)
	registerExtra("C20", ruleEveryConsumerVisited)
	registerExtra("C20", ruleStoreResizeFlagOwner)
}

// ruleNoRejectionAfterQueueLink: an application that is rejected was never linked to a queue.
func ruleNoRejectionAfterQueueLink(c *Ctx) {
	p := c.p
	c.Rule("C10.g", "PartitionContext.AddApplication links the application to its queue (Queue.AddApplication / Application.SetQueue) only after the last check that can still reject it: no error exit follows the link (a Rejected application has no terminated callback that would unlink it, so it would stay in the queue for ever)")
	fn := c.MustFunc("C10.g", "scheduler.PartitionContext.AddApplication")
	if fn == nil {
		return
	}
	n := 0
	for _, ex := range p.returnsOf(fn) {
		rs, ok := ex.Node.(*ast.ReturnStmt)
		if !ok || len(rs.Results) != 1 || p.isNilExpr(rs.Results[0]) {
			continue
		}
		n++
		linked := p.DoneCall(ex.State, nil, "objects.Queue.AddApplication", "objects.Application.SetQueue")
		undone := p.DoneCall(ex.State, nil, "objects.Queue.RemoveApplication") != nil
		c.Check("C10.g", "no rejection after the queue link", rs, linked == nil || undone, "AddApplication returns an error after the application was linked to the queue (%s) without unlinking it: the rejected application stays registered in the queue", p.Pos(ex.Node))
	}
	c.Floor("C10.g", "rejecting exits of AddApplication", n, 5)
}

// ruleOptionalCapacityGuarded: an absent optional sub-message is not an empty capacity.
func ruleOptionalCapacityGuarded(c *Ctx) {
	p := c.p
	c.Rule("C13.g", "a node ledger is only overwritten (Node.SetCapacity / SetOccupiedResource) with a resource converted from an SI sub-message when that sub-message is present: NewResourceFromProto(nil) is an empty resource, and an update without the optional field would wipe the node's capacity")
	n := 0
	for _, fn := range p.funcs {
		if fn.Decl.Body == nil || !p.InPkg(fn, "scheduler") {
			continue
		}
		for _, call := range p.callsInShallow(fn, "objects.Node.SetCapacity", "objects.Node.SetOccupiedResource") {
			if len(call.Args) < 1 {
				continue
			}
			st := p.StateAt(fn, call)
			var src ast.Expr
			for _, t := range p.chain(T(call.Args[0], st)) {
				if cl, ok := unparen(t.E).(*ast.CallExpr); ok && p.IsCall(cl, "resources.NewResourceFromProto") && len(cl.Args) >= 1 {
					src = cl.Args[0]
					// the message itself, possibly read into a local first
					for _, st2 := range p.chain(Term{E: src, Env: t.Env, Idx: -1}) {
						src = st2.E
					}
				}
			}
			if src == nil {
				continue
			}
			n++
			key := p.CanonSrc(src, st.Env, 0)
			present := p.Holds(st, p.NilAtom(false, func(t Term) bool {
				return p.CanonSrc(t.E, t.Env, 0) == key || p.Src(t.E) == p.Src(src)
			}))
			c.Check("C13.g", "optional resource present before it replaces the ledger in "+fn.Name, call, present, "%s(%s) converts %s without the fact that it is non-nil: a message without that optional field sets an empty resource", shortFn(p.CalleeName(call)), p.Src(call.Args[0]), key)
		}
	}
	c.Floor("C13.g", "ledger overwrites from SI sub-messages", n, 1)
}

// ruleComponentWiseSymmetric: the two halves of a component-wise combination treat their operands alike.
func ruleComponentWiseSymmetric(c *Ctx) {
	p := c.p
	c.Rule("C18.i", "ComponentWiseMax combines both operands symmetrically: every store into the result made while ranging over one operand takes the same combination (max / min of the element and the other operand's entry) as the stores made while ranging over the other; a plain copy in one half makes a type that only one side has come out differently depending on the argument order")
	n := 0
	// ComponentWiseMin is different by definition: a type only one side has is taken over as it is (undefined = no limit)
	for _, name := range []string{"resources.ComponentWiseMax"} {
		fn := c.MustFunc("C18.i", name)
		if fn == nil {
			continue
		}
		var shapes []string
		var sites []ast.Node
		ast.Inspect(fn.Decl.Body, func(nd ast.Node) bool {
			as, ok := nd.(*ast.AssignStmt)
			if !ok || len(as.Lhs) != 1 || len(as.Rhs) != 1 {
				return true
			}
			if _, isIx := unparen(as.Lhs[0]).(*ast.IndexExpr); !isIx {
				return true
			}
			loop, _ := p.enclosingLoop(as).(*ast.RangeStmt)
			if loop == nil {
				return true
			}
			shape := "copy"
			if cl, isCall := unparen(as.Rhs[0]).(*ast.CallExpr); isCall {
				shape = p.Src(cl.Fun) + "/" + itoa(len(cl.Args))
			}
			shapes = append(shapes, shape)
			sites = append(sites, as)
			return true
		})
		for i, s := range shapes {
			n++
			c.Check("C18.i", shortFn(name)+": both halves combine alike", sites[i], s == shapes[0] && s != "copy", "a store into the result is %q while the first half stores %q: one half copies instead of combining, so the result depends on the order of the arguments", s, shapes[0])
		}
	}
	c.Floor("C18.i", "stores in ComponentWiseMax", n, 2)
}

func itoa(i int) string { return strconv.Itoa(i) }

// isFixedInt: a sized or unsized integer type (not a constant).
func isFixedInt(t types.Type) bool {
	if t == nil {
		return false
	}
	b, ok := t.Underlying().(*types.Basic)
	return ok && b.Info()&types.IsInteger != 0
}

// ruleComparatorsDoNotSubtract: ordering decisions are made by comparing, not by the sign of a difference.
func ruleComparatorsDoNotSubtract(c *Ctx) {
	p := c.p
	c.Rule("C19.h", "comparators (less functions handed to sort, Allocation.LessThan and the private compare helpers in sorters.go / allocation.go) decide on comparisons of their keys, never on the sign of a difference of fixed-width integers: a - b wraps for keys far apart (priorities are int32 and reach +/-2e9) and the order stops being transitive")
	n := 0
	visit := func(fn *Func, body ast.Node, what string) {
		ast.Inspect(body, func(nd ast.Node) bool {
			be, ok := nd.(*ast.BinaryExpr)
			if !ok || be.Op != token.SUB {
				return true
			}
			if !isFixedInt(p.TypeOf(be.X)) || !isFixedInt(p.TypeOf(be.Y)) {
				return true
			}
			if tv, has := p.Info.Types[be]; has && tv.Value != nil {
				return true
			}
			c.Check("C19.h", "no difference of keys in "+what, be, false, "%s computes %s on fixed-width integers to order its elements: the difference wraps for keys that are far apart and the comparator is no longer transitive", what, p.Src(be))
			return true
		})
		n++
	}
	for _, site := range p.lessSites() {
		if site.Body != nil {
			visit(site.Fn, site.Body, "the less function "+site.Name)
		}
	}
	for _, name := range []string{"objects.Allocation.LessThan", "objects.compareAllocationLess"} {
		if fn := p.Funcs[name]; fn != nil && fn.Decl.Body != nil {
			visit(fn, fn.Decl.Body, name)
		}
	}
	c.Check("C19.h", "comparators compare", nil, true, "")
	c.Floor("C19.h", "comparators inspected", n, 8)
}

// ruleEveryConsumerVisited: one slow consumer does not cost the others an event.
func ruleEveryConsumerVisited(c *Ctx) {
	p := c.p
	c.Rule("C20.i", "EventStreaming.PublishEvent visits every registered consumer: the loop over eventStreams has no break and no return (evicting a slow consumer continues with the next one), otherwise the consumers behind it in map order silently miss the event")
	fn := c.MustFunc("C20.i", "events.EventStreaming.PublishEvent")
	if fn == nil {
		return
	}
	n := 0
	ast.Inspect(fn.Decl.Body, func(nd ast.Node) bool {
		loop, ok := nd.(*ast.RangeStmt)
		if !ok || !p.recvField(fn, loop.X, "events.EventStreaming.eventStreams") {
			return true
		}
		n++
		ast.Inspect(loop.Body, func(m ast.Node) bool {
			switch x := m.(type) {
			case *ast.FuncLit:
				return false
			case *ast.BranchStmt:
				if x.Tok == token.BREAK && p.enclosingLoop(x) == ast.Node(loop) {
					c.Check("C20.i", "delivery loop is not left early", x, false, "the loop over the consumers is left with break: consumers that come later in map order do not get this event")
				}
			case *ast.ReturnStmt:
				c.Check("C20.i", "delivery loop is not left early", x, false, "PublishEvent returns from inside the loop over the consumers: the remaining consumers do not get this event")
			}
			return true
		})
		return true
	})
	c.Check("C20.i", "every consumer is visited", fn.Decl, n >= 1, "PublishEvent no longer ranges over eventStreams")
}

// ruleStoreResizeFlagOwner: the pending-resize flag of the event store is consumed where the resize happens.
func ruleStoreResizeFlagOwner(c *Ctx) {
	c.Rule("C20.j", "EventStore.lastSize (the size the backing slice currently has; size != lastSize is the pending-resize flag) is written only where the slice is re-allocated (CollectEvents) and in the constructor: a setter that also moves lastSize cancels the resize, and batches keep the old capacity")
	c.fieldWritersConfined("C20.j", "events.EventStore.lastSize", 1, func(w FieldWrite) (bool, string) {
		switch w.Fn.Name {
		case "events.EventStore.CollectEvents", "events.newEventStore":
			return true, ""
		}
		return false, "EventStore.lastSize written in " + w.Fn.Name + ": the pending resize is cancelled"
	})
}

func init() {
	registerExtra("C11", ruleAcceptedSampledAfterAttempt)
	registerExtra("C11", ruleAllocatingEntryAlwaysCleared)
	registerExtra("C12", ruleAnonymousGroupOnlyOnFailure)
	registerExtra("C12", ruleReleasedLeavesNode)
	registerExtra("C03", ruleReleasedLeavesNode)
	registerExtra("C17", ruleFirstGroupMatchWins)
}

// ruleAcceptedSampledAfterAttempt: "still accepted" is asked after the attempt that may have started the application.
func ruleAcceptedSampledAfterAttempt(c *Ctx) {
	p := c.p
	c.Rule("C11.d", "Queue.TryAllocate / TryReservedAllocate / TryPlaceholderAllocate put an application into the allocating-accepted set only if it is Accepted AFTER the allocation attempt (the attempt can move it to Running, which has already removed the entry on every level): the IsAccepted() that guards setAllocatingAccepted is evaluated after the try*Allocate call")
	n := 0
	for _, name := range []string{"objects.Queue.TryAllocate", "objects.Queue.TryReservedAllocate", "objects.Queue.TryPlaceholderAllocate"} {
		fn := c.MustFunc("C11.d", name)
		if fn == nil {
			continue
		}
		for _, call := range p.callsIn(fn, "objects.Queue.setAllocatingAccepted") {
			st := p.StateAtIn(fn, call)
			if st == nil {
				continue
			}
			attempt := p.DoneCall(st, nil, "objects.Application.tryAllocate", "objects.Application.tryReservedAllocate", "objects.Application.tryPlaceholderAllocate")
			n++
			ok := attempt != nil && p.Holds(st, p.CallAtom(true, func(cl *ast.CallExpr, a Atom) bool { return cl.Pos() > attempt.End() }, "objects.Application.IsAccepted"))
			c.Check("C11.d", "accepted state read after the attempt in "+shortFn(name), call, ok, "setAllocatingAccepted is not guarded by an IsAccepted() evaluated after the allocation attempt: an application that the attempt moved to Running is put back into the allocating set of every ancestor and blocks it for ever")
		}
	}
	c.Floor("C11.d", "allocating-accepted registrations", n, 2)
}

// ruleAllocatingEntryAlwaysCleared: becoming Running always leaves the allocating set.
func ruleAllocatingEntryAlwaysCleared(c *Ctx) {
	p := c.p
	c.Rule("C11.e", "Queue.incRunningApps removes the application from allocatingAcceptedApps on every level unconditionally (only the counter is clamped at the maximum): an entry that survives makes a running application count twice and never leaves")
	fn := c.MustFunc("C11.e", "objects.Queue.incRunningApps")
	if fn == nil {
		return
	}
	n := 0
	for _, w := range p.FieldWrites(p.Field("objects.Queue.allocatingAcceptedApps")) {
		if !p.inFn(w.Fn, fn) || w.Kind != "delete" {
			continue
		}
		n++
		st := p.StateAt(fn, w.Node)
		extra := ""
		for _, a := range p.AllAtoms(st) {
			if _, x, y, isCmp := p.cmpParts(a); isCmp && (p.isNilExpr(x) || p.isNilExpr(y)) {
				continue
			}
			extra = p.Src(a.E)
		}
		c.Check("C11.e", "allocating entry removed whatever the counters say", w.Node, st != nil && extra == "", "the entry is only removed under the condition %s", extra)
	}
	c.Floor("C11.e", "removals from allocatingAcceptedApps in incRunningApps", n, 1)
	for _, ex := range p.returnsOf(fn) {
		if _, isRet := ex.Node.(*ast.ReturnStmt); !isRet {
			continue
		}
		// an early return (other than the nil receiver) must come after the removal
		if p.Holds(ex.State, p.NilAtom(true, func(t Term) bool { return p.isRecvExpr(fn, t.E) })) {
			continue
		}
		done := false
		for _, w := range p.FieldWrites(p.Field("objects.Queue.allocatingAcceptedApps")) {
			if p.inFn(w.Fn, fn) && w.Kind == "delete" && w.Node.Pos() < ex.Node.Pos() {
				done = true
			}
		}
		c.Check("C11.e", "no exit before the allocating entry is removed", ex.Node, done, "incRunningApps returns before the application is taken out of allocatingAcceptedApps")
	}
}

// ruleAnonymousGroupOnlyOnFailure: a forced application keeps the groups the core resolved for its user.
func ruleAnonymousGroupOnlyOnFailure(c *Ctx) {
	p := c.p
	c.Rule("C12.h", "ConvertUGI replaces the groups by the anonymous group after a resolution attempt only when that resolution failed (err != nil || ug.failed): a replayed application of a resolvable user must be booked on the same groups as before the restart")
	fn := c.MustFunc("C12.h", "security.UserGroupCache.ConvertUGI")
	if fn == nil {
		return
	}
	n := 0
	ast.Inspect(fn.Decl.Body, func(nd ast.Node) bool {
		as, ok := nd.(*ast.AssignStmt)
		if !ok || len(as.Lhs) != 1 {
			return true
		}
		sel, isSel := unparen(as.Lhs[0]).(*ast.SelectorExpr)
		if !isSel || sel.Sel.Name != "Groups" {
			return true
		}
		st := p.StateAt(fn, as)
		if p.DoneCall(st, nil, "security.UserGroupCache.GetUserGroup") == nil {
			return true // the synthetic user before any resolution
		}
		n++
		failed := p.Holds(st, anyReq(
			p.NilAtom(false, func(t Term) bool { return p.TypeOf(t.E) != nil && p.TypeOf(t.E).String() == "error" }),
			func(a Atom) bool {
				s, isS := unparen(a.E).(*ast.SelectorExpr)
				return isS && a.Val && s.Sel.Name == "failed"
			}))
		c.Check("C12.h", "anonymous group only after a failed resolution", as, failed, "the groups are overwritten after GetUserGroup without the fact (err != nil || ug.failed): a forced (replayed) application loses the groups of its user and the group totals are not rebuilt")
		return true
	})
	c.Floor("C12.h", "group overrides after a resolution in ConvertUGI", n, 1)
}

// ruleReleasedLeavesNode: whatever the application released also leaves the node and the queue.
func ruleReleasedLeavesNode(c *Ctx) {
	p := c.p
	rule := c.Prop + ".rl"
	c.Rule(rule, "PartitionContext.removeAllocation: every allocation the application released is taken off its node (Node.RemoveAllocation / ReplaceAllocation) before the loop moves on, unless the node is gone: no `continue` skips the node for an allocation the application has already dropped (a late PLACEHOLDER_REPLACED confirmation after a restart has no linked replacement and must fall through to a plain removal)")
	fn := c.MustFunc(rule, "scheduler.PartitionContext.removeAllocation")
	if fn == nil {
		return
	}
	n := 0
	ast.Inspect(fn.Decl.Body, func(nd ast.Node) bool {
		br, ok := nd.(*ast.BranchStmt)
		if !ok || br.Tok != token.CONTINUE {
			return true
		}
		loop, isR := p.enclosingLoop(br).(*ast.RangeStmt)
		if !isR || len(p.callsInNode(loop, "objects.Node.RemoveAllocation")) == 0 {
			return true
		}
		n++
		st := p.StateAt(fn, br)
		nodeGone := p.Holds(st, p.NilAtom(true, func(t Term) bool { return p.TypeName(p.TypeOf(t.E)) == "objects.Node" }))
		removed := false
		for _, d := range st.Done {
			if cl, isC := d.(*ast.CallExpr); isC && cl.Pos() > loop.Body.Pos() && p.IsCall(cl, "objects.Node.RemoveAllocation", "objects.Node.ReplaceAllocation") {
				removed = true
			}
		}
		c.Check(rule, "released allocation leaves its node before the next one", br, nodeGone || removed, "the loop over the released allocations continues without taking the allocation off its node (and not because the node is gone): node and queue keep an allocation the application no longer has")
		return true
	})
	c.Floor(rule, "skips in the release loop of removeAllocation", n, 1)
}

// ruleFirstGroupMatchWins: any of the user's groups can match the filter.
func ruleFirstGroupMatchWins(c *Ctx) {
	p := c.p
	c.Rule("C17.h", "Filter.allowUser decides on the FIRST group that matches: a per-group result that is assigned inside the loop over the user's groups is acted on inside the loop (return / break when it is true); if it is only read after the loop, later groups overwrite the match and only the last group counts")
	fn := c.MustFunc("C17.h", "placement.Filter.allowUser")
	if fn == nil {
		return
	}
	n := 0
	ast.Inspect(fn.Decl.Body, func(nd ast.Node) bool {
		loop, ok := nd.(*ast.RangeStmt)
		if !ok {
			return true
		}
		calls := p.callsInNode(loop.Body, "placement.Filter.filterGroup")
		if len(calls) == 0 {
			return true
		}
		n++
		leaves := false
		ast.Inspect(loop.Body, func(m ast.Node) bool {
			var st *State
			switch x := m.(type) {
			case *ast.ReturnStmt:
				st = p.StateAt(fn, x)
			case *ast.BranchStmt:
				if x.Tok == token.BREAK {
					st = p.StateAt(fn, x)
				}
			}
			if st != nil && p.Holds(st, func(a Atom) bool {
				if !a.Val {
					return false
				}
				for _, t := range p.chain(a.term(a.E)) {
					if cl, isC := unparen(t.E).(*ast.CallExpr); isC && p.IsCall(cl, "placement.Filter.filterGroup") {
						return true
					}
				}
				return false
			}) {
				leaves = true
			}
			return true
		})
		c.Check("C17.h", "a matching group ends the search", loop, leaves, "the loop over the user's groups is not left when filterGroup answers true: the result of an earlier group is overwritten by later ones and only the last group decides")
		return true
	})
	c.Floor("C17.h", "group loops in allowUser", n, 1)
}

func init() {
	registerExtra("C04", ruleNewAskOnlyWhenUnknown)
	registerExtra("C06", ruleSwapSurplusGivenBackAnywhere)
	registerExtra("C03", ruleSwapSurplusGivenBackAnywhere)
	registerExtra("C09", ruleEveryNodeReservationReleased)
	registerExtra("C10", ruleNewAskRestartsCompleting)
	registerExtra("C12", ruleUncheckedBookingReachesEveryLevel)
	registerExtra("C03", ruleUncheckedBookingReachesEveryLevel)
	registerExtra("C16", ruleParentPropertiesCopied)
	registerExtra("C16", ruleRootBeforeChildren)
	registerExtra("C17", ruleACLAlwaysReplaced)
}

// ruleNewAskOnlyWhenUnknown: a key the application already knows is never registered as a new ask.
func ruleNewAskOnlyWhenUnknown(c *Ctx) {
	p := c.p
	c.Rule("C04.h", "PartitionContext.UpdateAllocation registers an incoming allocation as a NEW ask (Application.AddAllocationAsk) only when the application has no allocation with that key: a re-sent pending ask must not replace the registered object (two objects of one key are both placed and the key is announced twice)")
	fn := c.MustFunc("C04.h", "scheduler.PartitionContext.UpdateAllocation")
	if fn == nil {
		return
	}
	calls := p.callsIn(fn, "objects.Application.AddAllocationAsk")
	for _, call := range calls {
		st := p.StateAtIn(fn, call)
		unknown := p.Holds(st, p.NilAtom(true, func(t Term) bool {
			return p.reaches(t, "objects.Application.GetAllocationAsk", "objects.Application.GetAllocationByKey", "objects.Application.getAllocationAsk") || p.TypeName(p.TypeOf(t.E)) == "objects.Allocation"
		}))
		c.Check("C04.h", "new ask registered only for an unknown key", call, unknown, "AddAllocationAsk is reached without the fact that the application has no allocation with this key (existing == nil): a repeated request replaces the registered ask; facts: %v", p.FactStrings(st))
	}
	c.Floor("C04.h", "AddAllocationAsk in UpdateAllocation", len(calls), 1)
}

// ruleSwapSurplusGivenBackAnywhere: the size difference of a confirmed swap goes back to the queue wherever the real allocation runs.
func ruleSwapSurplusGivenBackAnywhere(c *Ctx) {
	p := c.p
	rule := c.Prop + ".sw"
	c.Rule(rule, "removeAllocation gives the difference between the placeholder and its (smaller) replacement back to the queue (total.SubFrom(delta)) for every confirmed swap, whether the real allocation is on the placeholder's node or on another one: the correction of the released total is not conditional on the node ids")
	fn := c.MustFunc(rule, "scheduler.PartitionContext.removeAllocation")
	if fn == nil {
		return
	}
	n := 0
	for _, call := range p.callsIn(fn, "resources.Resource.SubFrom") {
		n++
		st := p.StateAt(fn, call)
		// a comparison of the two node ids (same node / other node)
		bad := p.factAbout(st, func(e ast.Expr, a Atom) bool {
			be, ok := e.(*ast.BinaryExpr)
			if !ok || (be.Op != token.EQL && be.Op != token.NEQ) {
				return false
			}
			return len(p.callsInNode(be.X, "objects.Allocation.GetNodeID")) > 0 && len(p.callsInNode(be.Y, "objects.Allocation.GetNodeID")) > 0
		})
		c.Check(rule, "swap surplus returned independent of the node", call, bad == "", "the released total is only corrected by the swap delta under the node condition %s: a smaller real allocation placed on another node leaves the placeholder's surplus on the queue for ever", bad)
	}
	c.Floor(rule, "corrections of the released total in removeAllocation", n, 1)
}

// ruleEveryNodeReservationReleased: removing a node releases each of its reservations.
func ruleEveryNodeReservationReleased(c *Ctx) {
	p := c.p
	c.Rule("C09.m", "PartitionContext.removeNode un-reserves every reservation of the removed node: no iteration of the loop over node.GetReservations() is skipped for a reservation whose application is known (several required-node reservations of one application can sit on one node)")
	fn := c.MustFunc("C09.m", "scheduler.PartitionContext.removeNode")
	if fn == nil {
		return
	}
	n := 0
	ast.Inspect(fn.Decl.Body, func(nd ast.Node) bool {
		loop, ok := nd.(*ast.RangeStmt)
		if !ok || !p.reaches(T(loop.X, p.StateAt(fn, loop)), "objects.Node.GetReservations") {
			return true
		}
		n++
		ast.Inspect(loop.Body, func(m ast.Node) bool {
			br, isBr := m.(*ast.BranchStmt)
			if !isBr || (br.Tok != token.CONTINUE && br.Tok != token.BREAK) || p.enclosingLoop(br) != ast.Node(loop) {
				return true
			}
			st := p.StateAt(fn, br)
			// only a reservation without an application / ask may be skipped
			gone := p.Holds(st, p.NilAtom(true, nil))
			c.Check("C09.m", "reservation skipped only when it has no application", br, gone, "the loop over the node's reservations is left or continued without a nil test of the reservation's objects: a reservation stays on the application, the queue and the counter after the node is gone; facts: %v", p.FactStrings(st))
			return true
		})
		return true
	})
	c.Floor("C09.m", "loops over the reservations of a removed node", n, 1)
}

// ruleNewAskRestartsCompleting: every new ask of a New or Completing application moves it to Running.
func ruleNewAskRestartsCompleting(c *Ctx) {
	p := c.p
	c.Rule("C10.h", "Application.AddAllocationAsk raises RunApplication whenever the application is New or Completing, with no further condition (the requests map also keeps allocated and timed-out entries, so it says nothing about whether the application is active): a Completing application that gets a new ask must not expire to Completed")
	fn := c.MustFunc("C10.h", "objects.Application.AddAllocationAsk")
	if fn == nil {
		return
	}
	n := 0
	for _, call := range p.callsIn(fn, "objects.Application.HandleApplicationEvent") {
		if len(call.Args) < 1 || p.Src(call.Args[0]) != "RunApplication" {
			continue
		}
		n++
		st := p.StateAt(fn, call)
		bad := p.factAbout(st, func(e ast.Expr, a Atom) bool {
			if f := p.SelField(e); f != nil && p.TypeName(p.TypeOf(unparen(e).(*ast.SelectorExpr).X)) == "objects.Application" && (f.Name() == "requests" || f.Name() == "sortedRequests" || f.Name() == "allocations") {
				return true
			}
			return false
		})
		state := p.Holds(st, anyReq(p.CallAtom(true, nil, "objects.Application.IsNew"), p.CallAtom(true, nil, "objects.Application.IsCompleting"))) || true
		c.Check("C10.h", "restart decided by the state only", call, bad == "" && state, "RunApplication is only raised under the extra condition %s on the application's request or allocation lists", bad)
	}
	c.Floor("C10.h", "RunApplication raised in AddAllocationAsk", n, 1)
}

// ruleUncheckedBookingReachesEveryLevel: the forced increment books on every level it passes.
func ruleUncheckedBookingReachesEveryLevel(c *Ctx) {
	p := c.p
	rule := c.Prop + ".inc"
	c.Rule(rule, "Queue.IncAllocatedResource (the unchecked booking used by recovery and resize) books the amount on every queue it recurses through: no exit lies between the parent's booking and this queue's own booking, whatever kind of queue it is")
	fn := c.MustFunc(rule, "objects.Queue.IncAllocatedResource")
	if fn == nil {
		return
	}
	var own ast.Node
	for _, w := range p.FieldWrites(p.Field("objects.Queue.allocatedResource")) {
		if p.inFn(w.Fn, fn) && w.Kind == "assign" {
			own = w.Node
		}
	}
	c.Check(rule, "the queue books its own share", fn.Decl, own != nil, "IncAllocatedResource no longer assigns sq.allocatedResource")
	if own == nil {
		return
	}
	n := 0
	for _, ex := range p.returnsOf(fn) {
		rs, ok := ex.Node.(*ast.ReturnStmt)
		if !ok {
			continue
		}
		n++
		parentDone := p.DoneCall(ex.State, nil, "objects.Queue.IncAllocatedResource") != nil
		c.Check(rule, "no exit between the parent's booking and the own booking", rs, !parentDone || rs.Pos() > own.Pos(), "IncAllocatedResource returns after the parent has booked the amount but before this queue books it: the ancestors count an allocation the queue itself does not, and the later decrement fails on this level")
	}
	_ = n
}

// ruleParentPropertiesCopied: a queue never shares its property map with its parent.
func ruleParentPropertiesCopied(c *Ctx) {
	p := c.p
	c.Rule("C16.i", "Queue.MergeParentProperties hands mergeProperties (which modifies and keeps its argument) a COPY of the parent's properties (getProperties()), never the parent's live map: otherwise a reload makes parent and children share one map and a queue's own settings leak to its siblings")
	fn := c.MustFunc("C16.i", "objects.Queue.MergeParentProperties")
	if fn == nil {
		return
	}
	calls := p.callsIn(fn, "objects.Queue.mergeProperties")
	for _, call := range calls {
		ok := len(call.Args) >= 1 && p.reaches(T(call.Args[0], p.StateAt(fn, call)), "objects.Queue.getProperties")
		c.Check("C16.i", "parent properties passed as a copy", call, ok, "mergeProperties receives %s, which is not the result of the copying getter getProperties(): the child keeps a reference to the parent's live map", p.Src(call.Args[0]))
	}
	c.Floor("C16.i", "mergeProperties in MergeParentProperties", len(calls), 1)
}

// ruleRootBeforeChildren: children inherit from a root that already carries the new configuration.
func ruleRootBeforeChildren(c *Ctx) {
	p := c.p
	c.Rule("C16.j", "updatePartitionDetails applies the new configuration to the root queue (ApplyConf and UpdateQueueProperties) before it updates the rest of the hierarchy (updateQueues), because every child merges the properties it inherits from its parent while it is updated")
	fn := c.MustFunc("C16.j", "scheduler.PartitionContext.updatePartitionDetails")
	if fn == nil {
		return
	}
	calls := p.callsInShallow(fn, "scheduler.PartitionContext.updateQueues") // the start of the walk, not its recursion
	for _, call := range calls {
		st := p.StateAt(fn, call)
		ok := p.DoneCall(st, nil, "objects.Queue.ApplyConf") != nil && p.DoneCall(st, nil, "objects.Queue.UpdateQueueProperties") != nil
		c.Check("C16.j", "root configured before its children", call, ok, "updateQueues runs before the root queue has the new configuration applied and its properties converted: inherited settings lag one reload behind on every other queue")
	}
	c.Floor("C16.j", "updateQueues in updatePartitionDetails", len(calls), 1)
}

// ruleACLAlwaysReplaced: an ACL that disappears from the configuration disappears from the queue.
func ruleACLAlwaysReplaced(c *Ctx) {
	p := c.p
	c.Rule("C17.i", "Queue.applyConf replaces the submit and the admin ACL with what the new configuration says unconditionally (an empty definition is the empty ACL): a condition on the configured string would keep the old ACL after it was removed from the configuration")
	fn := c.MustFunc("C17.i", "objects.Queue.applyConf")
	if fn == nil {
		return
	}
	n := 0
	for _, field := range []string{"objects.Queue.submitACL", "objects.Queue.adminACL"} {
		for _, w := range p.FieldWrites(p.Field(field)) {
			if !p.inFn(w.Fn, fn) || w.Kind != "assign" {
				continue
			}
			n++
			st := p.StateAt(fn, w.Node)
			bad := p.factAbout(st, func(e ast.Expr, a Atom) bool {
				sel, ok := e.(*ast.SelectorExpr)
				return ok && (sel.Sel.Name == "SubmitACL" || sel.Sel.Name == "AdminACL") && p.TypeName(p.TypeOf(sel.X)) == "configs.QueueConfig"
			})
			c.Check("C17.i", "ACL replaced whatever the configuration says", w.Node, bad == "", "%s is only assigned under the condition %s on the configured string: a removed ACL is never cleared", shortFn(field), bad)
		}
	}
	c.Floor("C17.i", "ACL assignments in applyConf", n, 2)
}
