package main

import (
	"go/ast"
	"sort"
	"strings"
)

// C14 — concurrency: lock discipline (structural half).

func init() { register("C14", rulesC14) }

// packages whose lock-bearing structs are in scope of C14.a
var c14Scope = map[string]bool{
	"scheduler": true, "objects": true, "ugm": true, "events": true, "placement": true, "security": true,
	"rmproxy": true, "resources": true, "configs": true, "webservice": true, "plugins": true, "history": true, "metrics": true,
}

func pkgOfStruct(name string) string {
	if i := strings.LastIndex(name, "."); i >= 0 {
		n := name[:i]
		if j := strings.LastIndex(n, "/"); j >= 0 {
			n = n[j+1:]
		}
		return n
	}
	return name
}

func rulesC14(c *Ctx) {
	p := c.p
	la := p.Locks()
	c.NotDecided("freedom from ALL data races (atomics, channel protocols, aliasing between differently named expressions of the same object)",
		"liveness: goroutine leaks, blocked channel operations",
		"that the capacity/quota/accounting invariants hold once the system settles (they are the subject of C01-C09, whose checks assume this lock discipline)",
		"ordering between two locks of the same type reached through transitive calls (e.g. two applications during preemption)")
	c.Assume("lock identity is syntactic: the owner expression's source text; an owner whose root variable is reassigned is treated as unlocked",
		"function literals passed as call arguments run synchronously (iterators, sort, Once.Do) except for time.AfterFunc and `go`; literals stored in variables or fields start with no lock held",
		"objects created in a function (composite literal, new, new*/create* constructor) are unpublished until the function returns",
		"FSM callbacks of objects.callbacks() run inside stateMachine.Event, whose call sites are checked to hold the application lock (C14.a-fsm)",
		"interface and function-value calls are opaque for requires-lock propagation (plugin callbacks, event handlers)")

	// ------------------------------------------------------------- C14.a guarded fields
	c.Rule("C14.a", "for every lock-bearing struct, every field written outside construction is accessed only with the owner's lock held (exclusively for writes); a function that accesses a field of its receiver/parameter without locking requires the lock from ALL its static callers (fixpoint); obligations that end at a caller without the lock are violations")
	// exceptions: aliases and start-up phases the syntactic lock identity cannot see (one construct each)
	c.Except("C14.a", "objects.Application.queue read in objects.PreemptionContext.tryPreemption", "p.application is the application whose tryReservedAllocate (lock held) created this preemptor and calls it synchronously; alias of the locked `sa`")
	c.Except("C14.a", "objects.Application.queue read in objects.PreemptionContext.tryPreemption#2", "same alias as above (log statement)")
	c.Except("C14.a", "security.UserGroupCache.ugs write in security.GetUserGroupCache", "inside once.Do before the cleaner goroutine is started: construction of the singleton")
	c.Except("C14.a", "security.UserGroupCache.ugs read in security.UserGroupCache.cleanUpCache", "c is the singleton `instance`; the function locks instance.lock (alias)")
	c.Except("C14.a", "security.UserGroupCache.ugs write in security.UserGroupCache.cleanUpCache", "c is the singleton `instance`; the function locks instance.lock (alias)")
	c.Except("C14.a", "security.UserGroupCache.ugs write in security.UserGroupCache.resetCache", "test-only helper; c is the singleton `instance` whose lock is taken (alias)")
	c.Except("C14.a", "scheduler.ClusterContext.rmEventHandler write in scheduler.ClusterContext.setEventHandler", "called once from Scheduler.StartService before any event-handling goroutine is started")
	c.Except("C14.a", "scheduler.PartitionContext.stateMachine write in scheduler.PartitionContext.handlePartitionEvent", "only reached from markPartitionForRemoval, which has no non-test caller (dead code in production); the partition FSM is internally synchronised")
	c.Except("C14.a", "ugm.UserTracker.queueTracker read in ugm.Manager.GetUserResources", "documented 'should only be used in tests'; no production caller (checked by C14.a-testonly)")
	c.Except("C14.a", "ugm.GroupTracker.queueTracker read in ugm.Manager.GetGroupResources", "documented 'should only be used in tests'; no production caller (checked by C14.a-testonly)")
	c.Except("C14.a", "scheduler.PartitionContext.stateTime write in scheduler.PartitionContext.handlePartitionEvent", "only reached from markPartitionForRemoval, which has no non-test caller (dead code in production)")

	type key struct{ s, f string }
	nAcc, nStructs := 0, 0
	for _, name := range la.sortedStructNames() {
		ls := la.structs[name]
		if !c14Scope[pkgOfStruct(name)] || len(ls.Guarded) == 0 {
			continue
		}
		nStructs++
	}
	accs := append([]*lockAccess(nil), la.accesses...)
	sort.SliceStable(accs, func(i, j int) bool { return accs[i].Node.Pos() < accs[j].Node.Pos() })
	// ClusterContext.rmEventHandler is written once at start-up (exception above); reads of it are then reads of an immutable field
	startupOnly := map[string]bool{"scheduler.ClusterContext.rmEventHandler": true}
	for _, a := range accs {
		if !c14Scope[pkgOfStruct(a.Struct.Name)] {
			continue
		}
		fieldName := a.Struct.Name + "." + a.Field.Name()
		if startupOnly[fieldName] && !a.Write {
			continue
		}
		nAcc++
		kind := "read"
		if a.Write {
			kind = "write"
		}
		k := fieldName + " " + kind + " in " + a.Fn.Name
		switch a.Status {
		case "held", "fresh":
			c.Check("C14.a", k, a.Node, true, "")
		case "requires":
			c.Check("C14.a", k, a.Node, len(a.Failed) == 0, "%s of %s without the owner's lock; the obligation moved to the callers and is not met at: %s", kind, fieldName, strings.Join(dedup(a.Failed), "; "))
		default:
			why := a.Why
			if why == "" {
				why = "the owner expression " + p.Src(a.Owner) + " is neither locked here nor a parameter whose callers could lock it"
			}
			c.Check("C14.a", k, a.Node, false, "%s of %s without the owner's lock (held level %d): %s", kind, fieldName, a.Held, why)
		}
	}
	c.Floor("C14.a", "lock-bearing structs with guarded fields in scope", nStructs, 20)
	c.Floor("C14.a", "guarded field accesses analysed", nAcc, 900)

	// the scheduler-relevant structs must still be recognised as lock-bearing with their key fields guarded
	for _, want := range []key{
		{"objects.Queue", "allocatedResource"}, {"objects.Queue", "pending"}, {"objects.Queue", "children"}, {"objects.Queue", "applications"},
		{"objects.Queue", "maxResource"}, {"objects.Queue", "runningApps"}, {"objects.Queue", "preemptingResource"},
		{"objects.Application", "allocations"}, {"objects.Application", "requests"}, {"objects.Application", "pending"}, {"objects.Application", "allocatedResource"},
		{"objects.Application", "reservations"}, {"objects.Application", "queue"},
		{"objects.Node", "allocatedResource"}, {"objects.Node", "availableResource"}, {"objects.Node", "allocations"}, {"objects.Node", "reservations"}, {"objects.Node", "schedulable"},
		{"objects.Allocation", "allocated"}, {"objects.Allocation", "released"}, {"objects.Allocation", "preempted"}, {"objects.Allocation", "nodeID"},
		{"scheduler.PartitionContext", "applications"}, {"scheduler.PartitionContext", "allocations"}, {"scheduler.PartitionContext", "reservations"},
		{"scheduler.ClusterContext", "partitions"},
		{"ugm.Manager", "userTrackers"}, {"ugm.Manager", "groupTrackers"}, {"ugm.UserTracker", "appGroupTrackers"},
		{"events.eventRingBuffer", "head"}, {"events.eventRingBuffer", "id"}, {"events.EventStore", "idx"}, {"events.EventStreaming", "eventStreams"},
		{"objects.baseNodeCollection", "nodes"},
	} {
		ls := la.structs[want.s]
		ok := false
		if ls != nil {
			for f := range ls.Guarded {
				if f.Name() == want.f {
					ok = true
				}
			}
		}
		c.Check("C14.a", "guarded: "+want.s+"."+want.f, nil, ok, "%s.%s is no longer recognised as a lock-guarded field (struct lost its lock, or the field is gone): the discipline cannot be checked", want.s, want.f)
	}

	// FSM refinement: stateMachine.Event on an application only with the application lock held, passing it
	c.Rule("C14.a-fsm", "Application.stateMachine.Event counts as a write of the application (checked by C14.a like any guarded write, so every caller chain must hold the application lock exclusively) and passes the application as first argument (the FSM callbacks rely on it)")
	nEv := 0
	for _, fn := range p.funcs {
		if fn.Decl.Body == nil {
			continue
		}
		ast.Inspect(fn.Decl.Body, func(n ast.Node) bool {
			call, ok := n.(*ast.CallExpr)
			if !ok {
				return true
			}
			sel, ok := unparen(call.Fun).(*ast.SelectorExpr)
			if !ok || sel.Sel.Name != "Event" {
				return true
			}
			base, ok := p.fieldSel(sel.X, "objects.Application.stateMachine")
			if !ok {
				return true
			}
			nEv++
			passes := len(call.Args) >= 3 && p.Src(call.Args[2]) == p.Src(base)
			c.Check("C14.a-fsm", "app passed to stateMachine.Event in "+fn.Name, call, passes, "the application itself must be the first event argument (callbacks use event.Args[0])")
			return true
		})
	}
	c.Floor("C14.a-fsm", "stateMachine.Event call sites on Application", nEv, 2)

	// test-only setters must not have production callers
	c.Rule("C14.a-testonly", "setters excluded from the guarded-field inference because they exist for tests have no non-test caller")
	testOnly := map[string]string{"ugm.UserTracker.getTrackedApplications": "test-only accessor (exception in C14.e)", "ugm.GroupTracker.getTrackedApplications": "test-only accessor (exception in C14.e)",
		"ugm.Manager.GetUserResources": "test-only reader (exception in C14.a)", "ugm.Manager.GetGroupResources": "test-only reader (exception in C14.a)",
		"scheduler.PartitionContext.markPartitionForRemoval": "dead code (exception in C14.a for handlePartitionEvent)"}
	for k, v := range lockTestOnly {
		testOnly[k] = v
	}
	for name, why := range testOnly {
		fn := c.MustFunc("C14.a-testonly", name)
		if fn == nil {
			continue
		}
		sites := p.CallSites(fn.Obj)
		c.Check("C14.a-testonly", "no production caller of "+name, fn.Decl, len(sites) == 0, "%s is called from production code (%d sites) although it is excluded as: %s", name, len(sites), why)
	}

	// ------------------------------------------------------------- C14.b pairing
	c.Rule("C14.b", "every Lock/RLock is released on every path (explicitly or by a deferred unlock); no Unlock of a lock that is not held; no RLock->Lock upgrade or re-lock of a held lock in one function; no call, while a lock is held, of a function that itself takes the same object's lock, read or write (non-reentrant RWMutex: a nested RLock deadlocks as soon as a writer queues between the two)")
	nOps := 0
	for _, fn := range p.funcs {
		lf := la.funcs[fn]
		if lf == nil {
			continue
		}
		ast.Inspect(fn.Decl.Body, func(n ast.Node) bool {
			if call, ok := n.(*ast.CallExpr); ok {
				if op, _ := p.lockOp(call); op != "" {
					nOps++
				}
			}
			return true
		})
		for _, e := range lf.events {
			c.Check("C14.b", e.Kind+" "+e.Owner+" in "+fn.Name, e.Node, false, "lock pairing: %s of %s", e.Kind, e.Owner)
		}
		if len(lf.events) == 0 {
			c.Touch(fn)
		}
	}
	c.Check("C14.b", "pairing analysed on all functions", nil, true, "")
	c.Floor("C14.b", "lock operations analysed", nOps, 600)
	for _, r := range la.Reentrancy() {
		c.Check("C14.b", "re-entry "+r.Callee.Name+" from "+r.Caller.Name, r.Call, false, "%s takes the lock of %s (level %d) which %s already holds (level %d): self-deadlock on a non-reentrant RWMutex", r.Callee.Name, r.Owner, r.Takes, r.Caller.Name, r.Held)
	}
	c.Check("C14.b", "no re-entrant acquisition", nil, true, "")

	// ------------------------------------------------------------- C14.e no live reference escapes the lock
	c.Rule("C14.e", "no function hands out (returns) a lock-guarded field whose content is changed in place under the lock: the resource/map/slice behind the reference would be read by the caller without the lock while a writer mutates it (fields that are only ever replaced as a whole are immutable snapshots and may be returned)")
	c.Except("C14.e", "ugm.UserTracker.appGroupTrackers returned by ugm.UserTracker.getTrackedApplications", "test-only accessor: no production caller (C14.a-testonly)")
	c.Except("C14.e", "ugm.GroupTracker.applications returned by ugm.GroupTracker.getTrackedApplications", "test-only accessor: no production caller (C14.a-testonly)")
	nRet := 0
	for _, fn := range p.funcs {
		if fn.Decl.Body == nil {
			continue
		}
		ast.Inspect(fn.Decl.Body, func(n ast.Node) bool {
			rs, ok := n.(*ast.ReturnStmt)
			if !ok {
				return true
			}
			for _, r := range rs.Results {
				f := p.SelField(r)
				if f == nil {
					continue
				}
				ls := la.byField[f]
				if ls == nil || !ls.Guarded[f] || !c14Scope[pkgOfStruct(ls.Name)] {
					continue
				}
				why := ""
				if ls.PtrMutated[f] {
					why = "the object it points to is mutated in place (AddTo/SubFrom/... under the lock)"
				} else if ex, has := ls.ContentMut[f]; has {
					why = "its elements are changed in place, e.g. at " + ex
				}
				sel, _ := unparen(r).(*ast.SelectorExpr)
				if sel != nil && la.underConstruction(fn, sel.X) {
					continue
				}
				nRet++
				name := ls.Name + "." + f.Name()
				if why == "" {
					c.Check("C14.e", name+" returned by "+fn.Name, rs, true, "")
					continue
				}
				// unexported helpers whose callers hold the lock are covered by C14.a (requires-lock): only
				// functions that take the lock themselves (and so release it before the caller uses the value)
				// or exported accessors leak
				lf := la.funcs[fn]
				_, requires := lf.requires[-1]
				c.Check("C14.e", name+" returned by "+fn.Name, rs, requires, "%s returns the live %s although %s: callers read it after the lock is released", fn.Name, name, why)
			}
			return true
		})
	}
	c.Floor("C14.e", "returns of guarded fields analysed", nRet, 40)

	// ------------------------------------------------------------- C14.c lock order
	c.Rule("C14.c", "the type-level acquired-while-held graph (lock of type B taken, directly or through static calls and module implementations of interface methods, while a lock of type A is certainly held) has no cycle between different types; a second lock of the SAME type is only taken towards the parent (x.parent while holding x)")
	edges := la.TypeEdges()
	nEdges := 0
	adj := map[string][]string{}
	for a, m := range edges {
		for b := range m {
			if a == b || strings.HasPrefix(b, "locking.") || strings.HasPrefix(a, "locking.") {
				continue
			}
			adj[a] = append(adj[a], b)
			nEdges++
		}
	}
	for _, scc := range sccs(adj) {
		if len(scc) > 1 {
			sort.Strings(scc)
			ex := ""
			for _, a := range scc {
				for _, b := range scc {
					if e, ok := edges[a][b]; ok && a != b {
						ex += " [" + a + " -> " + b + ": " + e + "]"
					}
				}
			}
			c.Check("C14.c", "lock-order cycle "+strings.Join(scc, ","), nil, false, "lock types are acquired in both orders:%s", ex)
		}
	}
	c.Check("C14.c", "type-level lock graph is acyclic", nil, true, "")
	c.Floor("C14.c", "type-level acquired-while-held edges", nEdges, 40)
	for _, want := range [][2]string{{"scheduler.ClusterContext", "scheduler.PartitionContext"}, {"scheduler.PartitionContext", "objects.Queue"},
		{"scheduler.PartitionContext", "objects.Application"}, {"objects.Application", "objects.Queue"}, {"objects.Application", "objects.Node"},
		{"objects.baseNodeCollection", "objects.Node"}, {"ugm.Manager", "ugm.UserTracker"}} {
		_, ok := edges[want[0]][want[1]]
		c.Check("C14.c", "known edge "+want[0]+" -> "+want[1], nil, ok, "the analysis no longer sees that %s locks are held while %s locks are taken: the graph would be incomplete", want[0], want[1])
	}
	nSame := 0
	for _, s := range la.SameTypeSites() {
		nSame++
		up := s.Other == s.Held+".parent"
		c.Check("C14.c", "same-type nesting in "+s.Fn.Name, s.Call, up, "while holding the %s lock of %s the lock of %s is taken: only the direction child -> parent (x.parent) is used elsewhere; the opposite direction can deadlock against it", s.Type, s.Held, s.Other)
	}
	c.Floor("C14.c", "same-type nested acquisitions (Queue child -> parent)", nSame, 3)

	// ------------------------------------------------------------- C14.d listeners
	c.Rule("C14.d", "Node.notifyListeners (-> NodeUpdated -> collection lock -> node read lock) is never executed while the node's own lock is held, including through defer ordering")
	nl := c.MustFunc("C14.d", "objects.Node.notifyListeners")
	if nl != nil {
		sites := p.CallSites(nl.Obj)
		for _, cs := range sites {
			lf := la.funcs[cs.Caller]
			held := 0
			if r := Recv(cs.Call); r != nil && lf != nil {
				if st := lf.stateAt(cs.Call); st != nil {
					held = st[ownerKey(r)]
				}
			}
			c.Check("C14.d", "notifyListeners in "+cs.Caller.Name, cs.Call, held == 0, "notifyListeners is called (or its defer is registered) while the node lock is held: the listener takes the collection lock and then the node read lock (self-deadlock / lock-order inversion with baseNodeCollection -> Node)")
		}
		c.Floor("C14.d", "notifyListeners call sites", len(sites), 5)
		// and it must not require the node lock itself beyond what it takes
		if lf := la.funcs[nl]; lf != nil {
			_, req := lf.requires[-1]
			c.Check("C14.d", "notifyListeners takes its own read lock", nl.Decl, !req, "notifyListeners reads node fields without locking: callers would have to hold the node lock, contradicting C14.d")
		}
	}
}

func dedup(in []string) []string {
	seen := map[string]bool{}
	var out []string
	for _, s := range in {
		if !seen[s] {
			seen[s] = true
			out = append(out, s)
		}
	}
	sort.Strings(out)
	if len(out) > 6 {
		out = append(out[:6], "...")
	}
	return out
}

// sccs: Tarjan strongly connected components.
func sccs(adj map[string][]string) [][]string {
	index := map[string]int{}
	low := map[string]int{}
	on := map[string]bool{}
	var stack []string
	var out [][]string
	idx := 0
	var nodes []string
	seen := map[string]bool{}
	for a, bs := range adj {
		if !seen[a] {
			seen[a] = true
			nodes = append(nodes, a)
		}
		for _, b := range bs {
			if !seen[b] {
				seen[b] = true
				nodes = append(nodes, b)
			}
		}
	}
	sort.Strings(nodes)
	var strong func(v string)
	strong = func(v string) {
		index[v] = idx
		low[v] = idx
		idx++
		stack = append(stack, v)
		on[v] = true
		for _, w := range adj[v] {
			if _, ok := index[w]; !ok {
				strong(w)
				if low[w] < low[v] {
					low[v] = low[w]
				}
			} else if on[w] && index[w] < low[v] {
				low[v] = index[w]
			}
		}
		if low[v] == index[v] {
			var comp []string
			for {
				w := stack[len(stack)-1]
				stack = stack[:len(stack)-1]
				on[w] = false
				comp = append(comp, w)
				if w == v {
					break
				}
			}
			out = append(out, comp)
		}
	}
	for _, v := range nodes {
		if _, ok := index[v]; !ok {
			strong(v)
		}
	}
	return out
}
