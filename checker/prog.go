package main

// Loader, index and naming. Everything is resolved through go/types objects,
// never through text.

import (
	"fmt"
	"go/ast"
	"go/token"
	"go/types"
	"os"
	"sort"
	"strings"

	"golang.org/x/tools/go/packages"
	"golang.org/x/tools/go/types/typeutil"
)

const modPath = "github.com/apache/yunikorn-core"

type Func struct {
	Name string // canonical short name, e.g. objects.Node.TryAddAllocation
	Obj  *types.Func
	Decl *ast.FuncDecl
	Pkg  *packages.Package
	File *ast.File
}

type CallSite struct {
	Caller *Func
	Call   *ast.CallExpr
	InLit  *ast.FuncLit // innermost enclosing function literal, if any
}

type Prog struct {
	Dir     string
	Fset    *token.FileSet
	All     []*packages.Package // every package incl. dependencies
	Pkgs    []*packages.Package // packages of the module (non-test)
	Info    *types.Info         // merged info of module packages
	Funcs   map[string]*Func
	FuncOf  map[*types.Func]*Func
	funcs   []*Func // sorted by position for enclosing lookups
	pkgName map[string]string
	calls   map[*types.Func][]CallSite
	walks   map[*Func]*walkResult
	fileOf  map[string]*ast.File
	parents map[*ast.File]map[ast.Node]ast.Node
	ssa     *ssaState
	initial []*packages.Package

	neverNilFn        map[*Func]bool
	helperOf          map[*Func]*helperSite
	localAlias        map[types.Object]string
	fieldAlias        map[*types.Var]string
	fieldByOld        map[string]*types.Var
	delegated         []string
	standsForExported map[*Func]bool
	localAliasByPos   map[token.Pos]string
	wrapCache         map[*Func][]ast.Expr
	wrapEnv           map[*Func]*Env
	freshFn           map[*Func]int
	predCacheK        map[predKey]*predSummary
	baselineKnown     map[string]bool   // unexported function names of the tree the rules were written for
	sharedHelpers     map[*Func][]*Func // caller -> private helpers with several call sites it calls
	predCache         map[*Func]*predSummary
	alias             map[*types.Func]string // renamed unexported functions: object -> baseline canonical name
	renamed           map[string]string      // baseline name -> current name
	inWalk            map[*Func]bool
	holdsState        *State // state of the Holds query in progress (for pruning join alternatives)
}

func loadProg(dir string) (*Prog, error) {
	cfg := &packages.Config{
		Mode:  packages.LoadAllSyntax,
		Dir:   dir,
		Tests: false,
		Env:   append(os.Environ(), "GOWORK=off"),
	}
	pkgs, err := packages.Load(cfg, "./...")
	if err != nil {
		return nil, err
	}
	p := &Prog{Dir: dir, Funcs: map[string]*Func{}, FuncOf: map[*types.Func]*Func{},
		calls: map[*types.Func][]CallSite{}, walks: map[*Func]*walkResult{},
		fileOf: map[string]*ast.File{}, parents: map[*ast.File]map[ast.Node]ast.Node{}}
	p.Info = &types.Info{
		Types:      map[ast.Expr]types.TypeAndValue{},
		Defs:       map[*ast.Ident]types.Object{},
		Uses:       map[*ast.Ident]types.Object{},
		Selections: map[*ast.SelectorExpr]*types.Selection{},
		Implicits:  map[ast.Node]types.Object{},
		Scopes:     map[ast.Node]*types.Scope{},
		Instances:  map[*ast.Ident]types.Instance{},
	}
	p.initial = pkgs
	var nerr int
	packages.Visit(pkgs, nil, func(pk *packages.Package) {
		p.All = append(p.All, pk)
		if strings.HasPrefix(pk.PkgPath, modPath) {
			for _, e := range pk.Errors {
				fmt.Fprintf(os.Stderr, "load error: %v\n", e)
				nerr++
			}
		}
	})
	if nerr > 0 {
		return nil, fmt.Errorf("%d type/load errors in module packages", nerr)
	}
	for _, pk := range pkgs {
		if !strings.HasPrefix(pk.PkgPath, modPath) {
			continue
		}
		p.Pkgs = append(p.Pkgs, pk)
		if p.Fset == nil {
			p.Fset = pk.Fset
		}
	}
	if len(p.Pkgs) < 25 {
		return nil, fmt.Errorf("only %d module packages loaded (floor 25)", len(p.Pkgs))
	}
	sort.Slice(p.Pkgs, func(i, j int) bool { return p.Pkgs[i].PkgPath < p.Pkgs[j].PkgPath })
	// short package names
	p.pkgName = map[string]string{}
	count := map[string]int{}
	for _, pk := range p.Pkgs {
		count[lastElem(pk.PkgPath)]++
	}
	for _, pk := range p.Pkgs {
		l := lastElem(pk.PkgPath)
		if count[l] > 1 {
			rel := strings.TrimPrefix(pk.PkgPath, modPath+"/pkg/")
			parts := strings.Split(rel, "/")
			if len(parts) >= 2 && rel != l {
				l = parts[len(parts)-2] + "/" + parts[len(parts)-1]
			}
		}
		p.pkgName[pk.PkgPath] = l
	}
	for _, pk := range p.Pkgs {
		ti := pk.TypesInfo
		for k, v := range ti.Types {
			p.Info.Types[k] = v
		}
		for k, v := range ti.Defs {
			p.Info.Defs[k] = v
		}
		for k, v := range ti.Uses {
			p.Info.Uses[k] = v
		}
		for k, v := range ti.Selections {
			p.Info.Selections[k] = v
		}
		for k, v := range ti.Implicits {
			p.Info.Implicits[k] = v
		}
		for k, v := range ti.Scopes {
			p.Info.Scopes[k] = v
		}
		for k, v := range ti.Instances {
			p.Info.Instances[k] = v
		}
		for _, f := range pk.Syntax {
			fname := p.Fset.Position(f.Pos()).Filename
			if strings.HasSuffix(fname, "_test.go") {
				continue
			}
			p.fileOf[fname] = f
			for _, cg := range f.Comments {
				for _, c := range cg.List {
					if strings.HasPrefix(c.Text, "//go:build") && c.Pos() < f.Package {
						return nil, fmt.Errorf("build-tagged non-test file %s: analysis would be partial (undecided)", fname)
					}
				}
			}
			for _, d := range f.Decls {
				fd, ok := d.(*ast.FuncDecl)
				if !ok {
					continue
				}
				obj, _ := ti.Defs[fd.Name].(*types.Func)
				if obj == nil {
					continue
				}
				fn := &Func{Name: p.FuncName(obj), Obj: obj, Decl: fd, Pkg: pk, File: f}
				if old, dup := p.Funcs[fn.Name]; dup && old.Obj != obj {
					// init functions etc: disambiguate by line
					fn.Name = fmt.Sprintf("%s#%d", fn.Name, p.Fset.Position(fd.Pos()).Line)
				}
				p.Funcs[fn.Name] = fn
				p.FuncOf[obj] = fn
				p.funcs = append(p.funcs, fn)
			}
		}
	}
	sort.Slice(p.funcs, func(i, j int) bool { return p.funcs[i].Decl.Pos() < p.funcs[j].Decl.Pos() })
	// static call index
	for _, fn := range p.funcs {
		if fn.Decl.Body == nil {
			continue
		}
		var lits []*ast.FuncLit
		var visit func(n ast.Node) bool
		visit = func(n ast.Node) bool {
			switch x := n.(type) {
			case *ast.FuncLit:
				lits = append(lits, x)
				ast.Inspect(x.Body, visit)
				lits = lits[:len(lits)-1]
				return false
			case *ast.CallExpr:
				if callee := p.Callee(x); callee != nil {
					cs := CallSite{Caller: fn, Call: x}
					if len(lits) > 0 {
						cs.InLit = lits[len(lits)-1]
					}
					p.calls[callee] = append(p.calls[callee], cs)
				}
			}
			return true
		}
		ast.Inspect(fn.Decl.Body, visit)
	}
	p.resolveRenames()
	p.resolveLocalRenames()
	p.resolveFieldRenames()
	p.resolveDelegations()
	return p, nil
}

func lastElem(path string) string {
	if i := strings.LastIndex(path, "/"); i >= 0 {
		return path[i+1:]
	}
	return path
}

// PkgShort returns the short name used in canonical names for a package path.
func (p *Prog) PkgShort(path string) string {
	if s, ok := p.pkgName[path]; ok {
		return s
	}
	return path
}

// FuncName is the canonical name of a function object:
// pkg.Func or pkg.Type.Method (pointer receivers and value receivers alike).
func (p *Prog) FuncName(fn *types.Func) string {
	if fn == nil {
		return ""
	}
	fn = fn.Origin()
	if a, ok := p.alias[fn]; ok {
		return a
	}
	pkg := ""
	if fn.Pkg() != nil {
		pkg = p.PkgShort(fn.Pkg().Path())
	}
	sig, _ := fn.Type().(*types.Signature)
	if sig != nil && sig.Recv() != nil {
		t := sig.Recv().Type()
		if pt, ok := t.(*types.Pointer); ok {
			t = pt.Elem()
		}
		switch tt := t.(type) {
		case *types.Named:
			tp := ""
			if tt.Obj().Pkg() != nil {
				tp = p.PkgShort(tt.Obj().Pkg().Path())
			}
			return tp + "." + tt.Obj().Name() + "." + fn.Name()
		case *types.Interface:
			return pkg + ".<iface>." + fn.Name()
		}
		return pkg + ".?." + fn.Name()
	}
	return pkg + "." + fn.Name()
}

// Callee resolves the static callee (function or method, incl. interface methods) of a call.
func (p *Prog) Callee(call *ast.CallExpr) *types.Func {
	if f, ok := typeutil.Callee(p.Info, call).(*types.Func); ok {
		return f.Origin()
	}
	return nil
}

func (p *Prog) CalleeName(call *ast.CallExpr) string {
	return p.FuncName(p.Callee(call))
}

func (p *Prog) IsCall(n ast.Node, names ...string) bool {
	call, ok := n.(*ast.CallExpr)
	if !ok {
		return false
	}
	cn := p.CalleeName(call)
	if cn == "" {
		return false
	}
	for _, n := range names {
		if cn == n {
			return true
		}
	}
	return false
}

func (p *Prog) Fn(name string) *Func { return p.Funcs[name] }

func (p *Prog) CallSites(fn *types.Func) []CallSite { return p.calls[fn.Origin()] }

func (p *Prog) CallSitesByName(name string) []CallSite {
	f := p.Funcs[name]
	if f == nil {
		return nil
	}
	return p.calls[f.Obj]
}

func (p *Prog) Pos(n ast.Node) string {
	if n == nil {
		return "?"
	}
	pos := p.Fset.Position(n.Pos())
	return fmt.Sprintf("%s:%d", strings.TrimPrefix(pos.Filename, p.Dir+"/"), pos.Line)
}

func (p *Prog) Line(n ast.Node) int { return p.Fset.Position(n.Pos()).Line }

// EnclosingFunc returns the declared function whose body contains pos.
func (p *Prog) EnclosingFunc(pos token.Pos) *Func {
	i := sort.Search(len(p.funcs), func(i int) bool { return p.funcs[i].Decl.End() > pos })
	if i < len(p.funcs) && p.funcs[i].Decl.Pos() <= pos {
		return p.funcs[i]
	}
	return nil
}

// Field resolves a struct field object by "pkg.Type.field".
func (p *Prog) Field(name string) *types.Var {
	parts := strings.Split(name, ".")
	if len(parts) != 3 {
		return nil
	}
	st := p.Struct(parts[0] + "." + parts[1])
	if st == nil {
		return nil
	}
	for i := 0; i < st.NumFields(); i++ {
		if st.Field(i).Name() == parts[2] {
			return st.Field(i)
		}
	}
	if v, ok := p.fieldByOld[name]; ok {
		return v // renamed field
	}
	return nil
}

func (p *Prog) Named(name string) *types.Named {
	parts := strings.Split(name, ".")
	if len(parts) != 2 {
		return nil
	}
	for _, pk := range p.Pkgs {
		if p.pkgName[pk.PkgPath] != parts[0] {
			continue
		}
		if o := pk.Types.Scope().Lookup(parts[1]); o != nil {
			if n, ok := o.Type().(*types.Named); ok {
				return n
			}
		}
	}
	return nil
}

func (p *Prog) Struct(name string) *types.Struct {
	n := p.Named(name)
	if n == nil {
		return nil
	}
	st, _ := n.Underlying().(*types.Struct)
	return st
}

// FieldName gives "pkg.Type.field" for a field object of a module struct (best effort).
func (p *Prog) FieldName(v *types.Var) string {
	if v == nil || !v.IsField() {
		return ""
	}
	if fn, ok := p.fieldNames()[v]; ok {
		return fn
	}
	return "?." + v.Name()
}

var fieldNameCache map[*types.Var]string

func (p *Prog) fieldNames() map[*types.Var]string {
	if fieldNameCache != nil {
		return fieldNameCache
	}
	fieldNameCache = map[*types.Var]string{}
	for _, pk := range p.Pkgs {
		sc := pk.Types.Scope()
		for _, n := range sc.Names() {
			tn, ok := sc.Lookup(n).(*types.TypeName)
			if !ok {
				continue
			}
			st, ok := tn.Type().Underlying().(*types.Struct)
			if !ok {
				continue
			}
			for i := 0; i < st.NumFields(); i++ {
				fname := st.Field(i).Name()
				if a, ok := p.fieldAlias[st.Field(i)]; ok {
					fname = a
				}
				fieldNameCache[st.Field(i)] = p.pkgName[pk.PkgPath] + "." + n + "." + fname
			}
		}
	}
	return fieldNameCache
}

// ObjOf returns the object an identifier denotes (use or def).
func (p *Prog) ObjOf(id *ast.Ident) types.Object {
	if o := p.Info.Uses[id]; o != nil {
		return o
	}
	return p.Info.Defs[id]
}

// SelField returns the field object selected by a selector expression, or nil.
func (p *Prog) SelField(e ast.Expr) *types.Var {
	sel, ok := unparen(e).(*ast.SelectorExpr)
	if !ok {
		return nil
	}
	if s := p.Info.Selections[sel]; s != nil && s.Kind() == types.FieldVal {
		if v, ok := s.Obj().(*types.Var); ok {
			return v
		}
	}
	return nil
}

func (p *Prog) TypeOf(e ast.Expr) types.Type {
	if tv, ok := p.Info.Types[e]; ok {
		return tv.Type
	}
	if id, ok := e.(*ast.Ident); ok {
		if o := p.ObjOf(id); o != nil {
			return o.Type()
		}
	}
	return nil
}

// TypeName renders a type as pkg.Name with pointer stars stripped.
func (p *Prog) TypeName(t types.Type) string {
	for {
		if pt, ok := t.(*types.Pointer); ok {
			t = pt.Elem()
			continue
		}
		break
	}
	if n, ok := t.(*types.Named); ok {
		if n.Obj().Pkg() != nil {
			return p.PkgShort(n.Obj().Pkg().Path()) + "." + n.Obj().Name()
		}
		return n.Obj().Name()
	}
	if t == nil {
		return ""
	}
	return t.String()
}

func unparen(e ast.Expr) ast.Expr {
	for {
		pe, ok := e.(*ast.ParenExpr)
		if !ok {
			return e
		}
		e = pe.X
	}
}

// Parent returns the syntactic parent of n (within its file).
func (p *Prog) Parent(n ast.Node) ast.Node {
	fn := p.Fset.Position(n.Pos()).Filename
	f := p.fileOf[fn]
	if f == nil {
		return nil
	}
	m := p.parents[f]
	if m == nil {
		m = map[ast.Node]ast.Node{}
		var stack []ast.Node
		ast.Inspect(f, func(n ast.Node) bool {
			if n == nil {
				stack = stack[:len(stack)-1]
				return true
			}
			if len(stack) > 0 {
				m[n] = stack[len(stack)-1]
			}
			stack = append(stack, n)
			return true
		})
		p.parents[f] = m
	}
	return m[n]
}

// Src renders an expression compactly.
func (p *Prog) Src(e ast.Node) string {
	if e == nil {
		return "<nil>"
	}
	if ex, ok := e.(ast.Expr); ok {
		s := types.ExprString(p.aliased(ex))
		if len(s) > 120 {
			s = s[:117] + "..."
		}
		return s
	}
	return fmt.Sprintf("%T@%s", e, p.Pos(e))
}

// ModuleFuncs iterates all declared functions (sorted by position).
func (p *Prog) ModuleFuncs() []*Func { return p.funcs }

// InPkg reports whether fn is declared in the package with the given short name.
func (p *Prog) InPkg(fn *Func, short string) bool {
	return p.pkgName[fn.Pkg.PkgPath] == short
}
