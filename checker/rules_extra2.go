package main

// More rules added after independently seeded changes were missed (DESIGN.md section 6.1).

import (
	"go/ast"
	"go/token"
	"go/types"
	"sort"
	"strings"
)

func init() {
	registerExtra("C09", ruleUnReserveSameApp)
	registerExtra("C07", ruleFencedFlagPerChild)
	registerExtra("C05", ruleTrackerRemovalAgreement)
	registerExtra("C05", ruleReservedUserHeadroom)
	registerExtra("C02", ruleConfiguredLimitStored)
	registerExtra("C16", ruleConfiguredLimitStored)
}

// appOfQueueExpr: e denotes the queue of application X (X.queue or X.GetQueue()); returns X.
func (p *Prog) appOfQueueExpr(t Term) (Term, bool) {
	for _, c := range p.chain(t) {
		e := unparen(c.E)
		if base, ok := p.fieldSel(e, "objects.Application.queue"); ok {
			return Term{E: base, Env: c.Env, Frozen: c.Frozen, Idx: -1}, true
		}
		if call, ok := e.(*ast.CallExpr); ok && p.IsCall(call, "objects.Application.GetQueue") && Recv(call) != nil {
			return Term{E: Recv(call), Env: c.Env, Frozen: c.Frozen, Idx: -1}, true
		}
	}
	return Term{}, false
}

// ruleUnReserveSameApp: the queue told about an un-reservation is the queue of the application
// whose reservation was removed, keyed by that application's id.
func ruleUnReserveSameApp(c *Ctx) {
	p := c.p
	c.Rule("C09.h", "every Queue.UnReserve(appID, n) is called on the queue of application X, with X.ApplicationID, and n comes from X.unReserveInternal / X.UnReserve of that same X (the three views of ONE application are updated together); Node.unReserve is only called through Application.unReserveInternal")
	fnU := c.MustFunc("C09.h", "objects.Queue.UnReserve")
	if fnU == nil {
		return
	}
	sites := p.CallSites(fnU.Obj)
	for _, cs := range sites {
		fn := cs.Caller
		call := cs.Call
		st := p.StateAt(fn, call)
		key := "Queue.UnReserve in " + fn.Name
		if Recv(call) == nil || len(call.Args) < 2 || st == nil {
			c.Check("C09.h", key, call, false, "unrecognised call shape")
			continue
		}
		app, ok := p.appOfQueueExpr(T(Recv(call), st))
		if !ok {
			c.Check("C09.h", key, call, false, "receiver %s is not the queue of an application (X.queue / X.GetQueue())", p.Src(Recv(call)))
			continue
		}
		// id argument: X.ApplicationID (possibly through a local)
		idOK := false
		for _, t := range p.chain(T(call.Args[0], st)) {
			if base, isID := p.fieldSel(t.E, "objects.Application.ApplicationID"); isID {
				if p.Same(Term{E: base, Env: t.Env, Frozen: t.Frozen, Idx: -1}, app) {
					idOK = true
				}
			}
		}
		// count argument: every assignment feeding it is an un-reserve call on X
		cntOK, why := p.countFromUnReserveOf(fn, call.Args[1], app, st, 0)
		c.Check("C09.h", key, call, idOK && cntOK, "queue of %s is told about an un-reservation with id %s and count %s: %s", p.Src(app.E), p.Src(call.Args[0]), p.Src(call.Args[1]), map[bool]string{true: why, false: "the id is not that application's ApplicationID; " + why}[idOK])
	}
	c.Floor("C09.h", "Queue.UnReserve call sites", len(sites), 7)
	c.whoMayCall("C09.h", "objects.Node.unReserve", 1, map[string]string{"objects.Application.unReserveInternal": "removes the application's own record in the same step"})
}

// countFromUnReserveOf: every assignment that can feed the count expression is a call of
// unReserveInternal / UnReserve whose receiver is app (or an accumulation of such counts).
func (p *Prog) countFromUnReserveOf(fn *Func, e ast.Expr, app Term, st *State, depth int) (bool, string) {
	if depth > 3 {
		return false, "count provenance too deep"
	}
	// reaching definition first (branch sensitive)
	if st != nil {
		ch := p.chain(T(e, st))
		last := ch[len(ch)-1]
		if call, isCall := unparen(last.E).(*ast.CallExpr); isCall && p.IsCall(call, "objects.Application.unReserveInternal", "objects.Application.UnReserve") && Recv(call) != nil {
			if p.Same(Term{E: Recv(call), Env: last.Env, Frozen: last.Frozen, Idx: -1}, app) {
				return true, ""
			}
			return false, "count comes from " + p.Src(call) + ", an un-reservation of a different application"
		}
	}
	id, ok := unparen(e).(*ast.Ident)
	if !ok {
		if call, isCall := unparen(e).(*ast.CallExpr); isCall && p.IsCall(call, "objects.Application.unReserveInternal", "objects.Application.UnReserve") && Recv(call) != nil {
			if p.Same(T(Recv(call), st), app) {
				return true, ""
			}
			return false, "count comes from " + p.Src(call) + ", an un-reservation of a different application"
		}
		return false, "count is " + p.Src(e)
	}
	obj := p.ObjOf(id)
	n, good, why := 0, true, ""
	ast.Inspect(fn.Decl.Body, func(m ast.Node) bool {
		as, ok := m.(*ast.AssignStmt)
		if !ok || len(as.Lhs) != len(as.Rhs) {
			return true
		}
		for i, l := range as.Lhs {
			li, ok := unparen(l).(*ast.Ident)
			if !ok || p.ObjOf(li) != obj {
				continue
			}
			n++
			rst := p.StateAt(fn, as)
			if v, isC := p.ConstInt(as.Rhs[i]); isC && v == 0 {
				continue
			}
			ok2, w := p.countFromUnReserveOf(fn, as.Rhs[i], app, rst, depth+1)
			if !ok2 {
				good, why = false, w
			}
		}
		return true
	})
	if n == 0 {
		// parameter or result of something else
		return false, "count " + id.Name + " is not assigned from an un-reservation in " + fn.Name
	}
	return good, why
}

// ruleFencedFlagPerChild: the "subtree is priority fenced" flag is computed per child.
func ruleFencedFlagPerChild(c *Ctx) {
	p := c.p
	c.Rule("C07.g", "in findEligiblePreemptionVictims the fenced flag handed to a child subtree is `fenced || <flag declared inside the child loop>`; the inherited parameter itself is never assigned (a fence found for one child must not leak to the siblings visited after it)")
	fn := c.MustFunc("C07.g", "objects.Queue.findEligiblePreemptionVictims")
	if fn == nil {
		return
	}
	var fencedObj types.Object
	idx := -1
	for i := 0; ; i++ {
		id := paramIdent(fn, i)
		if id == nil {
			break
		}
		// the fence flag is the only bool parameter
		if b, isB := p.TypeOf(id).Underlying().(*types.Basic); isB && b.Kind() == types.Bool {
			fencedObj, idx = p.ObjOf(id), i
		}
	}
	if fencedObj == nil {
		c.Check("C07.g", "anchor: fenced parameter", fn.Decl, false, "no bool parameter (the fence flag) found")
		return
	}
	c.Check("C07.g", "inherited fence flag is never assigned", fn.Decl, p.Walk(fn).assignCount[fencedObj] == 0, "the parameter fenced is assigned inside the function: a fence of one child leaks into the evaluation of its siblings")
	calls := p.callsIn(fn, "objects.Queue.findEligiblePreemptionVictims")
	for _, call := range calls {
		ok := false
		if idx < len(call.Args) {
			if be, isB := unparen(call.Args[idx]).(*ast.BinaryExpr); isB && be.Op == token.LOR {
				l, okL := unparen(be.X).(*ast.Ident)
				r, okR := unparen(be.Y).(*ast.Ident)
				if okL && okR && p.ObjOf(l) == fencedObj {
					// r is declared inside the enclosing range body
					ro := p.ObjOf(r)
					for par := p.Parent(call); par != nil; par = p.Parent(par) {
						if rs, isR := par.(*ast.RangeStmt); isR {
							if ro != nil && ro.Pos() > rs.Body.Pos() && ro.Pos() < rs.Body.End() {
								ok = true
							}
							break
						}
					}
				}
			}
		}
		c.Check("C07.g", "fence flag passed to the child subtree", call, ok, "the recursive call passes %s as fenced flag, expected `fenced || <per-child flag declared in the loop body>`", p.Src(call.Args[idx]))
	}
	c.Floor("C07.g", "recursive descents in findEligiblePreemptionVictims", len(calls), 1)
}

// conjuncts splits a && b && c into normalised atom strings.
func (p *Prog) conjuncts(e ast.Expr) []string {
	var out []string
	var walk func(e ast.Expr)
	walk = func(e ast.Expr) {
		if b, ok := unparen(e).(*ast.BinaryExpr); ok && b.Op == token.LAND {
			walk(b.X)
			walk(b.Y)
			return
		}
		out = append(out, p.Src(unparen(e)))
	}
	walk(e)
	sort.Strings(out)
	return out
}

// ruleTrackerRemovalAgreement: the two places that decide whether a queue tracker may be dropped agree.
func ruleTrackerRemovalAgreement(c *Ctx) {
	p := c.p
	c.Rule("C05.e", "a queue tracker is only dropped when it has no children, no running applications, no usage AND no configured limit (maxRunningApps == 0 && IsZero(maxResources)); decreaseTrackedResource and canBeRemovedInternal use the same condition (dropping a tracker that still carries a limit silently loses the limit until the next reload)")
	want := []string{"len(qt.childQueueTrackers) == 0", "len(qt.runningApplications) == 0", "qt.maxRunningApps == 0", "resources.IsZero(qt.maxResources)", "resources.IsZero(qt.resourceUsage)"}
	sort.Strings(want)
	var got [][]string
	if fn := c.MustFunc("C05.e", "ugm.QueueTracker.decreaseTrackedResource"); fn != nil {
		found := false
		ast.Inspect(fn.Decl.Body, func(n ast.Node) bool {
			as, ok := n.(*ast.AssignStmt)
			if !ok || len(as.Lhs) != 1 || len(as.Rhs) != 1 {
				return true
			}
			if be, isAnd := unparen(as.Rhs[0]).(*ast.BinaryExpr); !isAnd || be.Op != token.LAND {
				return true // the child's answer on the way back up the recursion
			}
			if _, ok := as.Lhs[0].(*ast.Ident); ok {
				found = true
				cj := p.conjuncts(as.Rhs[0])
				got = append(got, cj)
				c.Check("C05.e", "removal condition in decreaseTrackedResource", as, strings.Join(cj, " && ") == strings.Join(want, " && "), "removeQT is %v, expected %v", cj, want)
			}
			return true
		})
		c.Check("C05.e", "decreaseTrackedResource computes removeQT", fn.Decl, found, "the removal decision `removeQT := ...` was not found")
	}
	if fn := c.MustFunc("C05.e", "ugm.QueueTracker.canBeRemovedInternal"); fn != nil {
		found := false
		ast.Inspect(fn.Decl.Body, func(n ast.Node) bool {
			if found {
				return true
			}
			// `if cond { return true }` or `return cond`
			var cond ast.Expr
			switch x := n.(type) {
			case *ast.IfStmt:
				cond = x.Cond
			case *ast.ReturnStmt:
				if len(x.Results) == 1 {
					if be, isAnd := unparen(x.Results[0]).(*ast.BinaryExpr); isAnd && be.Op == token.LAND {
						cond = x.Results[0]
					}
				}
			}
			if cond == nil {
				return true
			}
			found = true
			cj := p.conjuncts(cond)
			got = append(got, cj)
			c.Check("C05.e", "removal condition in canBeRemovedInternal", n, strings.Join(cj, " && ") == strings.Join(want, " && "), "condition is %v, expected %v", cj, want)
			return true
		})
		c.Check("C05.e", "canBeRemovedInternal has its condition", fn.Decl, found, "no condition found")
	}
	if len(got) == 2 {
		c.Check("C05.e", "both removal decisions agree", nil, strings.Join(got[0], "&&") == strings.Join(got[1], "&&"), "decreaseTrackedResource: %v vs canBeRemovedInternal: %v", got[0], got[1])
	}
}

// ruleReservedUserHeadroom: both bind attempts of tryReservedAllocate are behind checkHeadRooms with
// the user headroom of this application.
func ruleReservedUserHeadroom(c *Ctx) {
	p := c.p
	c.Rule("C05.a2", "in tryReservedAllocate both bind attempts (on the reserved node and on any other node) are dominated by checkHeadRooms(ask, userHeadroom, headRoom) with userHeadroom = Manager.Headroom(...)")
	fn := c.MustFunc("C05.a2", "objects.Application.tryReservedAllocate")
	if fn == nil {
		return
	}
	calls := p.callsIn(fn, "objects.Application.tryNode", "objects.Application.tryNodesNoReserve")
	for _, call := range calls {
		st := p.StateAt(fn, call)
		askArg := p.argOfType(call, "objects.Allocation")
		if askArg == nil {
			c.Check("C05.a2", "user headroom before "+shortFn(p.CalleeName(call))+" (reserved)", call, false, "%s is not called with exactly one allocation", p.CalleeName(call))
			continue
		}
		askT := T(askArg, st)
		// checkHeadRooms(...) == true implies userHeadroom.FitInMaxUndef(res(ask)) with the parameter bound to the argument
		ok := p.Holds(st, p.CallAtom(true, func(cl *ast.CallExpr, a Atom) bool {
			return Recv(cl) != nil && len(cl.Args) >= 1 && p.IsResOf(a.term(cl.Args[0]), askT) && p.reaches(a.term(Recv(cl)), "ugm.Manager.Headroom")
		}, "resources.Resource.FitInMaxUndef"))
		c.Check("C05.a2", "user headroom before "+shortFn(p.CalleeName(call))+" (reserved)", call, ok, "%s reached without checkHeadRooms(ask, <Manager.Headroom>, headRoom) on this ask; facts: %v", p.CalleeName(call), p.FactStrings(st))
	}
	c.Floor("C05.a2", "bind attempts in tryReservedAllocate", len(calls), 2)
}

// ruleConfiguredLimitStored: an accepted maximum / guarantee is stored whatever the change detection says.
func ruleConfiguredLimitStored(c *Ctx) {
	p := c.p
	rule := c.Prop + ".cfg"
	c.Rule(rule, "Queue.setResources stores an accepted max/guaranteed value as a direct statement of its switch case: the store does not depend on the change detection used for events (Equals treats a missing type as zero, so an explicit zero limit would otherwise be dropped)")
	fn := c.MustFunc(rule, "objects.Queue.setResources")
	if fn == nil {
		return
	}
	n := 0
	for _, field := range []string{"objects.Queue.maxResource", "objects.Queue.guaranteedResource"} {
		f := p.Field(field)
		if f == nil {
			c.Check(rule, "anchor:"+field, nil, false, "field does not resolve")
			continue
		}
		for _, w := range p.FieldWrites(f) {
			if !p.inFn(w.Fn, fn) {
				continue
			}
			n++
			_, direct := p.Parent(w.Node).(*ast.CaseClause)
			c.Check(rule, "store of "+shortFn(field)+" in setResources", w.Node, direct, "the store of %s is nested in a further condition inside its case: an accepted limit can be skipped", field)
		}
	}
	c.Floor(rule, "stores of max/guaranteed in setResources", n, 4)
}

func init() {
	registerExtra("C18", ruleMulValBlindSpot)
	registerExtra("C12", func(c *Ctx) {
		c.Rule("C12.e", "the forced node add used by recovery (Node.addAllocationInternal) keeps available = total - allocated - occupied exactly like the checked add: every ledger mutation is followed by the mirrored update of available with the same operand (no clamping)")
		n := checkAvailableCoherence(c, "C12.e", "objects.Node.addAllocationInternal")
		c.Floor("C12.e", "ledger mutations in Node.addAllocationInternal", n, 2)
	})
	registerExtra("C17", func(c *Ctx) {
		c.Rule("C17.f", "the active rule list is the configured one: the placement rules are rebuilt from the configuration on every reload before the partition is updated (an empty list installs the implicit provided rule)")
		p := c.p
		root := c.MustFunc("C17.f", "scheduler.PartitionContext.updatePartitionDetails")
		if root == nil {
			return
		}
		n := 0
		for _, call := range p.callsIn(root, "locking.RWMutex.Lock", "github.com/sasha-s/go-deadlock.RWMutex.Lock") {
			n++
			st := p.StateAt(root, call)
			upd := p.DoneCall(st, func(cl *ast.CallExpr) bool {
				return len(cl.Args) >= 1 && strings.HasSuffix(p.Src(cl.Args[0]), ".PlacementRules")
			}, "placement.AppPlacementManager.UpdateRules")
			c.Check("C17.f", "placement rules rebuilt on every reload", call, upd != nil, "the partition update proceeds without UpdateRules(conf.PlacementRules) having run on every path: applications keep being placed by rules that are no longer configured")
		}
		c.Floor("C17.f", "partition lock acquisitions in updatePartitionDetails", n, 1)
		c.mustContainCalls("C17.f", "placement.AppPlacementManager.UpdateRules", "placement.AppPlacementManager.initialise")
		c.mustContainCalls("C17.f", "placement.AppPlacementManager.initialise", "placement.buildRules")
	})
}

// ruleMulValBlindSpot: the divide-back wrap test of mulVal has exactly one blind spot,
// MinInt64 / -1 == MinInt64; the special case must name the divisor as the -1 operand.
func ruleMulValBlindSpot(c *Ctx) {
	p := c.p
	c.Rule("C18.b2", "mulVal's divide-back test `result/D != N` is blind exactly for N == MinInt64 && D == -1 (MinInt64 / -1 wraps): the explicit special case must test the dividend operand N against MinInt64 and the divisor D against -1")
	fn := c.MustFunc("C18.b2", "resources.mulVal")
	if fn == nil {
		return
	}
	var div *ast.BinaryExpr
	var minOf, negOf []ast.Expr
	ast.Inspect(fn.Decl.Body, func(n ast.Node) bool {
		be, ok := n.(*ast.BinaryExpr)
		if !ok {
			return true
		}
		switch be.Op {
		case token.QUO:
			if div == nil {
				div = be
			}
		case token.EQL:
			for _, pr := range [][2]ast.Expr{{be.X, be.Y}, {be.Y, be.X}} {
				if strings.HasSuffix(p.Src(pr[1]), "MinInt64") {
					minOf = append(minOf, pr[0])
				}
				if v, isC := p.ConstInt(pr[1]); isC && v == -1 {
					negOf = append(negOf, pr[0])
				}
			}
		}
		return true
	})
	if div == nil {
		c.Check("C18.b2", "divide-back test present in mulVal", fn.Decl, false, "no division found in mulVal")
		return
	}
	// the division is compared with the other operand
	cmp, _ := p.Parent(div).(*ast.BinaryExpr)
	for cmp == nil {
		if pe, ok := p.Parent(div).(*ast.ParenExpr); ok {
			cmp, _ = p.Parent(pe).(*ast.BinaryExpr)
		}
		break
	}
	other := ""
	if cmp != nil && cmp.Op == token.NEQ {
		if unparen(cmp.X) == ast.Expr(div) {
			other = p.Src(cmp.Y)
		} else {
			other = p.Src(cmp.X)
		}
	}
	okNeg, okMin := false, false
	for _, e := range negOf {
		if p.Src(e) == p.Src(div.Y) {
			okNeg = true
		}
	}
	for _, e := range minOf {
		if p.Src(e) == other && other != "" {
			okMin = true
		}
	}
	c.Check("C18.b2", "special case matches the divisor of the divide-back test", div, okNeg && okMin, "the wrap test divides by %s and compares with %s, but the special case does not test %s == -1 && %s == math.MinInt64: the blind spot of the division (MinInt64 / -1) is not the pair that is handled", p.Src(div.Y), other, p.Src(div.Y), other)
}

func init() { registerExtra("C08", ruleSnapshotFieldSources) }

// sourceStem: the name of the field or getter an expression reads, stripped of Get/get and of
// trailing Clone()/DAOMap() calls: sq.maxResource.Clone() -> "maxresource", q.GetMaxResource() -> "maxresource".
func (p *Prog) sourceStem(e ast.Expr) string {
	e = unparen(e)
	for {
		call, ok := e.(*ast.CallExpr)
		if !ok {
			break
		}
		sel, ok := unparen(call.Fun).(*ast.SelectorExpr)
		if !ok {
			return ""
		}
		switch sel.Sel.Name {
		case "Clone", "DAOMap", "String":
			e = unparen(sel.X)
			continue
		}
		name := sel.Sel.Name
		name = strings.TrimPrefix(strings.TrimPrefix(name, "Get"), "get")
		return strings.ToLower(name)
	}
	if sel, ok := e.(*ast.SelectorExpr); ok {
		return strings.ToLower(sel.Sel.Name)
	}
	return ""
}

// ruleSnapshotFieldSources: in struct literals of the preemption snapshots every field is filled
// from the source of the same name; a value whose source carries the name of ANOTHER field of the
// same literal is a swapped pair (guaranteed filled from max, allocated from preempting ...).
func ruleSnapshotFieldSources(c *Ctx) {
	p := c.p
	c.Rule("C08.g", "in the struct literals that build preemption snapshots (and in every other keyed struct literal of the scheduler packages) a field is never filled from the source that carries the name of a different field of the same literal: guaranteed/max/allocated/preempting are not swapped")
	n, nSnap := 0, 0
	for _, fn := range p.funcs {
		if fn.Decl.Body == nil || !(p.InPkg(fn, "objects") || p.InPkg(fn, "scheduler")) {
			continue
		}
		ast.Inspect(fn.Decl.Body, func(nd ast.Node) bool {
			cl, ok := nd.(*ast.CompositeLit)
			if !ok {
				return true
			}
			keys := map[string]bool{}
			for _, el := range cl.Elts {
				if kv, ok := el.(*ast.KeyValueExpr); ok {
					if id, ok := kv.Key.(*ast.Ident); ok {
						keys[strings.ToLower(id.Name)] = true
					}
				}
			}
			if len(keys) < 2 {
				return true
			}
			if p.TypeName(p.TypeOf(cl)) == "objects.QueuePreemptionSnapshot" {
				nSnap++
			}
			for _, el := range cl.Elts {
				kv, ok := el.(*ast.KeyValueExpr)
				if !ok {
					continue
				}
				id, ok := kv.Key.(*ast.Ident)
				if !ok {
					continue
				}
				stem := p.sourceStem(kv.Value)
				if stem == "" {
					continue
				}
				n++
				key := strings.ToLower(id.Name)
				swapped := stem != key && keys[stem]
				c.Check("C08.g", "field "+id.Name+" of "+p.TypeName(p.TypeOf(cl))+" in "+fn.Name, kv, !swapped, "field %s is filled from %s, the source named like the sibling field %q of the same literal: the two are swapped", id.Name, p.Src(kv.Value), stem)
			}
			return true
		})
	}
	c.Floor("C08.g", "named-source struct fields checked", n, 40)
	c.Floor("C08.g", "preemption snapshot literals", nSnap, 2)
}
