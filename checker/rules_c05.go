package main

import (
	"go/ast"
	"strings"
)

// C05 — user and group quotas.   C09 — reservations.

func init() {
	register("C05", rulesC05)
	register("C09", rulesC09)
}

func rulesC05(c *Ctx) {
	p := c.p
	c.NotDecided("that the limits in force after a sequence of reloads are exactly those of the latest configuration (UpdateConfig's special-casing is data dependent; no shape rule captures it)",
		"numeric equality of tracked usage with the sum of live allocations")

	// ---- C05.a gate
	c.Rule("C05.a", "every bind attempt is dominated by userHeadroom.FitInMaxUndef(res(request)) with userHeadroom = Manager.Headroom(own queue path, own app id, own user); Accepted apps are scheduled only under Manager.CanRunApp; Headroom/CanRunApp combine the user and the group tracker; the tracker recursion covers every level of the path")
	for _, fnName := range []string{"objects.Application.tryAllocate", "objects.Application.tryReservedAllocate"} {
		fn := c.MustFunc("C05.a", fnName)
		if fn == nil {
			continue
		}
		// provenance of the user headroom
		hd := p.callsIn(fn, "ugm.Manager.Headroom")
		for _, call := range hd {
			ok := len(call.Args) >= 3 && p.recvField(fn, call.Args[0], "objects.Application.queuePath") && p.recvField(fn, call.Args[1], "objects.Application.ApplicationID") && p.recvField(fn, call.Args[2], "objects.Application.user")
			c.Check("C05.a", "user headroom of "+shortFn(fnName)+" is for this app, queue path and user", call, ok, "Headroom(%s, %s, %s)", p.Src(call.Args[0]), p.Src(call.Args[1]), p.Src(call.Args[2]))
			rc, isC := unparen(Recv(call)).(*ast.CallExpr)
			c.Check("C05.a", "user headroom of "+shortFn(fnName)+" comes from the global manager", call, isC && p.IsCall(rc, "ugm.GetUserManager"), "Headroom called on %s", p.Src(Recv(call)))
		}
		c.Floor("C05.a", "Manager.Headroom calls in "+fnName, len(hd), 1)
	}
	if fn := c.MustFunc("C05.a", "objects.Application.tryAllocate"); fn != nil {
		calls := p.callsIn(fn, "objects.Application.tryNodes", "objects.Application.tryRequiredNode", "objects.Application.tryPreemption")
		for _, call := range calls {
			st := p.StateAt(fn, call)
			reqArg := p.argOfType(call, "objects.Allocation")
			if reqArg == nil {
				c.Check("C05.a", "user headroom before "+shortFn(p.CalleeName(call)), call, false, "%s is not called with exactly one allocation", p.CalleeName(call))
				continue
			}
			reqT := T(reqArg, st)
			ok := p.Holds(st, p.CallAtom(true, func(cl *ast.CallExpr, a Atom) bool {
				if len(cl.Args) < 1 || !p.IsResOf(a.term(cl.Args[0]), reqT) {
					return false
				}
				return Recv(cl) != nil && p.reaches(a.term(Recv(cl)), "ugm.Manager.Headroom")
			}, "resources.Resource.FitInMaxUndef"))
			c.Check("C05.a", "user headroom before "+shortFn(p.CalleeName(call)), call, ok, "%s reached without userHeadroom.FitInMaxUndef(res(request)); facts: %v", p.CalleeName(call), p.FactStrings(st))
		}
		c.Floor("C05.a", "bind/preempt attempts in tryAllocate", len(calls), 4)
	}
	if fn := c.MustFunc("C05.a", "objects.Application.tryReservedAllocate"); fn != nil {
		for _, call := range p.callsIn(fn, "objects.Application.checkHeadRooms") {
			got := false
			for _, arg := range call.Args {
				if p.reaches(T(arg, p.StateAt(fn, call)), "ugm.Manager.Headroom") {
					got = true
				}
			}
			c.Check("C05.a", "checkHeadRooms receives the user headroom (reserved)", call, got, "no argument of checkHeadRooms is the result of Manager.Headroom")
		}
	}
	for _, nm := range []string{"ugm.Manager.Headroom", "ugm.Manager.CanRunApp"} {
		fn := c.MustFunc("C05.a", nm)
		if fn == nil {
			continue
		}
		userCallee, groupCallee := "ugm.UserTracker.headroom", "ugm.GroupTracker.headroom"
		if nm == "ugm.Manager.CanRunApp" {
			userCallee, groupCallee = "ugm.UserTracker.canRunApp", "ugm.GroupTracker.canRunApp"
		}
		n := 0
		for _, ex := range p.returnsOf(fn) {
			rs, ok := ex.Node.(*ast.ReturnStmt)
			if !ok || len(rs.Results) != 1 {
				continue
			}
			n++
			st := ex.State
			r := unparen(rs.Results[0])
			isUser := func(e ast.Expr) bool {
				d := p.DefOf(T(e, st))
				cl, ok := unparen(d.E).(*ast.CallExpr)
				return ok && p.IsCall(cl, userCallee)
			}
			isGroup := func(e ast.Expr) bool {
				d := p.DefOf(T(e, st))
				cl, ok := unparen(d.E).(*ast.CallExpr)
				return ok && p.IsCall(cl, groupCallee)
			}
			switch x := r.(type) {
			case *ast.CallExpr:
				okC := p.IsCall(x, "resources.ComponentWiseMin") && len(x.Args) >= 2 && ((isUser(x.Args[0]) && isGroup(x.Args[1])) || (isGroup(x.Args[0]) && isUser(x.Args[1])))
				c.Check("C05.a", shortFn(nm)+": user and group combined", rs, okC, "%s returns %s, expected the minimum of the user and the group value", nm, p.Src(r))
			case *ast.BinaryExpr:
				okC := x.Op.String() == "&&" && ((isUser(x.X) && isGroup(x.Y)) || (isGroup(x.X) && isUser(x.Y)))
				c.Check("C05.a", shortFn(nm)+": user and group combined", rs, okC, "%s returns %s, expected userCanRun && groupCanRun", nm, p.Src(r))
			default:
				// user-only answer is right only when no group applies
				noGroup := p.Holds(st, anyReq(
					p.CmpAtom(func(op tokenT, a, b Term) bool {
						d := p.DefOf(a)
						cl, ok := unparen(d.E).(*ast.CallExpr)
						return op == tokEQL && ok && p.IsCall(cl, "ugm.UserTracker.getGroupForApp") && p.Src(b.E) == "common.Empty"
					}),
					p.NilAtom(true, func(t Term) bool {
						d := p.DefOf(t)
						cl, ok := unparen(d.E).(*ast.CallExpr)
						if !ok {
							return false
						}
						if p.IsCall(cl, "ugm.Manager.GetGroupTracker") {
							return true
						}
						// a private helper that answers nil or the group tracker of the application
						callee := p.Callee(cl)
						return callee != nil && p.returnsNilOr(p.FuncOf[callee], "ugm.Manager.GetGroupTracker")
					})))
				c.Check("C05.a", shortFn(nm)+": user-only answer only without a group", rs, isUser(r) && noGroup, "%s returns %s without the fact that no group tracker applies; facts: %v", nm, p.Src(r), p.FactStrings(st))
			}
		}
		c.Floor("C05.a", "answers of "+nm, n, 2)
	}
	// queue tracker recursion
	if fn := c.MustFunc("C05.a", "ugm.QueueTracker.headroom"); fn != nil {
		rec := p.callsIn(fn, "ugm.QueueTracker.headroom")
		c.Check("C05.a", "tracker headroom recurses down the path", fn.Decl, len(rec) >= 1, "QueueTracker.headroom no longer recurses into the child tracker")
		sub := false
		for _, call := range p.callsIn(fn, "resources.SubOnlyExisting") {
			if len(call.Args) >= 2 && p.recvField(fn, call.Args[0], "ugm.QueueTracker.maxResources") && p.recvField(fn, call.Args[1], "ugm.QueueTracker.resourceUsage") {
				sub = true
			}
		}
		c.Check("C05.a", "tracker headroom = SubOnlyExisting(max, usage)", fn.Decl, sub, "QueueTracker.headroom no longer computes SubOnlyExisting(maxResources, resourceUsage) (argument roles)")
		min := false
		for _, ex := range p.returnsOf(fn) {
			if rs, ok := ex.Node.(*ast.ReturnStmt); ok && len(rs.Results) == 1 {
				if cl, ok := unparen(rs.Results[0]).(*ast.CallExpr); ok && p.IsCall(cl, "resources.ComponentWiseMin") {
					min = true
				} else if p.identIn(rs.Results[0], p.assignedFrom(fn, "ugm.QueueTracker.headroom")) {
					own := p.assignedFrom(fn, "resources.SubOnlyExisting")
					okN := p.Holds(ex.State, p.NilAtom(true, func(t Term) bool { return p.identIn(t.E, own) }))
					c.Check("C05.a", "child headroom returned only without an own limit", rs, okN, "QueueTracker.headroom returns the child's value although this level has a limit")
				}
			}
		}
		c.Check("C05.a", "tracker headroom takes the minimum over the levels", fn.Decl, min, "QueueTracker.headroom no longer returns ComponentWiseMin(own, child)")
	}
	if fn := c.MustFunc("C05.a", "ugm.QueueTracker.canRunApp"); fn != nil {
		n := 0
		for _, ex := range p.returnsOf(fn) {
			rs, ok := ex.Node.(*ast.ReturnStmt)
			if !ok || len(rs.Results) != 1 || !p.isConstBool(rs.Results[0], true) {
				continue
			}
			n++
			below := p.assignedFrom(fn, "ugm.QueueTracker.canRunApp")
			child := p.Holds(ex.State, p.BoolAtom(true, func(t Term) bool { return p.identIn(t.E, below) }))
			c.Check("C05.a", "tracker canRunApp: a refusing level below refuses", rs, child, "QueueTracker.canRunApp can answer true although a child level refused; facts: %v", p.FactStrings(ex.State))
		}
		c.Floor("C05.a", "positive answers of QueueTracker.canRunApp", n, 2)
		cmp := false
		ast.Inspect(fn.Decl.Body, func(nn ast.Node) bool {
			// <number of running applications + 1> > maxRunningApps (either orientation); the count is a local
			// defined as len(runningApplications) + 1
			if b, ok := nn.(*ast.BinaryExpr); ok && (b.Op == tokGTR || b.Op == tokLSS) {
				big, small := b.X, b.Y
				if b.Op == tokLSS {
					big, small = b.Y, b.X
				}
				if strings.Contains(p.Src(small), "maxRunningApps") {
					if st := p.StateAt(fn, b); st != nil {
						cs := p.CanonSrc(big, st.Env, 0)
						if strings.Contains(cs, "len(") && strings.Contains(cs, "runningApplications") && strings.Contains(cs, "+ 1") {
							cmp = true
						}
					}
					// the count is assigned on one branch only (declared first): accept a local that is assigned such a value
					if id, isID := unparen(big).(*ast.Ident); isID {
						ast.Inspect(fn.Decl.Body, func(m ast.Node) bool {
							if as, isA := m.(*ast.AssignStmt); isA && len(as.Lhs) == 1 && len(as.Rhs) == 1 {
								if l, isL := as.Lhs[0].(*ast.Ident); isL && p.ObjOf(l) == p.ObjOf(id) {
									r := p.Src(as.Rhs[0])
									if strings.Contains(r, "len(") && strings.Contains(r, "runningApplications") && strings.Contains(r, "+ 1") {
										cmp = true
									}
								}
							}
							return true
						})
					}
				}
			}
			return true
		})
		c.Check("C05.a", "tracker canRunApp compares running+1 > max", fn.Decl, cmp, "QueueTracker.canRunApp no longer refuses on running > maxRunningApps")
	}

	// ---- C05.b usage pairing
	c.Rule("C05.b", "every allocation add/remove updates the user usage with the same amount (shared with C03.b); Increase/DecreaseTrackedResource update the user tracker and, when a group is resolved, the group tracker with the same usage")
	checkUserUsagePairing(c, "C05.b")
	for _, pr := range [][3]string{
		{"ugm.Manager.IncreaseTrackedResource", "ugm.UserTracker.increaseTrackedResource", "ugm.GroupTracker.increaseTrackedResource"},
		{"ugm.Manager.DecreaseTrackedResource", "ugm.UserTracker.decreaseTrackedResource", "ugm.GroupTracker.decreaseTrackedResource"},
	} {
		fn := c.MustFunc("C05.b", pr[0])
		if fn == nil {
			continue
		}
		for _, callee := range pr[1:] {
			calls := p.callsIn(fn, callee)
			ok := false
			for _, call := range calls {
				if len(call.Args) >= 3 && p.isParam(fn, call.Args[0], 0) && p.isParam(fn, call.Args[1], 1) && p.isParam(fn, call.Args[2], 2) {
					ok = true
				}
			}
			c.Check("C05.b", shortFn(pr[0])+" forwards to "+shortFn(callee)+" with the same queue, app and usage", fn.Decl, ok, "%s does not call %s(queuePath, applicationID, usage, ...)", pr[0], callee)
		}
	}
	for _, cs := range p.CallSitesByName("objects.Application.incUserResourceUsage") {
		c.Check("C05.b", "incUserResourceUsage caller "+cs.Caller.Name, cs.Call, p.methodOf(cs.Caller, "objects.Application"), "user usage changed outside Application")
	}
	for _, nm := range []string{"objects.Application.incUserResourceUsage", "objects.Application.decUserResourceUsage"} {
		fn := c.MustFunc("C05.b", nm)
		if fn == nil {
			continue
		}
		callee := "ugm.Manager.IncreaseTrackedResource"
		if strings.HasSuffix(nm, "decUserResourceUsage") {
			callee = "ugm.Manager.DecreaseTrackedResource"
		}
		ok := false
		for _, call := range p.callsIn(fn, callee) {
			if len(call.Args) >= 4 && p.recvField(fn, call.Args[0], "objects.Application.queuePath") && p.recvField(fn, call.Args[1], "objects.Application.ApplicationID") && p.isParam(fn, call.Args[2], 0) && p.recvField(fn, call.Args[3], "objects.Application.user") {
				ok = true
			}
		}
		c.Check("C05.b", shortFn(nm)+" books on this app's queue path and user", fn.Decl, ok, "%s does not call %s(sa.queuePath, sa.ApplicationID, resource, sa.user, ...)", nm, callee)
	}

	// ---- C05.c tracker ownership (structural part; lock discipline is C14)
	c.Rule("C05.c", "QueueTracker ledgers are written only by QueueTracker methods; tracker maps of the manager only by Manager methods")
	for _, fld := range []string{"resourceUsage", "runningApplications", "maxResources", "maxRunningApps", "childQueueTrackers"} {
		c.fieldWritersConfined("C05.c", "ugm.QueueTracker."+fld, 1, func(w FieldWrite) (bool, string) {
			return p.methodOf(w.Fn, "ugm.QueueTracker") || w.Fn.Name == "ugm.newQueueTracker" || w.Fn.Name == "ugm.newRootQueueTracker", "QueueTracker." + fld + " written in " + w.Fn.Name
		})
	}
	for _, fld := range []string{"userTrackers", "groupTrackers"} {
		c.fieldWritersConfined("C05.c", "ugm.Manager."+fld, 2, func(w FieldWrite) (bool, string) {
			return p.methodOf(w.Fn, "ugm.Manager") || w.Fn.Name == "ugm.newManager", "Manager." + fld + " written in " + w.Fn.Name
		})
	}
}

func rulesC09(c *Ctx) {
	p := c.p
	c.NotDecided("run-time equality of the application, node and queue views of the reservation set")

	// ---- C09.a single reservation
	c.Rule("C09.a", "Node.Reserve stores only for a required-node ask or an unreserved node, and a required-node ask only next to other required-node reservations; reserveInternal stores only for a registered, un-allocated, not yet reserved ask after Node.Reserve succeeded")
	if fn := c.MustFunc("C09.a", "objects.Node.Reserve"); fn != nil {
		n := 0
		for _, w := range p.FieldWrites(p.Field("objects.Node.reservations")) {
			if !p.inFn(w.Fn, fn) || w.Kind != "elem" {
				continue
			}
			n++
			st := p.StateAt(fn, w.Node)
			// !( !reqNode && len(reservations) > 0 )
			single := p.Holds(st, func(a Atom) bool {
				// reqNode true (ask.requiredNode != "")  or  len(sn.reservations) <= 0
				if op, x, y, ok := p.cmpParts(a); ok {
					if op == tokNEQ && p.IsEmptyString(y) {
						if _, isF := p.fieldSel(x, "objects.Allocation.requiredNode"); isF {
							return true
						}
					}
					if op == tokLEQ && p.Src(x) == "len(sn.reservations)" {
						if v, isC := p.ConstInt(y); isC && v == 0 {
							return true
						}
					}
				}
				return false
			})
			c.Check("C09.a", "node reserved only if unreserved or for a required-node ask", w.Node, single, "Node.reservations store without (requiredNode != \"\" || len(reservations) == 0); facts: %v", p.FactStrings(st))
			held := p.lockHeld(fn, w.Node, func(e ast.Expr) bool { return p.isRecvExpr(fn, e) }, true)
			c.Check("C09.a", "node reservation stored under the node lock", w.Node, held, "Node.reservations written without the node lock")
			fits := p.Holds(st, p.CallAtom(true, func(cl *ast.CallExpr, a Atom) bool {
				return p.recvField(fn, Recv(cl), "objects.Node.totalResource") && len(cl.Args) >= 1 && p.IsResOf(a.term(cl.Args[0]), T(paramIdent(fn, 1), st))
			}, "resources.Resource.FitIn"))
			c.Check("C09.a", "reservation must fit the empty node", w.Node, fits, "Node.reservations store without totalResource.FitIn(res(ask))")
		}
		c.Floor("C09.a", "stores into Node.reservations", n, 1)
		// required-node reservations only next to other required-node reservations: an error return inside the range loop
		okLoop := false
		p.InspectDeep(fn, func(nn ast.Node) bool {
			rs, ok := nn.(*ast.RangeStmt)
			if !ok || !p.recvField(fn, rs.X, "objects.Node.reservations") {
				return true
			}
			owner := p.EnclosingFunc(rs.Pos())
			ast.Inspect(rs.Body, func(m ast.Node) bool {
				ret, ok := m.(*ast.ReturnStmt)
				if !ok || len(ret.Results) != 1 || p.isNilExpr(ret.Results[0]) {
					return true
				}
				st := p.StateAt(owner, ret)
				if st == nil || !p.Holds(st, p.CmpAtom(func(op tokenT, x, y Term) bool {
					_, isF := p.fieldSel(x.E, "objects.Allocation.requiredNode")
					return op == tokEQL && isF && p.IsEmptyString(y.E)
				})) {
					return true
				}
				if owner == fn {
					okLoop = true
					return true
				}
				// the refusal lives in an extracted helper: every store of the reservation must be behind its nil answer
				stores, guarded := 0, 0
				for _, w := range p.FieldWrites(p.Field("objects.Node.reservations")) {
					if w.Fn != fn || w.Kind != "elem" {
						continue
					}
					stores++
					// ... for a required-node ask (a normal ask is refused earlier whenever anything is reserved)
					notReq := p.CmpAtom(func(op tokenT, x, y Term) bool {
						_, isF := p.fieldSel(x.E, "objects.Allocation.requiredNode")
						return op == tokEQL && isF && p.IsEmptyString(y.E)
					})
					if p.Holds(p.StateAt(fn, w.Node), anyReq(p.ResultNilAtom(true, nil, owner.Name), notReq)) {
						guarded++
					}
				}
				if stores > 0 && stores == guarded {
					okLoop = true
				}
				return true
			})
			return true
		})
		c.Check("C09.a", "required-node reservation refused next to a normal reservation", fn.Decl, okLoop, "Node.Reserve no longer rejects a required-node reservation when a normal reservation exists")
	}
	if fn := c.MustFunc("C09.a", "objects.Application.reserveInternal"); fn != nil {
		n := 0
		for _, w := range p.FieldWrites(p.Field("objects.Application.reservations")) {
			if !p.inFn(w.Fn, fn) || w.Kind != "elem" {
				continue
			}
			n++
			st := p.StateAt(fn, w.Node)
			askT := T(paramIdent(fn, 1), st)
			reg := p.Holds(st, p.NilAtom(false, func(t Term) bool {
				ix, ok := unparen(t.E).(*ast.IndexExpr)
				return ok && p.recvField(fn, ix.X, "objects.Application.requests") && p.IsKeyOf(Term{E: ix.Index, Env: t.Env, Frozen: t.Frozen, Idx: -1}, askT)
			}))
			c.Check("C09.a", "reservation only for an ask registered on this application", w.Node, reg, "Application.reservations store without sa.requests[key(ask)] != nil; facts: %v", p.FactStrings(st))
			can := p.Holds(st, p.ResultNilAtom(true, func(cl *ast.CallExpr, a Atom) bool { return len(cl.Args) >= 1 && p.Same(a.term(cl.Args[0]), askT) }, "objects.Application.canAllocationReserve"))
			c.Check("C09.a", "reservation only for an un-allocated, not yet reserved ask", w.Node, can, "Application.reservations store without canAllocationReserve(ask) == nil")
			nodeOK := p.Holds(st, p.ResultNilAtom(true, func(cl *ast.CallExpr, a Atom) bool {
				return p.isParam(fn, Recv(cl), 0) && len(cl.Args) >= 2 && p.isRecvExpr(fn, cl.Args[0]) && p.Same(a.term(cl.Args[1]), askT)
			}, "objects.Node.Reserve"))
			c.Check("C09.a", "application reservation only after the node accepted it", w.Node, nodeOK, "Application.reservations store without node.Reserve(sa, ask) == nil")
			keyOK := false
			if ix, ok := unparen(w.Node.(*ast.AssignStmt).Lhs[0]).(*ast.IndexExpr); ok {
				keyOK = p.IsKeyOf(T(ix.Index, st), askT)
			}
			c.Check("C09.a", "application reservation keyed by the ask", w.Node, keyOK, "reservation stored under a key that is not the allocation key of the ask")
		}
		c.Floor("C09.a", "stores into Application.reservations", n, 1)
	}
	if fn := c.MustFunc("C09.a", "objects.Application.canAllocationReserve"); fn != nil {
		for _, ex := range p.returnsOf(fn) {
			rs, ok := ex.Node.(*ast.ReturnStmt)
			if !ok || len(rs.Results) != 1 || !p.isNilExpr(rs.Results[0]) {
				continue
			}
			st := ex.State
			notAlloc := p.Holds(st, p.CallAtom(false, func(cl *ast.CallExpr, a Atom) bool { return p.isParam(fn, Recv(cl), 0) }, "objects.Allocation.IsAllocated"))
			notRes := p.Holds(st, p.NilAtom(true, func(t Term) bool {
				d := p.DefOf(t)
				ix, ok := unparen(d.E).(*ast.IndexExpr)
				return ok && p.recvField(fn, ix.X, "objects.Application.reservations")
			}))
			c.Check("C09.a", "canAllocationReserve accepts only un-allocated, unreserved asks", rs, notAlloc && notRes, "canAllocationReserve returns nil without !IsAllocated() and reservations[key] == nil; facts: %v", p.FactStrings(st))
		}
	}

	// ---- C09.b three views together
	c.Rule("C09.b", "Application.Reserve is only called by PartitionContext.reserve which then updates the queue and the partition counter on the success path; every un-reservation passes its count on to Queue.UnReserve; every decrement of the partition counter uses a count that flows from a real removal")
	c.whoMayCall("C09.b", "objects.Application.Reserve", 1, map[string]string{"scheduler.PartitionContext.reserve": "the only place that keeps the three views in step"})
	if fn := c.MustFunc("C09.b", "scheduler.PartitionContext.reserve"); fn != nil {
		for _, callee := range []string{"objects.Queue.Reserve", "scheduler.PartitionContext.incReservationCount"} {
			calls := p.callsIn(fn, callee)
			for _, call := range calls {
				st := p.StateAt(fn, call)
				ok := p.Holds(st, p.ResultNilAtom(true, nil, "objects.Application.Reserve"))
				c.Check("C09.b", shortFn(callee)+" only after the application reserved", call, ok, "%s without app.Reserve(...) == nil", callee)
			}
			c.Floor("C09.b", callee+" in PartitionContext.reserve", len(calls), 1)
		}
	}
	// un-reservation counts flow to the queue
	nUn := 0
	for _, callee := range []string{"objects.Application.unReserveInternal", "objects.Application.UnReserve"} {
		for _, cs := range p.CallSitesByName(callee) {
			if cs.Caller.Name == "objects.Application.UnReserve" && callee == "objects.Application.unReserveInternal" {
				continue // returns the count to its caller
			}
			nUn++
			fn := cs.Caller
			// the result variable
			as, ok := p.Parent(cs.Call).(*ast.AssignStmt)
			if !ok || len(as.Lhs) != 1 {
				c.Check("C09.b", "un-reservation count kept in "+shortFn(fn.Name), cs.Call, false, "result of %s is dropped", callee)
				continue
			}
			obj := p.ObjOf(as.Lhs[0].(*ast.Ident))
			// followed by Queue.UnReserve(_, <that count or a sum fed by it>)
			isB := func(nn ast.Node) bool {
				cl, ok := nn.(*ast.CallExpr)
				if !ok || !p.IsCall(cl, "objects.Queue.UnReserve") || len(cl.Args) < 2 {
					return false
				}
				id, ok := unparen(cl.Args[1]).(*ast.Ident)
				if !ok {
					return false
				}
				if p.ObjOf(id) == obj {
					return true
				}
				// accumulated: toRelease += releases
				acc := false
				ast.Inspect(fn.Decl.Body, func(m ast.Node) bool {
					if a2, ok := m.(*ast.AssignStmt); ok && a2.Tok.String() == "+=" && len(a2.Lhs) == 1 && len(a2.Rhs) == 1 {
						l, ok1 := a2.Lhs[0].(*ast.Ident)
						r, ok2 := a2.Rhs[0].(*ast.Ident)
						if ok1 && ok2 && p.ObjOf(l) == p.ObjOf(id) && p.ObjOf(r) == obj {
							acc = true
						}
					}
					return true
				})
				return acc
			}
			b, why := p.FollowedBy(fn, as, isB)
			if b == nil {
				// accumulated inside a loop and handed over after it
				var loop ast.Node
				for par := p.Parent(as); par != nil; par = p.Parent(par) {
					if _, isR := par.(*ast.RangeStmt); isR {
						loop = par
						break
					}
					if _, isF := par.(*ast.FuncDecl); isF {
						break
					}
				}
				if loop != nil {
					accumulated := false
					if blk, ok := p.Parent(as).(*ast.BlockStmt); ok {
						for _, s := range blk.List {
							if a2, ok := s.(*ast.AssignStmt); ok && a2.Pos() > as.Pos() && a2.Tok.String() == "+=" && len(a2.Rhs) == 1 {
								if r, ok := a2.Rhs[0].(*ast.Ident); ok && p.ObjOf(r) == obj {
									accumulated = true
								}
							}
						}
					}
					if accumulated {
						b, why = p.FollowedBy(fn, loop, isB)
					}
				}
			}
			c.Check("C09.b", "un-reservation in "+shortFn(fn.Name)+" is passed on to the queue", cs.Call, b != nil, "count returned by %s does not reach Queue.UnReserve on every path (%s)", callee, why)
		}
	}
	c.Floor("C09.b", "un-reservation sites", nUn, 6)
	// partition counter decrements
	for _, cs := range p.CallSitesByName("scheduler.PartitionContext.decReservationCount") {
		fn := cs.Caller
		st := p.StateAt(fn, cs.Call)
		d := p.DefOf(T(cs.Call.Args[0], st))
		ok := false
		if cl, isC := unparen(d.E).(*ast.CallExpr); isC && p.IsCall(cl, "objects.Application.UnReserve") {
			ok = true
		}
		if f := p.SelField(d.E); f != nil && p.FieldName(f) == "objects.AllocationResult.CancelledReservations" {
			ok = true
		}
		c.Check("C09.b", "partition counter decremented in "+shortFn(fn.Name)+" by a real removal count", cs.Call, ok, "decReservationCount(%s) does not flow from Application.UnReserve / result.CancelledReservations", p.Src(d.E))
	}
	// CancelledReservations is only ever fed by cancelReservations
	for _, w := range p.FieldWrites(p.Field("objects.AllocationResult.CancelledReservations")) {
		if w.Kind == "compositelit" {
			continue
		}
		st := p.StateAt(w.Fn, w.Node)
		d := p.DefOf(T(w.Arg, st))
		ok := false
		if id, isI := unparen(w.Arg).(*ast.Ident); isI {
			// num is assigned from cancelReservations (conditionally) and zero otherwise
			ast.Inspect(w.Fn.Decl.Body, func(m ast.Node) bool {
				if as, isA := m.(*ast.AssignStmt); isA && len(as.Lhs) == 1 && len(as.Rhs) == 1 {
					if l, isL := as.Lhs[0].(*ast.Ident); isL && p.ObjOf(l) == p.ObjOf(id) {
						if cl, isC := unparen(as.Rhs[0]).(*ast.CallExpr); isC && p.IsCall(cl, "objects.Application.cancelReservations") {
							ok = true
						}
					}
				}
				return true
			})
		}
		_ = d
		c.Check("C09.b", "CancelledReservations set in "+shortFn(w.Fn.Name)+" from cancelReservations", w.Node, ok, "result.CancelledReservations = %s", p.Src(w.Arg))
	}
	c.fieldWritersConfined("C09.b", "objects.Queue.reservedApps", 3, func(w FieldWrite) (bool, string) {
		switch w.Fn.Name {
		case "objects.Queue.Reserve", "objects.Queue.UnReserve", "objects.newBlankQueue":
			return true, ""
		}
		return false, "Queue.reservedApps written in " + w.Fn.Name
	})
	c.fieldWritersConfined("C09.b", "objects.Application.reservations", 3, func(w FieldWrite) (bool, string) {
		switch w.Fn.Name {
		case "objects.Application.reserveInternal", "objects.Application.unReserveInternal", "objects.NewApplication":
			return true, ""
		}
		return false, "Application.reservations written in " + w.Fn.Name
	})
	c.fieldWritersConfined("C09.b", "objects.Node.reservations", 3, func(w FieldWrite) (bool, string) {
		switch w.Fn.Name {
		case "objects.Node.Reserve", "objects.Node.unReserve", "objects.NewNode":
			return true, ""
		}
		return false, "Node.reservations written in " + w.Fn.Name
	})
	if fn := c.MustFunc("C09.b", "objects.Application.unReserveInternal"); fn != nil {
		calls := p.callsIn(fn, "objects.Node.unReserve")
		c.Check("C09.b", "application un-reserve also un-reserves the node", fn.Decl, len(calls) >= 1, "unReserveInternal no longer calls node.unReserve")
	}

	// ---- C09.c exclusion
	c.Rule("C09.c", "the unreserved iterator is built with acceptUnreserved and handed out by GetNodeIterator; normal scheduling receives (unreserved, full) in that order; the filters are never reassigned; the iterator honours accept")
	if fn := c.MustFunc("C09.c", "objects.NewNodeCollection"); fn != nil {
		// what a field of the collection is assigned: NewTreeIterator(<filter>, ...) directly or through a local
		filterOf := func(field string) (string, int) {
			got, n := "", 0
			for _, w := range p.FieldWrites(p.Field(field)) {
				if w.Arg == nil {
					continue
				}
				n++
				for _, t := range p.chain(T(w.Arg, p.StateAt(w.Fn, w.Node))) {
					call, ok := unparen(t.E).(*ast.CallExpr)
					if !ok || !p.IsCall(call, "objects.NewTreeIterator") || len(call.Args) < 1 {
						continue
					}
					if id, isID := unparen(call.Args[0]).(*ast.Ident); isID {
						if o := p.ObjOf(id); o != nil && o.Pkg() != nil && o.Parent() == o.Pkg().Scope() {
							got = p.PkgShort(o.Pkg().Path()) + "." + o.Name()
						}
					}
				}
			}
			return got, n
		}
		uf, un := filterOf("objects.baseNodeCollection.unreservedIterator")
		ff, fnn := filterOf("objects.baseNodeCollection.fullIterator")
		c.Check("C09.c", "unreserved iterator filters with acceptUnreserved", fn.Decl, uf == "objects.acceptUnreserved", "baseNodeCollection.unreservedIterator is built with filter %q, expected acceptUnreserved", uf)
		c.Check("C09.c", "full iterator filters with acceptAll", fn.Decl, ff == "objects.acceptAll", "baseNodeCollection.fullIterator is built with filter %q, expected acceptAll", ff)
		c.Check("C09.c", "collection stores the unreserved iterator", fn.Decl, un == 1 && fnn == 1, "the iterator fields are assigned %d / %d times, expected once each (in the constructor)", un, fnn)
	}
	for _, pr := range [][2]string{{"objects.baseNodeCollection.GetNodeIterator", "objects.baseNodeCollection.unreservedIterator"}, {"objects.baseNodeCollection.GetFullNodeIterator", "objects.baseNodeCollection.fullIterator"}} {
		fn := c.MustFunc("C09.c", pr[0])
		if fn == nil {
			continue
		}
		ok := false
		for _, ex := range p.returnsOf(fn) {
			if rs, isR := ex.Node.(*ast.ReturnStmt); isR && len(rs.Results) == 1 && p.recvField(fn, rs.Results[0], pr[1]) {
				ok = true
			}
		}
		c.Check("C09.c", shortFn(pr[0])+" returns "+shortFn(pr[1]), fn.Decl, ok, "%s does not return %s", pr[0], pr[1])
	}
	for _, v := range []string{"acceptUnreserved", "acceptAll"} {
		n := 0
		for _, pk := range p.Pkgs {
			if p.pkgName[pk.PkgPath] != "objects" {
				continue
			}
			obj := pk.Types.Scope().Lookup(v)
			for id, o := range pk.TypesInfo.Uses {
				if o != obj {
					continue
				}
				if as, ok := p.Parent(id).(*ast.AssignStmt); ok {
					for _, l := range as.Lhs {
						if l == ast.Expr(id) {
							n++
						}
					}
				}
			}
		}
		c.Check("C09.c", v+" is never reassigned", nil, n == 0, "package variable %s is assigned %d time(s) outside its declaration", v, n)
	}
	if fn := c.MustFunc("C09.c", "objects.acceptUnreserved"); fn == nil {
		// it is a variable holding a literal: check the literal body
		for _, pk := range p.Pkgs {
			if p.pkgName[pk.PkgPath] != "objects" {
				continue
			}
			for _, f := range pk.Syntax {
				ast.Inspect(f, func(nn ast.Node) bool {
					vs, ok := nn.(*ast.ValueSpec)
					if !ok || len(vs.Names) != 1 || vs.Names[0].Name != "acceptUnreserved" || len(vs.Values) != 1 {
						return true
					}
					lit, ok := vs.Values[0].(*ast.FuncLit)
					okBody := false
					if ok && len(lit.Body.List) == 1 {
						if rs, ok := lit.Body.List[0].(*ast.ReturnStmt); ok && len(rs.Results) == 1 {
							if u, ok := unparen(rs.Results[0]).(*ast.UnaryExpr); ok && u.Op.String() == "!" {
								if cl, ok := unparen(u.X).(*ast.CallExpr); ok && p.IsCall(cl, "objects.Node.IsReserved") {
									okBody = true
								}
							}
						}
					}
					c.Check("C09.c", "acceptUnreserved = !node.IsReserved()", vs, okBody, "acceptUnreserved no longer returns !node.IsReserved()")
					return true
				})
			}
		}
		// remove the anchor failure recorded by MustFunc (acceptUnreserved is a variable, not a function)
		for i := range c.obs {
			if c.obs[i].Key == "anchor:objects.acceptUnreserved" {
				c.obs = append(c.obs[:i], c.obs[i+1:]...)
				break
			}
		}
	}
	if fn := c.MustFunc("C09.c", "objects.treeIterator.ForEachNode"); fn != nil {
		n := 0
		ast.Inspect(fn.Decl.Body, func(nn ast.Node) bool {
			call, ok := nn.(*ast.CallExpr)
			if !ok {
				return true
			}
			if id, ok := unparen(call.Fun).(*ast.Ident); ok && p.ObjOf(id) == paramObj(p, fn, 0) {
				n++
				st := p.StateAt(fn, call)
				ok := p.Holds(st, p.BoolAtom(true, func(t Term) bool {
					cl, ok := unparen(t.E).(*ast.CallExpr)
					return ok && p.recvField(fn, cl.Fun, "objects.treeIterator.accept") && len(cl.Args) >= 1 && p.Same(Term{E: cl.Args[0], Env: t.Env, Idx: -1}, T(call.Args[0], st))
				}))
				c.Check("C09.c", "iterator visits only accepted nodes", call, ok, "callback invoked for a node without ti.accept(node); facts: %v", p.FactStrings(st))
			}
			return true
		})
		c.Floor("C09.c", "callback invocations in ForEachNode", n, 1)
	}
	if fn := c.MustFunc("C09.c", "scheduler.PartitionContext.tryAllocate"); fn != nil {
		for _, call := range p.callsIn(fn, "objects.Queue.TryAllocate") {
			ok := len(call.Args) >= 4 && p.Src(call.Args[0]) == "pc.GetNodeIterator" && p.Src(call.Args[1]) == "pc.GetFullNodeIterator"
			c.Check("C09.c", "normal scheduling gets (unreserved, full) iterators in that order", call, ok, "TryAllocate(%s, %s, ...)", p.Src(call.Args[0]), p.Src(call.Args[1]))
		}
	}
	if fn := c.MustFunc("C09.c", "objects.Application.tryAllocate"); fn != nil {
		for _, call := range p.callsIn(fn, "objects.Application.tryNodes") {
			st := p.StateAt(fn, call)
			d := p.DefOf(T(call.Args[1], st))
			cl, ok := unparen(d.E).(*ast.CallExpr)
			okI := false
			if ok {
				if id, isI := unparen(cl.Fun).(*ast.Ident); isI && p.ObjOf(id) == paramObj(p, fn, 4) {
					okI = true
				}
			}
			c.Check("C09.c", "tryNodes iterates the unreserved view", call, okI, "tryNodes receives %s instead of nodeIterator()", p.Src(d.E))
		}
	}

	// ---- C09.d cleanup must-calls
	c.Rule("C09.d", "node removal, ask removal, application removal and allocation of a reserved ask all un-reserve")
	if fn := c.MustFunc("C09.d", "scheduler.PartitionContext.removeNode"); fn != nil {
		ok := false
		for _, call := range p.callsIn(fn, "scheduler.PartitionContext.unReserve") {
			st := p.StateAt(fn, call)
			if src, _, isRange := p.RangeSource(T(call.Args[0], st)); isRange || true {
				_ = src
				// inside a range over node.GetReservations()
				var par ast.Node = call
				for par != nil {
					if rs, isR := par.(*ast.RangeStmt); isR {
						// the reservations of the node, ranged over directly or read into a local first
						if p.reaches(T(rs.X, p.StateAt(fn, rs)), "objects.Node.GetReservations") {
							ok = true
						}
					}
					par = p.Parent(par)
				}
			}
		}
		c.Check("C09.d", "node removal un-reserves every reservation of the node", fn.Decl, ok, "removeNode no longer un-reserves node.GetReservations()")
		// before removing allocations
		un := p.callsIn(fn, "scheduler.PartitionContext.unReserve")
		rm := p.callsIn(fn, "scheduler.PartitionContext.removeNodeAllocations")
		c.Check("C09.d", "reservations cleared before allocations are removed", fn.Decl, len(un) > 0 && len(rm) > 0 && un[0].Pos() < rm[0].Pos(), "removeNode order changed")
	}
	if fn := c.MustFunc("C09.d", "objects.Application.removeAsksInternal"); fn != nil {
		calls := p.callsIn(fn, "objects.Application.unReserveInternal")
		c.Floor("C09.d", "un-reservations in removeAsksInternal", len(calls), 2)
		for _, w := range p.FieldWrites(p.Field("objects.Application.requests")) {
			if !p.inFn(w.Fn, fn) {
				continue
			}
			// each removal of asks is preceded by the matching un-reservation (same branch)
			prev := p.PrecededBy(fn, w.Node, func(nn ast.Node) bool {
				found := false
				ast.Inspect(nn, func(m ast.Node) bool {
					if cl, ok := m.(*ast.CallExpr); ok && p.IsCall(cl, "objects.Application.unReserveInternal") {
						found = true
					}
					return true
				})
				_, isIf := nn.(*ast.IfStmt)
				_, isRange := nn.(*ast.RangeStmt)
				return found && (isIf || isRange)
			})
			c.Check("C09.d", "asks removed ("+w.Kind+") only after their reservations", w.Node, prev != nil, "requests changed without a preceding un-reservation in the same branch")
		}
	}
	if fn := c.MustFunc("C09.d", "scheduler.PartitionContext.allocate"); fn != nil {
		calls := p.callsIn(fn, "scheduler.PartitionContext.unReserve")
		n := 0
		for _, call := range calls {
			st := p.StateAt(fn, call)
			isType := func(names ...string) Req {
				return func(a Atom) bool {
					op, x, y, okc := p.cmpParts(a)
					if !okc || op != tokEQL || !a.Val || !strings.HasSuffix(p.Src(x), "ResultType") {
						return false
					}
					for _, nm := range names {
						if p.Src(y) == nm {
							return true
						}
					}
					return false
				}
			}
			if p.Holds(st, isType("objects.Reserved")) {
				continue // moving a reservation to another node while reserving (C09.j), not the release of a served one
			}
			n++
			ok := p.Holds(st, isType("objects.Unreserved", "objects.AllocatedReserved"))
			c.Check("C09.d", "allocate() un-reserves for Unreserved / AllocatedReserved results", call, ok, "unReserve in allocate() is no longer tied to the Unreserved/AllocatedReserved result types; facts: %v", p.FactStrings(st))
		}
		c.Floor("C09.d", "unReserve in PartitionContext.allocate", n, 1)
	}
	if fn := c.MustFunc("C09.d", "objects.Application.tryReservedAllocate"); fn != nil {
		calls := p.callsIn(fn, "objects.newUnreservedAllocationResult")
		for _, call := range calls {
			st := p.StateAt(fn, call)
			ok := p.Holds(st, anyReq(
				p.NilAtom(true, func(t Term) bool {
					// the ask looked up for the reservation: sa.requests[<key of the reservation>]
					for _, ct := range p.chain(t) {
						if ix, isIx := unparen(ct.E).(*ast.IndexExpr); isIx {
							if f := p.SelField(ix.X); f != nil && f.Name() == "requests" {
								return true
							}
						}
					}
					return false
				}),
				p.CallAtom(true, nil, "objects.Allocation.IsAllocated")))
			c.Check("C09.d", "stale reservation (ask gone or allocated) is un-reserved", call, ok, "Unreserved result without (ask == nil || ask.IsAllocated())")
		}
		c.Floor("C09.d", "Unreserved results in tryReservedAllocate", len(calls), 1)
	}
}
