package main

import (
	"go/ast"
	"go/types"
)

// C06 — gang scheduling: placeholders are swapped, timed out and cleaned up consistently.

func init() { register("C06", rulesC06) }

type swapSite struct {
	node     ast.Node
	req, ph  ast.Expr
	label    string
	viaAlias bool
}

// swapSites finds every place in tryPlaceholderAllocate where a (real, placeholder) pair is committed
// to: request.SetRelease(ph) calls.  When the pair is carried by captured variables (phFit/reqFit)
// the obligation moves to the assignments of those variables.
func swapSites(c *Ctx, rule string, fn *Func) []swapSite {
	p := c.p
	var out []swapSite
	r := p.Walk(fn)
	seenAssign := map[ast.Node]bool{}
	for _, call := range p.callsIn(fn, "objects.Allocation.SetRelease") {
		rc := Recv(call)
		if rc == nil || len(call.Args) < 1 {
			continue
		}
		// only the real->placeholder direction identifies the pair; the other direction is checked in C06.b
		st := p.StateAt(fn, call)
		reqE, phE := rc, call.Args[0]
		// is this the real ask side? the placeholder comes from getPlaceholderAllocations (range) or a carrier variable
		isCarrier := func(e ast.Expr) types.Object {
			id, ok := unparen(e).(*ast.Ident)
			if !ok {
				return nil
			}
			o := p.ObjOf(id)
			if o != nil && r.assignCount[o] >= 1 && st.Env.get(o) == nil {
				if _, _, isRange := p.RangeSource(T(e, st)); !isRange {
					return o
				}
			}
			return nil
		}
		co1, co2 := isCarrier(reqE), isCarrier(phE)
		if co1 != nil && co2 != nil {
			// carried pair: find assignments "carrierPh = X" / "carrierReq = Y" in the same block
			ast.Inspect(fn.Decl.Body, func(n ast.Node) bool {
				as, ok := n.(*ast.AssignStmt)
				if !ok || len(as.Lhs) != 1 || len(as.Rhs) != 1 || seenAssign[as] {
					return true
				}
				id, ok := as.Lhs[0].(*ast.Ident)
				if !ok {
					return true
				}
				o := p.ObjOf(id)
				if o != co1 && o != co2 {
					return true
				}
				seenAssign[as] = true
				// sibling assignment of the other carrier in the same block
				blk, _ := p.Parent(as).(*ast.BlockStmt)
				var other *ast.AssignStmt
				if blk != nil {
					for _, s := range blk.List {
						if as2, ok := s.(*ast.AssignStmt); ok && as2 != as && len(as2.Lhs) == 1 && len(as2.Rhs) == 1 {
							if id2, ok := as2.Lhs[0].(*ast.Ident); ok {
								o2 := p.ObjOf(id2)
								if (o2 == co1 || o2 == co2) && o2 != o {
									other = as2
								}
							}
						}
					}
				}
				if other == nil {
					out = append(out, swapSite{node: as, label: "carrier " + id.Name + " assigned alone", viaAlias: true})
					return true
				}
				seenAssign[other] = true
				s := swapSite{node: as, viaAlias: true, label: "carried pair (" + id.Name + ")"}
				if o == co1 {
					s.req, s.ph = as.Rhs[0], other.Rhs[0]
				} else {
					s.ph, s.req = as.Rhs[0], other.Rhs[0]
				}
				out = append(out, s)
				return true
			})
			continue
		}
		// direct pair: decide direction by IsPlaceholder facts is not possible; use the provenance:
		// the placeholder is the one ranging over getPlaceholderAllocations()
		if src, _, ok := p.RangeSource(T(phE, st)); ok && isPlaceholderList(p, fn, src) {
			out = append(out, swapSite{node: call, req: reqE, ph: phE, label: "same-node swap"})
		}
	}
	return out
}

func isPlaceholderList(p *Prog, fn *Func, src Term) bool {
	d := p.DefOf(src)
	call, ok := unparen(d.E).(*ast.CallExpr)
	return ok && p.IsCall(call, "objects.Application.getPlaceholderAllocations") && p.isRecvExpr(fn, Recv(call))
}

// checkSwapPreconditions implements C06.a (and, with sizeOnly, C02.e).
func checkSwapPreconditions(c *Ctx, rule string, sizeOnly bool) {
	p := c.p
	fn := c.MustFunc(rule, "objects.Application.tryPlaceholderAllocate")
	if fn == nil {
		return
	}
	sites := swapSites(c, rule, fn)
	for _, s := range sites {
		if s.req == nil || s.ph == nil {
			c.Check(rule, "swap pair shape: "+s.label, s.node, false, "cannot identify the (real, placeholder) pair committed here")
			continue
		}
		st := p.StateAt(fn, s.node)
		reqT, phT := T(s.req, st), T(s.ph, st)
		size := p.Holds(st, p.CallAtom(false, func(call *ast.CallExpr, a Atom) bool {
			rc := Recv(call)
			if rc == nil {
				return false
			}
			for _, cc := range p.chain(a.term(rc)) {
				sub, ok := unparen(cc.E).(*ast.CallExpr)
				if ok && p.IsCall(sub, "resources.Sub") && len(sub.Args) >= 2 {
					t0 := Term{E: sub.Args[0], Env: cc.Env, Idx: -1}
					t1 := Term{E: sub.Args[1], Env: cc.Env, Idx: -1}
					if p.IsResOf(t0, phT) && p.IsResOf(t1, reqT) {
						return true
					}
				}
			}
			return false
		}, "resources.Resource.HasNegativeValue"))
		c.Check(rule, s.label+": real ask not larger than placeholder", s.node, size, "pair committed without !Sub(res(placeholder), res(real)).HasNegativeValue(); facts: %v", p.FactStrings(st))
		if sizeOnly {
			continue
		}
		onRecv := func(t Term) func(call *ast.CallExpr, a Atom) bool {
			return func(call *ast.CallExpr, a Atom) bool { return Recv(call) != nil && p.Same(a.term(Recv(call)), t) }
		}
		tg := p.Holds(st, p.CmpAtom(func(op tokenT, x, y Term) bool {
			if op != tokEQL {
				return false
			}
			isTG := func(t, of Term) bool {
				call, ok := unparen(t.E).(*ast.CallExpr)
				return ok && p.IsCall(call, "objects.Allocation.GetTaskGroup") && Recv(call) != nil && p.Same(Term{E: Recv(call), Env: t.Env, Frozen: t.Frozen, Idx: -1}, of)
			}
			return isTG(x, reqT) && isTG(y, phT)
		}))
		c.Check(rule, s.label+": same task group", s.node, tg, "pair committed without request.GetTaskGroup() == ph.GetTaskGroup(); facts: %v", p.FactStrings(st))
		c.Check(rule, s.label+": placeholder not released", s.node, p.Holds(st, p.CallAtom(false, onRecv(phT), "objects.Allocation.IsReleased")), "pair committed without !ph.IsReleased()")
		c.Check(rule, s.label+": placeholder not preempted", s.node, p.Holds(st, p.CallAtom(false, onRecv(phT), "objects.Allocation.IsPreempted")), "pair committed without !ph.IsPreempted()")
		c.Check(rule, s.label+": real ask is not a placeholder", s.node, p.Holds(st, p.CallAtom(false, onRecv(reqT), "objects.Allocation.IsPlaceholder")), "pair committed without !request.IsPlaceholder()")
		c.Check(rule, s.label+": real ask not yet allocated", s.node, p.Holds(st, p.CallAtom(false, onRecv(reqT), "objects.Allocation.IsAllocated")), "pair committed without !request.IsAllocated()")
		hasTG := p.Holds(st, p.CmpAtom(func(op tokenT, x, y Term) bool {
			call, ok := unparen(x.E).(*ast.CallExpr)
			return op == tokNEQ && ok && p.IsCall(call, "objects.Allocation.GetTaskGroup") && p.Same(Term{E: Recv(call), Env: x.Env, Frozen: x.Frozen, Idx: -1}, reqT) && p.IsEmptyString(y.E)
		}))
		c.Check(rule, s.label+": real ask has a task group", s.node, hasTG, "pair committed without request.GetTaskGroup() != \"\"")
		// provenance: placeholder from this application's own allocations, request from its own sorted requests
		src, _, isRange := p.RangeSource(phT)
		c.Check(rule, s.label+": placeholder belongs to this application", s.node, isRange && isPlaceholderList(p, fn, src), "placeholder does not come from sa.getPlaceholderAllocations()")
		rsrc, _, isRange2 := p.RangeSource(reqT)
		c.Check(rule, s.label+": real ask belongs to this application", s.node, isRange2 && p.recvField(fn, rsrc.E, "objects.Application.sortedRequests"), "real ask does not come from sa.sortedRequests")
	}
	c.Floor(rule, "swap pair commit sites in tryPlaceholderAllocate", len(sites), 2)
}

func rulesC06(c *Ctx) {
	p := c.p
	c.NotDecided("Replaced <= Count per task group at run time", "interleavings of timers and shim confirmations", "usage totals after a confirmed swap (values)")

	c.Rule("C06.a", "every (real, placeholder) pair committed in tryPlaceholderAllocate carries: same task group, placeholder neither released nor preempted, Sub(res(ph), res(real)) has no negative value, real ask is a non-placeholder, un-allocated member of a task group, both belong to this application")
	checkSwapPreconditions(c, "C06.a", false)

	fn := c.MustFunc("C06.b", "objects.Application.tryPlaceholderAllocate")
	if fn != nil {
		// ---- C06.b double link and release mark before a Replaced result
		c.Rule("C06.b", "a Replaced result is only produced after allocateAsk(req), req.SetRelease(ph), ph.SetRelease(req), ph.SetReleased(true) == nil and req.SetNodeID(node.NodeID)")
		results := p.callsIn(fn, "objects.newReplacedAllocationResult")
		for _, call := range results {
			st := p.StateAt(fn, call)
			reqT := T(call.Args[1], st)
			same := func(e ast.Expr, at *ast.CallExpr, t Term) bool { return e != nil && p.Same(T(e, p.StateAt(fn, at)), t) }
			alloc := p.DoneCall(st, func(cl *ast.CallExpr) bool { return len(cl.Args) >= 1 && same(cl.Args[0], cl, reqT) }, "objects.Application.allocateAsk")
			c.Check("C06.b", "allocateAsk before Replaced result", call, alloc != nil, "Replaced result without allocateAsk(request)")
			link1 := p.DoneCall(st, func(cl *ast.CallExpr) bool { return same(Recv(cl), cl, reqT) }, "objects.Allocation.SetRelease")
			c.Check("C06.b", "real->placeholder link before Replaced result", call, link1 != nil, "Replaced result without request.SetRelease(ph)")
			var phT Term
			link2ok, relOK := false, false
			if link1 != nil {
				phT = T(link1.Args[0], p.StateAt(fn, link1))
				link2 := p.DoneCall(st, func(cl *ast.CallExpr) bool {
					return same(Recv(cl), cl, phT) && len(cl.Args) >= 1 && same(cl.Args[0], cl, reqT)
				}, "objects.Allocation.SetRelease")
				link2ok = link2 != nil
				relOK = p.Holds(st, p.ResultNilAtom(true, func(cl *ast.CallExpr, a Atom) bool {
					return Recv(cl) != nil && p.Same(a.term(Recv(cl)), phT) && len(cl.Args) >= 1 && p.isConstBool(cl.Args[0], true)
				}, "objects.Allocation.SetReleased"))
			}
			c.Check("C06.b", "placeholder->real link before Replaced result", call, link2ok, "Replaced result without ph.SetRelease(request)")
			c.Check("C06.b", "placeholder marked released before Replaced result", call, relOK, "Replaced result without ph.SetReleased(true) == nil; facts: %v", p.FactStrings(st))
			nodeSet := p.DoneCall(st, func(cl *ast.CallExpr) bool {
				return same(Recv(cl), cl, reqT) && len(cl.Args) >= 1 && p.Same(T(cl.Args[0], p.StateAt(fn, cl)), T(call.Args[0], st))
			}, "objects.Allocation.SetNodeID")
			c.Check("C06.b", "node id bound before Replaced result", call, nodeSet != nil, "Replaced result without request.SetNodeID(<the node of the result>)")
		}
		c.Floor("C06.b", "Replaced results", len(results), 2)

		// ---- C06.c revert completeness
		c.Rule("C06.c", "every exit taken after the links were made and ph.SetReleased(true) failed has reverted: deallocateAsk(req), req.ClearRelease(), ph.ClearRelease() and, when the node was updated, node.RemoveAllocation(key(req))")
		r := p.Walk(fn)
		nrev := 0
		var exits []ast.Node
		ast.Inspect(fn.Decl.Body, func(n ast.Node) bool {
			switch x := n.(type) {
			case *ast.BranchStmt:
				exits = append(exits, x)
			case *ast.ReturnStmt:
				exits = append(exits, x)
			}
			return true
		})
		for _, ex := range exits {
			st := r.at[ex]
			if st == nil || st.Dead {
				continue
			}
			var link *ast.CallExpr
			for _, d := range st.Done {
				if cl, ok := d.(*ast.CallExpr); ok && p.IsCall(cl, "objects.Allocation.SetRelease") {
					link = cl
					break
				}
			}
			if link == nil {
				continue
			}
			reqT := T(Recv(link), p.StateAt(fn, link))
			phT := T(link.Args[0], p.StateAt(fn, link))
			failed := p.Holds(st, p.ResultNilAtom(false, func(cl *ast.CallExpr, a Atom) bool {
				return Recv(cl) != nil && p.Same(a.term(Recv(cl)), phT)
			}, "objects.Allocation.SetReleased"))
			if !failed {
				continue
			}
			nrev++
			after := func(cl *ast.CallExpr) bool { return cl.Pos() > link.Pos() }
			same := func(e ast.Expr, at *ast.CallExpr, t Term) bool { return e != nil && p.Same(T(e, p.StateAt(fn, at)), t) }
			d1 := p.DoneCall(st, func(cl *ast.CallExpr) bool { return after(cl) && len(cl.Args) >= 1 && same(cl.Args[0], cl, reqT) }, "objects.Application.deallocateAsk")
			c.Check("C06.c", "revert: deallocateAsk", ex, d1 != nil, "exit after a failed placeholder release without deallocateAsk(request)")
			d2 := p.DoneCall(st, func(cl *ast.CallExpr) bool { return after(cl) && same(Recv(cl), cl, reqT) }, "objects.Allocation.ClearRelease")
			c.Check("C06.c", "revert: real ask link cleared", ex, d2 != nil, "exit after a failed placeholder release without request.ClearRelease()")
			d3 := p.DoneCall(st, func(cl *ast.CallExpr) bool { return after(cl) && same(Recv(cl), cl, phT) }, "objects.Allocation.ClearRelease")
			c.Check("C06.c", "revert: placeholder link cleared", ex, d3 != nil, "exit after a failed placeholder release without ph.ClearRelease()")
			if try := p.DoneCall(st, func(cl *ast.CallExpr) bool { return len(cl.Args) >= 1 && same(cl.Args[0], cl, reqT) }, "objects.Node.TryAddAllocation"); try != nil {
				nodeT := T(Recv(try), p.StateAt(fn, try))
				d4 := p.DoneCall(st, func(cl *ast.CallExpr) bool {
					return cl.Pos() > try.Pos() && same(Recv(cl), cl, nodeT) && len(cl.Args) >= 1 && p.IsKeyOf(T(cl.Args[0], p.StateAt(fn, cl)), reqT)
				}, "objects.Node.RemoveAllocation")
				c.Check("C06.c", "revert: node allocation removed", ex, d4 != nil, "exit after a failed placeholder release without node.RemoveAllocation(key(request))")
			}
			// no Replaced result may follow on this path
			if rs, ok := ex.(*ast.ReturnStmt); ok && len(rs.Results) == 1 {
				c.Check("C06.c", "revert: no result", rs, p.isConstBool(rs.Results[0], false) || p.isNilExpr(rs.Results[0]), "a result is returned on the revert path")
			}
		}
		c.Floor("C06.c", "revert exits in tryPlaceholderAllocate", nrev, 2)
		// cross-node: allocateAsk failure must unwind the node
		nun := 0
		for _, ex := range exits {
			st := r.at[ex]
			if st == nil || st.Dead {
				continue
			}
			if !p.Holds(st, p.ResultNilAtom(false, nil, "objects.Application.allocateAsk")) {
				continue
			}
			try := p.DoneCall(st, nil, "objects.Node.TryAddAllocation")
			if try == nil {
				continue
			}
			nun++
			nodeT := T(Recv(try), p.StateAt(fn, try))
			d := p.DoneCall(st, func(cl *ast.CallExpr) bool {
				return cl.Pos() > try.Pos() && Recv(cl) != nil && p.Same(T(Recv(cl), p.StateAt(fn, cl)), nodeT)
			}, "objects.Node.RemoveAllocation")
			c.Check("C06.c", "unwind node when allocateAsk fails", ex, d != nil, "exit after node.TryAddAllocation succeeded and allocateAsk failed without node.RemoveAllocation")
		}
		c.Floor("C06.c", "allocateAsk-failure exits after a node update", nun, 1)
	}

	// ---- C06.d confirmation path
	c.Rule("C06.d", "Application.ReplaceAllocation adds the real allocation only for a found placeholder with a non-nil release link; PartitionContext.removeAllocation dereferences the release link only when it is non-nil and updates the node with ReplaceAllocation exactly on the same-node branch")
	if fn := c.MustFunc("C06.d", "objects.Application.ReplaceAllocation"); fn != nil {
		calls := p.callsIn(fn, "objects.Application.addAllocationInternal")
		for _, call := range calls {
			st := p.StateAt(fn, call)
			at := T(call.Args[1], st)
			nn := p.Holds(st, p.NilAtom(false, func(t Term) bool { return p.Same(t, at) }))
			d := p.DefOf(at)
			fromRel := false
			if gc, ok := unparen(d.E).(*ast.CallExpr); ok && p.IsCall(gc, "objects.Allocation.GetRelease") {
				phT := Term{E: Recv(gc), Env: d.Env, Idx: -1}
				pd := p.DefOf(phT)
				if rc, ok := unparen(pd.E).(*ast.CallExpr); ok && p.IsCall(rc, "objects.Application.removeAllocationInternal") {
					fromRel = p.Holds(st, p.NilAtom(false, func(t Term) bool { return p.Same(t, phT) }))
				}
			}
			c.Check("C06.d", "real allocation added only for a linked, removed placeholder", call, nn && fromRel, "addAllocationInternal(Replaced, x) where x is not a non-nil ph.GetRelease() of the placeholder just removed")
			ok := len(call.Args) >= 2 && p.Src(call.Args[0]) == "Replaced"
			c.Check("C06.d", "added with result type Replaced", call, ok, "ReplaceAllocation adds with type %s", p.Src(call.Args[0]))
		}
		c.Floor("C06.d", "addAllocationInternal in ReplaceAllocation", len(calls), 1)
		clr := p.callsIn(fn, "objects.Allocation.ClearRelease")
		c.Check("C06.d", "release link cleared after the swap", fn.Decl, len(clr) >= 1, "ReplaceAllocation no longer clears the release link of the real allocation")
	}
	if fn := c.MustFunc("C06.d", "scheduler.PartitionContext.removeAllocation"); fn != nil {
		// every use of alloc.GetRelease() result needs a non-nil fact
		n := 0
		for _, call := range p.callsIn(fn, "objects.Allocation.GetRelease") {
			as, ok := p.Parent(call).(*ast.AssignStmt)
			if !ok || len(as.Lhs) != 1 {
				continue
			}
			id, ok := as.Lhs[0].(*ast.Ident)
			if !ok {
				continue
			}
			obj := p.ObjOf(id)
			ast.Inspect(fn.Decl.Body, func(nn ast.Node) bool {
				sel, ok := nn.(*ast.SelectorExpr)
				if !ok {
					return true
				}
				uid, ok := unparen(sel.X).(*ast.Ident)
				if !ok || p.ObjOf(uid) != obj || sel.Pos() < as.End() {
					return true
				}
				n++
				st := p.StateAt(fn, sel)
				nonNil := st != nil && p.Holds(st, p.NilAtom(false, func(t Term) bool {
					tid, ok := unparen(t.E).(*ast.Ident)
					return ok && p.ObjOf(tid) == obj
				}))
				c.Check("C06.d", "release link checked before use in removeAllocation", sel, nonNil, "%s is used although alloc.GetRelease() may be nil (PLACEHOLDER_REPLACED for a placeholder with no swap in flight)", p.Src(sel))
				return true
			})
		}
		c.Floor("C06.d", "uses of the release link in removeAllocation", n, 3)
		rep := p.callsIn(fn, "objects.Node.ReplaceAllocation")
		for _, call := range rep {
			st := p.StateAt(fn, call)
			sameNode := p.Holds(st, p.CmpAtom(func(op tokenT, x, y Term) bool {
				cx, ok1 := unparen(x.E).(*ast.CallExpr)
				cy, ok2 := unparen(y.E).(*ast.CallExpr)
				return op == tokEQL && ok1 && ok2 && p.IsCall(cx, "objects.Allocation.GetNodeID") && p.IsCall(cy, "objects.Allocation.GetNodeID")
			}))
			c.Check("C06.d", "node swap only on the same node", call, sameNode, "node.ReplaceAllocation without confirmed.GetNodeID() == alloc.GetNodeID()")
		}
		c.Floor("C06.d", "Node.ReplaceAllocation in removeAllocation", len(rep), 1)
	}
	c.mustContainCalls("C06.d", "scheduler.PartitionContext.removeAllocation", "objects.Node.RemoveAllocation", "objects.Queue.DecAllocatedResource")
	c.mustContainCalls("C06.d", "scheduler.PartitionContext.removeNodeAllocations", "objects.Allocation.HasRelease", "objects.Allocation.ClearRelease", "objects.Application.DeallocateAsk", "objects.Application.ReplaceAllocation")

	// ---- C06.e placeholder timeout
	c.Rule("C06.e", "timeoutPlaceholderProcessing clears the placeholder timer on every exit; the not-started branch raises Fail for Hard and Resume otherwise, releases every allocation and every pending ask it could mark, removes all asks and notifies with TIMEOUT; per-task-group counters are only touched for existing entries")
	if fn := c.MustFunc("C06.e", "objects.Application.timeoutPlaceholderProcessing"); fn != nil {
		for _, ex := range p.returnsOf(fn) {
			d := p.DoneCall(ex.State, func(cl *ast.CallExpr) bool { return p.isRecvExpr(fn, Recv(cl)) }, "objects.Application.clearPlaceholderTimer")
			c.Check("C06.e", "placeholder timer cleared on exit", ex.Node, d != nil, "timeoutPlaceholderProcessing can exit without clearPlaceholderTimer()")
		}
		// event selection
		evCalls := p.callsIn(fn, "objects.Application.HandleApplicationEventWithInfo")
		for _, call := range evCalls {
			id, ok := unparen(call.Args[0]).(*ast.Ident)
			okSel := false
			if ok {
				obj := p.ObjOf(id)
				var vals []string
				hardGuard := false
				ast.Inspect(fn.Decl.Body, func(n ast.Node) bool {
					as, isA := n.(*ast.AssignStmt)
					if !isA || len(as.Lhs) != 1 || len(as.Rhs) != 1 {
						return true
					}
					lid, isI := as.Lhs[0].(*ast.Ident)
					if !isI || p.ObjOf(lid) != obj {
						return true
					}
					vals = append(vals, p.Src(as.Rhs[0]))
					if p.Src(as.Rhs[0]) == "FailApplication" {
						st := p.StateAt(fn, as)
						hardGuard = p.Holds(st, p.CmpAtom(func(op tokenT, x, y Term) bool {
							return op == tokEQL && p.recvField(fn, x.E, "objects.Application.gangSchedulingStyle") && p.Src(y.E) == "Hard"
						}))
					}
					return true
				})
				okSel = len(vals) == 2 && vals[0] == "ResumeApplication" && vals[1] == "FailApplication" && hardGuard
			}
			c.Check("C06.e", "Hard fails, Soft resumes", call, okSel, "the event raised on placeholder timeout is not (Resume by default, Fail iff gangSchedulingStyle == Hard)")
		}
		c.Floor("C06.e", "state events raised on timeout", len(evCalls), 1)
		// every append to a release list is guarded by a successful SetReleased on the same allocation
		napp := 0
		p.InspectDeep(fn, func(n ast.Node) bool {
			call, ok := n.(*ast.CallExpr)
			if !ok || len(call.Args) < 2 {
				return true
			}
			if id, ok := unparen(call.Fun).(*ast.Ident); !ok || id.Name != "append" {
				return true
			}
			if p.TypeName(p.TypeOf(call.Args[1])) != "objects.Allocation" {
				return true
			}
			napp++
			st := p.StateAt(fn, call)
			at := T(call.Args[1], st)
			okR := p.Holds(st, p.ResultNilAtom(true, func(cl *ast.CallExpr, a Atom) bool {
				return Recv(cl) != nil && p.Same(a.term(Recv(cl)), at)
			}, "objects.Allocation.SetReleased"))
			c.Check("C06.e", "released list holds only allocations marked released", call, okR, "allocation appended to a release list without SetReleased(true) == nil on it")
			return true
		})
		c.Floor("C06.e", "appends to release lists on timeout", napp, 3)
		notif := p.callsIn(fn, "objects.Application.notifyRMAllocationReleased")
		for _, call := range notif {
			c.Check("C06.e", "timeout releases use termination type TIMEOUT", call, len(call.Args) >= 3 && p.Src(call.Args[1]) == "si.TerminationType_TIMEOUT", "release announced with %s", p.Src(call.Args[1]))
		}
		c.Floor("C06.e", "release notifications on timeout", len(notif), 3)
		rm := p.callsIn(fn, "objects.Application.removeAsksInternal")
		okRm := false
		for _, call := range rm {
			if p.IsEmptyString(call.Args[0]) {
				okRm = true
			}
		}
		c.Check("C06.e", "all asks removed when the application did not start", fn.Decl, okRm, "timeoutPlaceholderProcessing no longer calls removeAsksInternal(\"\")")
	}
	// placeholderData entries are dereferenced only under a presence fact (all of application.go)
	c.Rule("C06.e2", "sa.placeholderData[tg] is dereferenced only when the entry is known to exist")
	nPD := 0
	for _, f := range p.funcs {
		if !p.methodOf(f, "objects.Application") || f.Decl.Body == nil {
			continue
		}
		ast.Inspect(f.Decl.Body, func(n ast.Node) bool {
			sel, ok := n.(*ast.SelectorExpr)
			if !ok {
				return true
			}
			ix, ok := unparen(sel.X).(*ast.IndexExpr)
			if !ok {
				return true
			}
			if fld := p.SelField(ix.X); fld == nil || p.FieldName(fld) != "objects.Application.placeholderData" {
				return true
			}
			nPD++
			st := p.StateAt(f, sel)
			// presence: `_, ok := m[k]; ok` on the same key, or a store m[k] = ... certainly executed before
			present := false
			if st != nil {
				present = p.Holds(st, func(a Atom) bool {
					if !a.Val {
						return false
					}
					id, ok := unparen(a.E).(*ast.Ident)
					if !ok {
						return false
					}
					d := a.Env.get(p.ObjOf(id))
					if d == nil || d.Kind != DefCommaOk {
						return false
					}
					dx, ok := unparen(d.Rhs).(*ast.IndexExpr)
					return ok && p.Same(Term{E: dx.Index, Env: d.Env, Idx: -1}, T(ix.Index, st)) && p.SelField(dx.X) == p.SelField(ix.X)
				})
				if !present {
					// negative form: if _, ok := m[k]; !ok { m[k] = ... }  => joined; accept a store in Done or Alt fact
					for _, d := range st.Done {
						if as, ok := d.(*ast.AssignStmt); ok {
							for _, l := range as.Lhs {
								if lx, ok := unparen(l).(*ast.IndexExpr); ok && p.SelField(lx.X) == p.SelField(ix.X) && p.Same(T(lx.Index, p.StateAt(f, as)), T(ix.Index, st)) {
									present = true
								}
							}
						}
					}
				}
				if !present {
					present = p.presentAfterEnsure(f, sel, ix)
				}
			}
			c.Check("C06.e2", "placeholderData entry present in "+f.Name, sel, present, "sa.placeholderData[%s] is dereferenced without knowing the entry exists (nil pointer for an ask whose task group has no placeholder data)", p.Src(ix.Index))
			return true
		})
	}
	c.Floor("C06.e2", "dereferences of placeholderData entries", nPD, 2)

	// ---- C06.f no placeholder outlives its application
	c.Rule("C06.f", "RemoveAllAllocations empties allocations and both totals and clears both timers on every exit; enter_Completed clears the placeholder timer and the asks")
	if fn := c.MustFunc("C06.f", "objects.Application.RemoveAllAllocations"); fn != nil {
		for _, fld := range []string{"allocations", "allocatedResource", "allocatedPlaceholder"} {
			found := false
			for _, w := range p.FieldWrites(p.Field("objects.Application." + fld)) {
				if p.inFn(w.Fn, fn) && w.Kind == "assign" {
					if call, ok := unparen(w.Arg).(*ast.CallExpr); ok && (p.IsCall(call, "resources.NewResource") || p.Src(call.Fun) == "make") {
						// unconditional: top-level statement of the body
						if p.Parent(w.Node) == ast.Node(fn.Decl.Body) {
							found = true
						}
					}
				}
			}
			c.Check("C06.f", "RemoveAllAllocations resets "+fld, fn.Decl, found, "RemoveAllAllocations no longer resets Application.%s unconditionally", fld)
		}
		for _, ex := range p.returnsOf(fn) {
			for _, callee := range []string{"objects.Application.clearPlaceholderTimer", "objects.Application.clearStateTimer"} {
				d := p.DoneCall(ex.State, nil, callee)
				c.Check("C06.f", "RemoveAllAllocations: "+shortFn(callee), ex.Node, d != nil, "RemoveAllAllocations can exit without %s", callee)
			}
		}
	}
}

// presentAfterEnsure recognises the ensure idiom:
//
//	if _, ok := m[k]; !ok { m[k] = &T{} }
//	m[k].f++
func (p *Prog) presentAfterEnsure(fn *Func, use ast.Node, ix *ast.IndexExpr) bool {
	found := false
	ensure := func(n ast.Node) bool {
		ifs, ok := n.(*ast.IfStmt)
		if !ok || ifs.Else != nil || ifs.Init == nil {
			return false
		}
		as, ok := ifs.Init.(*ast.AssignStmt)
		if !ok || len(as.Rhs) != 1 {
			return false
		}
		dx, ok := unparen(as.Rhs[0]).(*ast.IndexExpr)
		if !ok || p.SelField(dx.X) != p.SelField(ix.X) {
			return false
		}
		if !p.Same(T(dx.Index, p.StateAt(fn, as)), T(ix.Index, p.StateAt(fn, use))) {
			return false
		}
		if u, ok := unparen(ifs.Cond).(*ast.UnaryExpr); !ok || u.Op.String() != "!" {
			return false
		}
		for _, s := range ifs.Body.List {
			if st, ok := s.(*ast.AssignStmt); ok {
				for _, l := range st.Lhs {
					if lx, ok := unparen(l).(*ast.IndexExpr); ok && p.SelField(lx.X) == p.SelField(ix.X) {
						return true
					}
				}
			}
		}
		return false
	}
	if p.PrecededBy(fn, use, ensure) != nil {
		found = true
	}
	return found
}
