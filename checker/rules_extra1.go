package main

// Rules added after the first round of independently seeded changes (see DESIGN.md, section 6.1).

import (
	"go/ast"
	"go/token"
	"go/types"
)

func init() {
	registerExtra("C03", ruleSwapDeltaOrientation("C03.f"))
	registerExtra("C06", ruleSwapDeltaOrientation("C06.g"))
	registerExtra("C12", ruleSwapDeltaOrientation("C12.d"))
	registerExtra("C03", ruleRemoveApplicationIndependent)
	registerExtra("C08", ruleSnapshotCopyComplete)
	registerExtra("C08", ruleQuotaDelayDelta)
	registerExtra("C01", ruleSwapNotLargerC01)
}

// resOfAlloc: e is x.GetAllocatedResource(); returns x.
func (p *Prog) resOfAlloc(e ast.Expr) ast.Expr {
	call, ok := unparen(e).(*ast.CallExpr)
	if !ok || !p.IsCall(call, fnGetAllocatedResource) {
		return nil
	}
	return Recv(call)
}

// ruleSwapDeltaOrientation: wherever the size difference between the two halves of a placeholder
// swap is computed as resources.Sub(res(a), res(b)) with one allocation being the other's release
// link, the FIRST operand is the real allocation (x.GetRelease()) and the second the placeholder x:
// the code that follows treats a negative delta as "placeholder larger" and adds it to queue/node.
func ruleSwapDeltaOrientation(rule string) func(c *Ctx) {
	return func(c *Ctx) {
		p := c.p
		c.Rule(rule, "the queue/node adjustment when a placeholder swap is confirmed is computed as Sub(res(real), res(placeholder)) where real = placeholder.GetRelease(): both confirmation sites agree on the orientation")
		n := 0
		for _, fn := range p.funcs {
			if fn.Decl.Body == nil || !(p.InPkg(fn, "scheduler") || p.InPkg(fn, "objects")) {
				continue
			}
			ast.Inspect(fn.Decl.Body, func(nd ast.Node) bool {
				call, ok := nd.(*ast.CallExpr)
				if !ok || !p.IsCall(call, "resources.Sub") || len(call.Args) < 2 {
					return true
				}
				a, b := p.resOfAlloc(call.Args[0]), p.resOfAlloc(call.Args[1])
				if a == nil || b == nil {
					return true
				}
				st := p.StateAt(fn, call)
				isReleaseOf := func(x, y ast.Expr) bool { // x == y.GetRelease()
					for _, t := range p.chain(T(x, st)) {
						if rc, ok := unparen(t.E).(*ast.CallExpr); ok && p.IsCall(rc, "objects.Allocation.GetRelease") && Recv(rc) != nil {
							if p.Same(Term{E: Recv(rc), Env: t.Env, Frozen: t.Frozen, Idx: -1}, T(y, st)) {
								return true
							}
						}
					}
					return false
				}
				// fallback for a variable declared outside a loop and assigned conditionally: every
				// assignment of x in the function is nil or y.GetRelease()
				viaAssign := func(x, y ast.Expr) bool {
					xi, ok1 := unparen(x).(*ast.Ident)
					yi, ok2 := unparen(y).(*ast.Ident)
					if !ok1 || !ok2 {
						return false
					}
					xo, yo := p.ObjOf(xi), p.ObjOf(yi)
					nAs, good := 0, true
					ast.Inspect(fn.Decl.Body, func(m ast.Node) bool {
						as, ok := m.(*ast.AssignStmt)
						if !ok || len(as.Lhs) != len(as.Rhs) {
							return true
						}
						for i, l := range as.Lhs {
							li, ok := unparen(l).(*ast.Ident)
							if !ok || p.ObjOf(li) != xo {
								continue
							}
							nAs++
							rc, isCall := unparen(as.Rhs[i]).(*ast.CallExpr)
							if p.isNilExpr(as.Rhs[i]) {
								continue
							}
							if !isCall || !p.IsCall(rc, "objects.Allocation.GetRelease") || Recv(rc) == nil {
								good = false
								continue
							}
							ri, ok := unparen(Recv(rc)).(*ast.Ident)
							if !ok || p.ObjOf(ri) != yo {
								good = false
							}
						}
						return true
					})
					return nAs > 0 && good
				}
				ab, ba := isReleaseOf(a, b) || viaAssign(a, b), isReleaseOf(b, a) || viaAssign(b, a)
				if !ab && !ba {
					return true
				}
				n++
				c.Check(rule, "swap delta orientation in "+fn.Name, call, ab && !ba, "the swap delta is computed as %s: placeholder minus real; the following code treats negative components as 'placeholder larger' and adds the delta to the ledgers, so the orientation must be Sub(res(x.GetRelease()), res(x))", p.Src(call))
				return true
			})
		}
		c.Floor(rule, "swap delta computations", n, 2)
	}
}

// ruleRemoveApplicationIndependent: the clean-ups performed when an application leaves its queue
// are independent of each other: none of them is skipped because another one ran.
func ruleRemoveApplicationIndependent(c *Ctx) {
	p := c.p
	c.Rule("C03.g", "in Queue.RemoveApplication each ledger clean-up (pending, allocated, placeholder, preempting, maps) is conditioned only on its own operand: no clean-up sits in the else-branch of another")
	fn := c.MustFunc("C03.g", "objects.Queue.RemoveApplication")
	if fn == nil {
		return
	}
	type cleanup struct {
		call *ast.CallExpr
		op   types.Object
	}
	var cs []cleanup
	for _, call := range p.callsIn(fn, "objects.Queue.decPendingResource", "objects.Queue.DecAllocatedResource", "objects.Queue.DecPreemptingResource") {
		if len(call.Args) < 1 {
			continue
		}
		var o types.Object
		if id, ok := unparen(call.Args[0]).(*ast.Ident); ok {
			o = p.ObjOf(id)
		}
		cs = append(cs, cleanup{call, o})
	}
	for i, k := range cs {
		st := p.StateAt(fn, k.call)
		bad := ""
		for _, a := range p.AllAtoms(st) {
			for j, other := range cs {
				if i == j || other.op == nil || other.op == k.op {
					continue
				}
				if p.mentionsObj(a.E, other.op) {
					bad = p.Src(a.E)
				}
			}
		}
		c.Check("C03.g", "clean-up "+p.CalleeName(k.call)+"("+p.Src(k.call.Args[0])+") is unconditional w.r.t. the others", k.call, bad == "", "this clean-up only runs under a condition on another clean-up's operand (%s): an application holding both kinds of resource leaves one of them booked on the queue", bad)
	}
	c.Floor("C03.g", "ledger clean-ups in Queue.RemoveApplication", len(cs), 4)
	// the map deletions are top-level statements
	nDel := 0
	for _, s := range fn.Decl.Body.List {
		if es, ok := s.(*ast.ExprStmt); ok {
			if call, ok := es.X.(*ast.CallExpr); ok {
				if id, ok := unparen(call.Fun).(*ast.Ident); ok && id.Name == "delete" {
					nDel++
				}
			}
		}
	}
	c.Check("C03.g", "application removed from the three queue maps unconditionally", fn.Decl, nDel >= 3, "only %d unconditional delete() statements remain in RemoveApplication (applications, appPriorities, allocatingAcceptedApps)", nDel)
}

// ruleSnapshotCopyComplete: Duplicate() of the preemption snapshot copies every field.
func ruleSnapshotCopyComplete(c *Ctx) {
	p := c.p
	c.Rule("C08.e", "QueuePreemptionSnapshot.Duplicate copies every field of the snapshot (victim selection works on duplicates: a field left out - e.g. the resources already being preempted - silently changes the guarantee arithmetic), resource fields by Clone()")
	fn := c.MustFunc("C08.e", "objects.QueuePreemptionSnapshot.Duplicate")
	st := p.Struct("objects.QueuePreemptionSnapshot")
	if fn == nil || st == nil {
		c.Check("C08.e", "anchor:objects.QueuePreemptionSnapshot", nil, st != nil, "struct does not resolve")
		return
	}
	found := false
	ast.Inspect(fn.Decl.Body, func(n ast.Node) bool {
		cl, ok := n.(*ast.CompositeLit)
		if !ok || p.TypeName(p.TypeOf(cl)) != "objects.QueuePreemptionSnapshot" {
			return true
		}
		found = true
		set := map[string]ast.Expr{}
		for _, el := range cl.Elts {
			if kv, ok := el.(*ast.KeyValueExpr); ok {
				set[kv.Key.(*ast.Ident).Name] = kv.Value
			}
		}
		for i := 0; i < st.NumFields(); i++ {
			f := st.Field(i)
			v, has := set[f.Name()]
			c.Check("C08.e", "Duplicate copies "+f.Name(), cl, has, "field %s is not copied by Duplicate()", f.Name())
			if has && p.TypeName(f.Type()) == "resources.Resource" {
				call, isCall := unparen(v).(*ast.CallExpr)
				okClone := isCall && p.IsCall(call, "resources.Resource.Clone")
				if okClone {
					_, okClone = p.fieldSel(Recv(call), "objects.QueuePreemptionSnapshot."+f.Name())
				}
				c.Check("C08.e", "Duplicate clones "+f.Name(), cl, okClone, "resource field %s is not copied as qps.%s.Clone(): the duplicate would share or mix ledgers", f.Name(), f.Name())
			}
		}
		return false
	})
	c.Check("C08.e", "Duplicate builds a snapshot literal", fn.Decl, found, "no QueuePreemptionSnapshot literal in Duplicate")
}

// ruleQuotaDelayDelta: the quota-preemption start time is only moved by (new delay - old delay).
func ruleQuotaDelayDelta(c *Ctx) {
	p := c.p
	c.Rule("C08.f", "setPreemptionTime moves an existing start time only by (current delay - old delay), or sets it to now + current delay: every sibling site agrees (an inverted difference starts quota preemption before the configured delay has elapsed)")
	fn := c.MustFunc("C08.f", "objects.Queue.setPreemptionTime")
	f := p.Field("objects.Queue.quotaPreemptionStartTime")
	if fn == nil || f == nil {
		return
	}
	n := 0
	for _, w := range p.FieldWrites(f) {
		if !p.inFn(w.Fn, fn) || w.Arg == nil {
			continue
		}
		call, ok := unparen(w.Arg).(*ast.CallExpr)
		if !ok {
			continue // time.Time{} resets
		}
		sel, ok := unparen(call.Fun).(*ast.SelectorExpr)
		if !ok || sel.Sel.Name != "Add" || len(call.Args) < 1 {
			continue
		}
		n++
		arg := unparen(call.Args[0])
		ok = false
		if _, isDelay := p.fieldSel(arg, "objects.Queue.quotaPreemptionDelay"); isDelay {
			ok = true
		}
		if be, isBin := arg.(*ast.BinaryExpr); isBin && be.Op == token.SUB {
			_, l := p.fieldSel(be.X, "objects.Queue.quotaPreemptionDelay")
			ok = l && p.isParam(fn, be.Y, 1)
		}
		c.Check("C08.f", "start time shift in setPreemptionTime", w.Node, ok, "the start time is moved by %s: expected sq.quotaPreemptionDelay or sq.quotaPreemptionDelay - oldDelay", p.Src(arg))
	}
	c.Floor("C08.f", "start-time shifts in setPreemptionTime", n, 3)
}

// ruleSwapNotLargerC01: the same-node placeholder swap has no node fit check of its own, so the
// node can only stay within capacity if the real ask is not larger than the placeholder it replaces.
func ruleSwapNotLargerC01(c *Ctx) {
	c.Rule("C01.h", "every placeholder swap commit in tryPlaceholderAllocate is dominated by !Sub(res(placeholder), res(real)).HasNegativeValue() (full Sub: a resource type missing from the placeholder counts as larger); the same-node swap has no node fit check of its own, so this is what keeps the node within capacity; shared with C02.e/C06.a")
	checkSwapPreconditions(c, "C01.h", true)
}
