package main

import (
	"fmt"
	"sort"
)

func dumpDebug(p *Prog, what string) {
	switch what {
	case "names":
		p.dumpNames()
	case "helpers":
		for _, fn := range p.funcs {
			if hs := p.HelperSite(fn); hs != nil {
				fmt.Printf("%s <- %s (root %s)\n", fn.Name, hs.Caller.Name, p.HelperRoot(fn).Name)
			}
		}
	case "locals":
		p.dumpLocals()
	case "fields":
		p.dumpFields()
	case "cha":
		roots := []string{"scheduler.ClusterContext.schedule", "objects.Queue.TryQuotaPreemption", "objects.Application.timeoutStateTimer", "objects.Application.timeoutPlaceholderProcessing"}
		for _, g := range []string{"vta", "cha"} {
			r := p.Reachable(g, roots...)
			for _, t := range []string{"objects.Node.AddAllocation", "objects.Queue.IncAllocatedResource", "objects.Node.UpdateAllocatedResource", "objects.Node.SetCapacity", "objects.Node.SetOccupiedResource", "objects.Node.UpdateForeignAllocation"} {
				fn := p.Funcs[t]
				fmt.Printf("%s %s reachable=%v %s\n", g, t, r.Has(fn), func() string {
					if r.Has(fn) {
						return r.Path(p, fn)
					}
					return ""
				}())
			}
			fmt.Println(g, "reachable declared functions:", len(r.set))
		}
	case "nil":
		na := p.Nil()
		scope := func(fn *Func) bool {
			for _, s := range []string{"scheduler", "objects", "ugm", "placement", "security", "rmproxy"} {
				if p.InPkg(fn, s) {
					return true
				}
			}
			return false
		}
		n, bad := 0, 0
		for _, s := range na.Sites(scope) {
			n++
			if !s.OK {
				bad++
				fmt.Printf("NIL %s %s in %s: %s\n", p.Pos(s.Node), p.Src(s.Node), s.Fn.Name, s.Source)
			}
		}
		fmt.Println("sites", n, "undischarged", bad, "mayNil funcs", len(na.mayNil))
	case "locks":
		la := p.Locks()
		for _, n := range la.sortedStructNames() {
			ls := la.structs[n]
			var g []string
			for f := range ls.Guarded {
				g = append(g, f.Name())
			}
			sort.Strings(g)
			fmt.Printf("STRUCT %s lock=%s guarded=%v\n", n, ls.Lock.Name(), g)
		}
		cnt := map[string]int{}
		for _, a := range la.accesses {
			cnt[a.Status]++
			if a.Status == "violation" {
				fmt.Printf("ACCESS-VIOLATION %s %s.%s write=%v held=%d in %s %s\n", p.Pos(a.Node), a.Struct.Name, a.Field.Name(), a.Write, a.Held, a.Fn.Name, a.Why)
			}
		}
		fmt.Println("access status counts:", cnt)
		for _, v := range la.callViol {
			fmt.Printf("CALL-VIOLATION %s %s calls %s needing lock(level %d) on param %d held=%d: %s\n", p.Pos(v.Call), v.Caller.Name, v.Callee.Name, v.Level, v.Param, v.Held, v.Why)
		}
		for _, fn := range p.funcs {
			lf := la.funcs[fn]
			if lf == nil {
				continue
			}
			for _, e := range lf.events {
				fmt.Printf("EVENT %s %s owner=%s in %s\n", e.Kind, p.Pos(e.Node), e.Owner, fn.Name)
			}
			if len(lf.requires) > 0 && len(p.CallSites(fn.Obj)) == 0 {
				for k, r := range lf.requires {
					fmt.Printf("ROOT-REQUIRES %s param %d level %d: %s\n", fn.Name, k, r.Level, r.Why)
				}
			}
		}
		for _, r := range la.Reentrancy() {
			fmt.Printf("REENTRY %s %s calls %s which takes lock(%d) of %s already held(%d)\n", p.Pos(r.Call), r.Caller.Name, r.Callee.Name, r.Takes, r.Owner, r.Held)
		}
		for _, s := range la.SameTypeSites() {
			fmt.Printf("SAMETYPE %s %s in %s: holds %s, takes %s via %s\n", p.Pos(s.Call), s.Type, s.Fn.Name, s.Held, s.Other, p.Src(s.Call))
		}
		edges := la.TypeEdges()
		var ks []string
		for a := range edges {
			ks = append(ks, a)
		}
		sort.Strings(ks)
		for _, a := range ks {
			for b, ex := range edges[a] {
				fmt.Printf("EDGE %s -> %s  e.g. %s\n", a, b, ex)
			}
		}
	}
}
