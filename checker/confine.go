package main

// E9 (part): field-write index, mutating-method inference, structural "followed by".

import (
	"go/ast"
	"go/token"
	"go/types"
)

type FieldWrite struct {
	Fn    *Func
	Node  ast.Node // the statement / call performing the write
	Field *types.Var
	Kind  string   // assign | elem | delete | mutcall:<method> | incdec | addr | compositelit
	Base  ast.Expr // x in x.f
	Arg   ast.Expr // assigned value / first argument of the mutating call (may be nil)
	Lit   *ast.FuncLit
}

var externalMutators = map[string]bool{
	"github.com/google/btree.BTree.ReplaceOrInsert": true,
	"github.com/google/btree.BTree.Delete":          true,
	"github.com/google/btree.BTree.Clear":           true,
	"github.com/google/btree.BTree.DeleteMin":       true,
	"github.com/google/btree.BTree.DeleteMax":       true,
}

type writeIndex struct {
	byField  map[*types.Var][]FieldWrite
	mutating map[*types.Func]bool
}

var widx *writeIndex

// recvObj returns the receiver variable of a declared method.
func (p *Prog) recvObj(fn *Func) types.Object {
	if fn.Decl.Recv == nil || len(fn.Decl.Recv.List) == 0 || len(fn.Decl.Recv.List[0].Names) == 0 {
		return nil
	}
	return p.ObjOf(fn.Decl.Recv.List[0].Names[0])
}

func (p *Prog) rootIdent(e ast.Expr) *ast.Ident {
	for {
		switch x := unparen(e).(type) {
		case *ast.Ident:
			return x
		case *ast.SelectorExpr:
			e = x.X
		case *ast.IndexExpr:
			e = x.X
		case *ast.StarExpr:
			e = x.X
		case *ast.SliceExpr:
			e = x.X
		default:
			return nil
		}
	}
}

// lvalueField: if e denotes (an element of) a struct field x.f, return f, x.
func (p *Prog) lvalueField(e ast.Expr) (*types.Var, ast.Expr, bool) {
	e = unparen(e)
	elem := false
	for {
		switch x := e.(type) {
		case *ast.IndexExpr:
			e = unparen(x.X)
			elem = true
			continue
		case *ast.SliceExpr:
			e = unparen(x.X)
			continue
		case *ast.StarExpr:
			e = unparen(x.X)
			continue
		}
		break
	}
	if f := p.SelField(e); f != nil {
		return f, unparen(e).(*ast.SelectorExpr).X, elem
	}
	return nil, nil, false
}

func (p *Prog) isMutating(fn *types.Func) bool {
	p.buildWrites()
	if fn == nil {
		return false
	}
	if widx.mutating[fn.Origin()] {
		return true
	}
	return externalMutators[p.FuncName(fn)]
}

func (p *Prog) buildWrites() {
	if widx != nil {
		return
	}
	widx = &writeIndex{byField: map[*types.Var][]FieldWrite{}, mutating: map[*types.Func]bool{}}
	// 1. mutating methods: pointer-receiver (or map/slice-typed receiver) methods that write through the receiver
	changed := true
	for changed {
		changed = false
		for _, fn := range p.funcs {
			if fn.Decl.Body == nil || widx.mutating[fn.Obj] {
				continue
			}
			r := p.recvObj(fn)
			if r == nil {
				continue
			}
			if _, isPtr := r.Type().(*types.Pointer); !isPtr {
				switch r.Type().Underlying().(type) {
				case *types.Map, *types.Slice:
				default:
					continue
				}
			}
			mut := false
			through := func(e ast.Expr) bool {
				id := p.rootIdent(e)
				return id != nil && p.ObjOf(id) == r
			}
			ast.Inspect(fn.Decl.Body, func(n ast.Node) bool {
				if mut {
					return false
				}
				switch x := n.(type) {
				case *ast.AssignStmt:
					for _, l := range x.Lhs {
						if _, isIdent := unparen(l).(*ast.Ident); !isIdent && through(l) {
							mut = true
						}
					}
				case *ast.IncDecStmt:
					if _, isIdent := unparen(x.X).(*ast.Ident); !isIdent && through(x.X) {
						mut = true
					}
				case *ast.CallExpr:
					if id, ok := unparen(x.Fun).(*ast.Ident); ok && id.Name == "delete" && len(x.Args) == 2 && through(x.Args[0]) {
						mut = true
					}
					if callee := p.Callee(x); callee != nil && (widx.mutating[callee] || externalMutators[p.FuncName(callee)]) {
						if rc := Recv(x); rc != nil && through(rc) {
							mut = true
						}
					}
				}
				return true
			})
			if mut {
				widx.mutating[fn.Obj] = true
				changed = true
			}
		}
	}
	// 2. field writes
	for _, fn := range p.funcs {
		if fn.Decl.Body == nil {
			continue
		}
		var lits []*ast.FuncLit
		add := func(n ast.Node, f *types.Var, base ast.Expr, kind string, arg ast.Expr) {
			fw := FieldWrite{Fn: fn, Node: n, Field: f, Kind: kind, Base: base, Arg: arg}
			if len(lits) > 0 {
				fw.Lit = lits[len(lits)-1]
			}
			widx.byField[f] = append(widx.byField[f], fw)
		}
		var visit func(n ast.Node) bool
		visit = func(n ast.Node) bool {
			switch x := n.(type) {
			case *ast.FuncLit:
				lits = append(lits, x)
				ast.Inspect(x.Body, visit)
				lits = lits[:len(lits)-1]
				return false
			case *ast.AssignStmt:
				for i, l := range x.Lhs {
					if f, base, elem := p.lvalueField(l); f != nil {
						var arg ast.Expr
						if len(x.Rhs) == len(x.Lhs) {
							arg = x.Rhs[i]
						} else if len(x.Rhs) == 1 {
							arg = x.Rhs[0]
						}
						k := "assign"
						if elem {
							k = "elem"
						}
						if x.Tok != token.ASSIGN && x.Tok != token.DEFINE {
							k = "opassign"
						}
						add(x, f, base, k, arg)
					}
				}
			case *ast.IncDecStmt:
				if f, base, _ := p.lvalueField(x.X); f != nil {
					add(x, f, base, "incdec", nil)
				}
			case *ast.RangeStmt:
				for _, l := range []ast.Expr{x.Key, x.Value} {
					if l == nil {
						continue
					}
					if f, base, _ := p.lvalueField(l); f != nil && x.Tok == token.ASSIGN {
						add(x, f, base, "assign", nil)
					}
				}
			case *ast.UnaryExpr:
				if x.Op == token.AND {
					if f, base, _ := p.lvalueField(x.X); f != nil {
						if _, isLit := unparen(x.X).(*ast.CompositeLit); !isLit {
							add(x, f, base, "addr", nil)
						}
					}
				}
			case *ast.CallExpr:
				if id, ok := unparen(x.Fun).(*ast.Ident); ok && id.Name == "delete" && len(x.Args) == 2 {
					if _, isB := p.ObjOf(id).(*types.Builtin); isB {
						if f, base, _ := p.lvalueField(x.Args[0]); f != nil {
							add(x, f, base, "delete", x.Args[1])
						}
					}
				}
				if callee := p.Callee(x); callee != nil && p.isMutating(callee) {
					if rc := Recv(x); rc != nil {
						if f, base, _ := p.lvalueField(rc); f != nil {
							var arg ast.Expr
							if len(x.Args) > 0 {
								arg = x.Args[0]
							}
							add(x, f, base, "mutcall:"+callee.Name(), arg)
						}
					}
				}
			case *ast.CompositeLit:
				// struct literal initialisation T{f: v}
				if st, ok := p.TypeOf(x).Underlying().(*types.Struct); ok {
					for _, el := range x.Elts {
						if kv, ok := el.(*ast.KeyValueExpr); ok {
							if id, ok := kv.Key.(*ast.Ident); ok {
								for i := 0; i < st.NumFields(); i++ {
									if st.Field(i).Name() == id.Name {
										add(kv, st.Field(i), nil, "compositelit", kv.Value)
									}
								}
							}
						}
					}
				}
			}
			return true
		}
		ast.Inspect(fn.Decl.Body, visit)
	}
}

// FieldWrites lists every write to the field in non-test code.
func (p *Prog) FieldWrites(f *types.Var) []FieldWrite {
	p.buildWrites()
	return widx.byField[f]
}

// ------------------------------------------------------------- structural post-dominance

// leaves reports whether the statement can leave the enclosing block (return / branch / panic),
// looking into nested statements but not into function literals.
func (p *Prog) canLeave(s ast.Stmt) bool {
	found := false
	ast.Inspect(s, func(n ast.Node) bool {
		if found {
			return false
		}
		switch x := n.(type) {
		case *ast.FuncLit:
			return false
		case *ast.ReturnStmt:
			found = true
		case *ast.BranchStmt:
			// break/continue binding to a loop/switch nested inside s do not leave s
			found = found || p.branchEscapes(s, x)
		case *ast.CallExpr:
			if id, ok := unparen(x.Fun).(*ast.Ident); ok && id.Name == "panic" {
				found = true
			}
		}
		return true
	})
	return found
}

func (p *Prog) branchEscapes(root ast.Stmt, b *ast.BranchStmt) bool {
	// walk up from b to root; if a loop (for break/continue) or switch/select (for break) is in between, it does not escape
	var n ast.Node = b
	for n != nil && n != root {
		n = p.Parent(n)
		switch n.(type) {
		case *ast.ForStmt, *ast.RangeStmt:
			if n != root {
				return false
			}
		case *ast.SwitchStmt, *ast.TypeSwitchStmt, *ast.SelectStmt:
			if b.Tok == token.BREAK && n != root {
				return false
			}
		}
	}
	return true
}

// FollowedBy: after node w (inside fn), on every path to a normal exit of the function (or of the
// enclosing function literal), a statement accepted by isB executes unconditionally.  The search
// climbs from w's block outwards through if/else/switch/block statements; loops stop the climb
// (the pairing must then be inside the loop body iteration).  A deferred B registered before w
// also counts.  Returns the matching node.
func (p *Prog) FollowedBy(fn *Func, w ast.Node, isB func(n ast.Node) bool) (ast.Node, string) {
	// a deferred B registered on every path before w also runs after w
	if st := p.StateAt(fn, w); st != nil {
		for _, d := range st.Done {
			if call, ok := d.(*ast.CallExpr); ok && p.IsDeferred(call) && isB(call) {
				return call, ""
			}
		}
	}
	cur := w
	for {
		parent := p.Parent(cur)
		if parent == nil {
			return nil, "reached top without a match"
		}
		switch x := parent.(type) {
		case *ast.BlockStmt:
			// the body of a switch / select lists alternatives, not successors
			switch p.Parent(x).(type) {
			case *ast.SwitchStmt, *ast.TypeSwitchStmt, *ast.SelectStmt:
			default:
				if n, why, done := p.scanAfter(x.List, cur, isB); done {
					return n, why
				}
			}
		case *ast.CaseClause:
			if n, why, done := p.scanAfter(x.Body, cur, isB); done {
				return n, why
			}
		case *ast.CommClause:
			if n, why, done := p.scanAfter(x.Body, cur, isB); done {
				return n, why
			}
		case *ast.FuncDecl, *ast.FuncLit:
			return nil, "end of function reached without the paired update"
		case *ast.ForStmt, *ast.RangeStmt:
			return nil, "end of loop body reached without the paired update"
		}
		cur = parent
	}
}

// scanAfter scans the statements following the one that contains cur.
func (p *Prog) scanAfter(list []ast.Stmt, cur ast.Node, isB func(n ast.Node) bool) (ast.Node, string, bool) {
	idx := -1
	for i, s := range list {
		if s.Pos() <= cur.Pos() && cur.End() <= s.End() {
			idx = i
			break
		}
	}
	if idx < 0 {
		return nil, "", false
	}
	for _, s := range list[idx+1:] {
		if n := p.stmtIsB(s, isB); n != nil {
			return n, "", true
		}
		if p.canLeave(s) {
			if p.leavesOnlyAfterB(s, isB) {
				continue // every leaving path inside s performs B first; keep looking for the fall-through path
			}
			return nil, "a path leaves at " + p.Pos(s) + " before the paired update", true
		}
	}
	return nil, "", false
}

// leavesOnlyAfterB: s is an if statement whose leaving branches each perform B (unconditionally,
// at the top level of the branch) before they leave.
func (p *Prog) leavesOnlyAfterB(s ast.Stmt, isB func(n ast.Node) bool) bool {
	ifs, ok := s.(*ast.IfStmt)
	if !ok {
		return false
	}
	if ifs.Init != nil && p.canLeave(ifs.Init) {
		return false
	}
	branchOK := func(list []ast.Stmt) bool {
		for _, in := range list {
			if p.stmtIsB(in, isB) != nil {
				return true
			}
			if p.canLeave(in) {
				if !p.leavesOnlyAfterB(in, isB) {
					return false
				}
			}
		}
		return true // does not leave at all
	}
	if !branchOK(ifs.Body.List) {
		return false
	}
	switch e := ifs.Else.(type) {
	case nil:
		return true
	case *ast.BlockStmt:
		return branchOK(e.List)
	case *ast.IfStmt:
		return !p.canLeave(e) || p.leavesOnlyAfterB(e, isB)
	}
	return false
}

// stmtIsB: statement s unconditionally performs B (as its own statement, the call of an
// expression statement, an assignment, or the right-hand side call of an assignment).
func (p *Prog) stmtIsB(s ast.Stmt, isB func(n ast.Node) bool) ast.Node {
	if isB(s) {
		return s
	}
	switch x := s.(type) {
	case *ast.ExprStmt:
		if isB(x.X) {
			return x.X
		}
	case *ast.AssignStmt:
		for _, r := range x.Rhs {
			if isB(unparen(r)) {
				return r
			}
		}
	case *ast.BlockStmt:
		for _, in := range x.List {
			if n := p.stmtIsB(in, isB); n != nil {
				return n
			}
			if p.canLeave(in) {
				return nil
			}
		}
	case *ast.IfStmt:
		// both branches perform B
		if x.Else != nil {
			a := p.stmtIsB(x.Body, isB)
			var b ast.Node
			if eb, ok := x.Else.(*ast.BlockStmt); ok {
				b = p.stmtIsB(eb, isB)
			} else if ei, ok := x.Else.(*ast.IfStmt); ok {
				b = p.stmtIsB(ei, isB)
			}
			if a != nil && b != nil {
				return a
			}
		}
	case *ast.SwitchStmt:
		// every clause, including a default, performs B
		var first ast.Node
		hasDefault := false
		for _, cl := range x.Body.List {
			cc, ok := cl.(*ast.CaseClause)
			if !ok {
				return nil
			}
			if cc.List == nil {
				hasDefault = true
			}
			n := p.stmtIsB(&ast.BlockStmt{List: cc.Body, Lbrace: cc.Pos()}, isB)
			if n == nil {
				return nil
			}
			if first == nil {
				first = n
			}
		}
		if hasDefault {
			return first
		}
	}
	return nil
}
