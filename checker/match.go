package main

// Fact queries: terms, structural equality through definitions, atom expansion,
// implication of requirements, caller discharge.

import (
	"fmt"
	"go/ast"
	"go/constant"
	"go/token"
	"go/types"
)

type Term struct {
	E      ast.Expr
	Env    *Env
	Frozen map[types.Object]bool
	Idx    int // when E is a multi-value call: which result; -1 otherwise
}

func T(e ast.Expr, st *State) Term {
	var env *Env
	if st != nil {
		env = st.Env
	}
	return Term{E: e, Env: env, Idx: -1}
}

// chain returns the term followed by its successive definitions.
func (p *Prog) chain(t Term) []Term { return p.chainOpt(t, true) }

// chainOpt: with wrap, calls of pure wrappers are followed into the expression they return.
func (p *Prog) chainOpt(t Term, wrap bool) []Term {
	out := []Term{t}
	cur := t
	for i := 0; i < 8; i++ {
		id, ok := unparen(cur.E).(*ast.Ident)
		if !ok {
			// a call of a pure wrapper stands for the expression the wrapper returns
			if nt, isWrap := p.Unwrap(cur); wrap && isWrap {
				cur = nt
				out = append(out, cur)
				continue
			}
			break
		}
		o := p.ObjOf(id)
		if o == nil {
			break
		}
		d := cur.Env.get(o)
		if d == nil || d.Rhs == nil {
			break
		}
		if d.Kind != DefAssign && d.Kind != DefTypeSwitch {
			break
		}
		rhs := unparen(d.Rhs)
		if ta, ok := rhs.(*ast.TypeAssertExpr); ok && d.Idx <= 0 {
			rhs = unparen(ta.X)
		}
		cur = Term{E: rhs, Env: d.Env, Idx: d.Idx}
		out = append(out, cur)
	}
	return out
}

// DefOf returns the final definition of a term (following plain aliases).
func (p *Prog) DefOf(t Term) Term {
	c := p.chainOpt(t, false)
	return c[len(c)-1]
}

// RangeSource: if t is (an alias of) a range value/key variable, returns the ranged expression.
func (p *Prog) RangeSource(t Term) (Term, DefKind, bool) {
	for _, c := range p.chain(t) {
		id, ok := unparen(c.E).(*ast.Ident)
		if !ok {
			continue
		}
		o := p.ObjOf(id)
		if o == nil {
			continue
		}
		if d := c.Env.get(o); d != nil && (d.Kind == DefRangeVal || d.Kind == DefRangeKey) {
			return Term{E: d.Rhs, Env: d.Env, Idx: -1}, d.Kind, true
		}
	}
	return Term{}, 0, false
}

func (p *Prog) Same(a, b Term) bool {
	ca, cb := p.chain(a), p.chain(b)
	for _, x := range ca {
		for _, y := range cb {
			if p.same1(x, y, 0) {
				return true
			}
		}
	}
	return false
}

func (p *Prog) same1(x, y Term, depth int) bool {
	if depth > 8 {
		return false
	}
	ex, ey := unparen(x.E), unparen(y.E)
	if ex == nil || ey == nil {
		return false
	}
	if x.Idx != y.Idx && (x.Idx > 0 || y.Idx > 0) {
		return false
	}
	sub := func(a, b ast.Expr) bool {
		return p.sameDepth(Term{E: a, Env: x.Env, Frozen: x.Frozen, Idx: -1}, Term{E: b, Env: y.Env, Frozen: y.Frozen, Idx: -1}, depth+1)
	}
	switch a := ex.(type) {
	case *ast.Ident:
		b, ok := ey.(*ast.Ident)
		if !ok {
			return false
		}
		oa, ob := p.ObjOf(a), p.ObjOf(b)
		if oa == nil || ob == nil {
			return a.Name == b.Name && (a.Name == "nil" || a.Name == "true" || a.Name == "false")
		}
		if oa != ob {
			return false
		}
		if v, isVar := oa.(*types.Var); isVar && !v.IsField() && v.Parent() != nil && v.Parent() != v.Pkg().Scope() {
			if x.Frozen[oa] || y.Frozen[oa] {
				return false
			}
			if x.Env != nil && y.Env != nil && x.Env.get(oa) != y.Env.get(oa) {
				return false
			}
		}
		return true
	case *ast.BasicLit:
		b, ok := ey.(*ast.BasicLit)
		return ok && a.Kind == b.Kind && a.Value == b.Value
	case *ast.SelectorExpr:
		b, ok := ey.(*ast.SelectorExpr)
		if !ok {
			return false
		}
		oa, ob := p.ObjOf(a.Sel), p.ObjOf(b.Sel)
		if oa == nil || oa != ob {
			return false
		}
		if _, isPkg := p.ObjOf(identOf(a.X)).(*types.PkgName); isPkg {
			return true
		}
		return sub(a.X, b.X)
	case *ast.CallExpr:
		b, ok := ey.(*ast.CallExpr)
		if !ok || len(a.Args) != len(b.Args) {
			return false
		}
		ca, cb := p.Callee(a), p.Callee(b)
		if ca == nil || ca != cb {
			// conversions / builtins
			if ca == nil && cb == nil {
				if !sub(a.Fun, b.Fun) {
					return false
				}
			} else {
				return false
			}
		} else if sa, ok := unparen(a.Fun).(*ast.SelectorExpr); ok {
			sb, ok2 := unparen(b.Fun).(*ast.SelectorExpr)
			if !ok2 {
				return false
			}
			if _, isPkg := p.ObjOf(identOf(sa.X)).(*types.PkgName); !isPkg {
				if !sub(sa.X, sb.X) {
					return false
				}
			}
		}
		for i := range a.Args {
			if !sub(a.Args[i], b.Args[i]) {
				return false
			}
		}
		return true
	case *ast.StarExpr:
		b, ok := ey.(*ast.StarExpr)
		return ok && sub(a.X, b.X)
	case *ast.UnaryExpr:
		b, ok := ey.(*ast.UnaryExpr)
		return ok && a.Op == b.Op && sub(a.X, b.X)
	case *ast.BinaryExpr:
		b, ok := ey.(*ast.BinaryExpr)
		return ok && a.Op == b.Op && sub(a.X, b.X) && sub(a.Y, b.Y)
	case *ast.IndexExpr:
		b, ok := ey.(*ast.IndexExpr)
		return ok && sub(a.X, b.X) && sub(a.Index, b.Index)
	case *ast.TypeAssertExpr:
		b, ok := ey.(*ast.TypeAssertExpr)
		return ok && sub(a.X, b.X)
	}
	return false
}

func (p *Prog) sameDepth(a, b Term, depth int) bool {
	for _, x := range p.chain(a) {
		for _, y := range p.chain(b) {
			if p.same1(x, y, depth) {
				return true
			}
		}
	}
	return false
}

func identOf(e ast.Expr) *ast.Ident {
	id, _ := unparen(e).(*ast.Ident)
	if id == nil {
		return &ast.Ident{Name: "\x00"}
	}
	return id
}

// ------------------------------------------------------------------ atoms

type Atom struct {
	E      ast.Expr
	Val    bool
	Env    *Env
	Frozen map[types.Object]bool
}

func (a Atom) term(e ast.Expr) Term { return Term{E: e, Env: a.Env, Frozen: a.Frozen, Idx: -1} }

// atoms expands a (possibly compound) boolean with known value into the atomic facts it implies.
func (p *Prog) atoms(e ast.Expr, val bool, env *Env, frozen map[types.Object]bool, depth int) []Atom {
	e = unparen(e)
	if depth > 6 || e == nil {
		return nil
	}
	switch x := e.(type) {
	case *ast.UnaryExpr:
		if x.Op == token.NOT {
			return p.atoms(x.X, !val, env, frozen, depth+1)
		}
	case *ast.BinaryExpr:
		if (x.Op == token.LAND && val) || (x.Op == token.LOR && !val) {
			return append(p.atoms(x.X, val, env, frozen, depth+1), p.atoms(x.Y, val, env, frozen, depth+1)...)
		}
	case *ast.CallExpr:
		// a boolean helper of the module: what its answer implies
		out := []Atom{{E: e, Val: val, Env: env, Frozen: frozen}}
		if inl := p.inlineLocals(e, env, frozen, 0); inl != e {
			out = append(out, Atom{E: inl, Val: val, Env: env, Frozen: frozen})
		}
		return append(out, p.impliedByCall(x, val, env, depth)...)
	case *ast.Ident:
		out := []Atom{{E: e, Val: val, Env: env, Frozen: frozen}}
		if o := p.ObjOf(x); o != nil {
			if d := env.get(o); d != nil && d.Rhs != nil && d.Idx == -1 && d.Kind == DefAssign {
				if b, ok := p.TypeOf(d.Rhs).Underlying().(*types.Basic); ok && b.Info()&types.IsBoolean != 0 {
					out = append(out, p.atoms(d.Rhs, val, d.Env, nil, depth+1)...)
				}
			} else if d != nil && d.Rhs != nil && d.Idx >= 0 && d.Kind == DefAssign {
				// the boolean among several results of a module function: what that answer implies
				if call, isCall := unparen(d.Rhs).(*ast.CallExpr); isCall {
					if sig, isSig := p.TypeOf(call.Fun).(*types.Signature); isSig && sig.Results().Len() > 1 {
						out = append(out, p.impliedByCallK(call, d.Idx, sig.Results().Len(), val, d.Env, depth)...)
					}
				}
				// one of several results of a helper that only computes and returns them
				if ut, ok := p.Unwrap(Term{E: d.Rhs, Env: d.Env, Idx: d.Idx}); ok {
					if b, isB := p.TypeOf(x).Underlying().(*types.Basic); isB && b.Info()&types.IsBoolean != 0 {
						out = append(out, p.atoms(ut.E, val, ut.Env, nil, depth+1)...)
					}
				}
			}
		}
		return out
	}
	out := []Atom{{E: e, Val: val, Env: env, Frozen: frozen}}
	// the same fact with the locals that only hold a value read earlier (v := x.Get()) written out
	if inl := p.inlineLocals(e, env, frozen, 0); inl != e {
		out = append(out, Atom{E: inl, Val: val, Env: env, Frozen: frozen})
	}
	return out
}

// inlineLocals returns e, or a copy of e in which identifiers with a known single definition are replaced
// by the defining call / selector / index expression (the reverse of "read once into a local").  Original
// sub-expressions are reused, so type and callee resolution keep working below the rewritten spine.
func (p *Prog) inlineLocals(e ast.Expr, env *Env, frozen map[types.Object]bool, depth int) ast.Expr {
	if e == nil || depth > 3 || env == nil {
		return e
	}
	in := func(x ast.Expr) ast.Expr { return p.inlineLocals(x, env, frozen, depth) }
	switch x := e.(type) {
	case *ast.Ident:
		o := p.ObjOf(x)
		if o == nil || frozen[o] {
			return e
		}
		d := env.get(o)
		if d == nil || d.Rhs == nil || d.Kind != DefAssign || d.Idx > 0 {
			return e
		}
		switch r := unparen(d.Rhs).(type) {
		case *ast.CallExpr:
			if d.Idx == 0 {
				return e // first of several results: not the call itself
			}
			return p.inlineLocals(r, d.Env, nil, depth+1)
		case *ast.SelectorExpr, *ast.IndexExpr:
			return p.inlineLocals(r.(ast.Expr), d.Env, nil, depth+1)
		}
		return e
	case *ast.ParenExpr:
		if n := in(x.X); n != x.X {
			return &ast.ParenExpr{Lparen: x.Lparen, X: n, Rparen: x.Rparen}
		}
	case *ast.SelectorExpr:
		if n := in(x.X); n != x.X {
			return &ast.SelectorExpr{X: n, Sel: x.Sel}
		}
	case *ast.StarExpr:
		if n := in(x.X); n != x.X {
			return &ast.StarExpr{Star: x.Star, X: n}
		}
	case *ast.UnaryExpr:
		if n := in(x.X); n != x.X {
			return &ast.UnaryExpr{OpPos: x.OpPos, Op: x.Op, X: n}
		}
	case *ast.BinaryExpr:
		a, b := in(x.X), in(x.Y)
		if a != x.X || b != x.Y {
			return &ast.BinaryExpr{X: a, OpPos: x.OpPos, Op: x.Op, Y: b}
		}
	case *ast.IndexExpr:
		a, b := in(x.X), in(x.Index)
		if a != x.X || b != x.Index {
			return &ast.IndexExpr{X: a, Lbrack: x.Lbrack, Index: b, Rbrack: x.Rbrack}
		}
	case *ast.CallExpr:
		changed := false
		fun := x.Fun
		if sel, ok := unparen(x.Fun).(*ast.SelectorExpr); ok {
			if _, isPkg := p.ObjOf(identOf(sel.X)).(*types.PkgName); !isPkg {
				if n := in(sel.X); n != sel.X {
					fun = &ast.SelectorExpr{X: n, Sel: sel.Sel}
					changed = true
				}
			}
		}
		args := make([]ast.Expr, len(x.Args))
		for i, a := range x.Args {
			args[i] = in(a)
			if args[i] != a {
				changed = true
			}
		}
		if changed {
			return &ast.CallExpr{Fun: fun, Lparen: x.Lparen, Args: args, Ellipsis: x.Ellipsis, Rparen: x.Rparen}
		}
	}
	return e
}

// disjuncts returns, for a compound fact that is a disjunction, the list of alternatives;
// each alternative is a conjunction of atoms.
func (p *Prog) disjuncts(a Atom) [][]Atom {
	x, ok := unparen(a.E).(*ast.BinaryExpr)
	if !ok {
		return nil
	}
	var parts []ast.Expr
	var collect func(e ast.Expr, op token.Token)
	collect = func(e ast.Expr, op token.Token) {
		if b, ok := unparen(e).(*ast.BinaryExpr); ok && b.Op == op {
			collect(b.X, op)
			collect(b.Y, op)
			return
		}
		parts = append(parts, e)
	}
	if x.Op == token.LOR && a.Val {
		collect(x, token.LOR)
		var out [][]Atom
		for _, pe := range parts {
			out = append(out, p.atoms(pe, true, a.Env, a.Frozen, 0))
		}
		return out
	}
	if x.Op == token.LAND && !a.Val {
		collect(x, token.LAND)
		var out [][]Atom
		for _, pe := range parts {
			out = append(out, p.atoms(pe, false, a.Env, a.Frozen, 0))
		}
		return out
	}
	return nil
}

type Req func(a Atom) bool

// Holds: the state implies the requirement (some atom satisfies it, or every alternative of a
// known disjunction contains an atom satisfying it).
func (p *Prog) Holds(st *State, r Req) bool {
	if st == nil {
		return false
	}
	p.holdsState = st
	defer func() { p.holdsState = nil }()
	for _, f := range st.Facts {
		if p.factHolds(f, r) {
			return true
		}
	}
	return false
}

// altContradicted: an alternative of a join-disjunction contains an atom whose negation is known
// unconditionally in the state: that alternative cannot be the one that holds.
func (p *Prog) altContradicted(alt []*Fact, st *State) bool {
	if st == nil {
		return false
	}
	for _, af := range alt {
		if af.Alt != nil {
			continue
		}
		for _, a1 := range p.atoms(af.E, af.Val, af.Env, af.Frozen, 0) {
			for _, bf := range st.Facts {
				if bf.Alt != nil {
					continue
				}
				for _, a2 := range p.atoms(bf.E, bf.Val, bf.Env, bf.Frozen, 0) {
					if a1.Val != a2.Val && p.Same(a1.term(a1.E), a2.term(a2.E)) {
						return true
					}
				}
			}
		}
	}
	return false
}

func (p *Prog) factHolds(f *Fact, r Req) bool {
	if f.Alt != nil {
		live := 0
		for _, alt := range f.Alt {
			if p.altContradicted(alt, p.holdsState) {
				continue
			}
			live++
			ok := false
			for _, af := range alt {
				if p.factHolds(af, r) {
					ok = true
					break
				}
			}
			if !ok {
				return false
			}
		}
		return live > 0
	}
	for _, a := range p.atoms(f.E, f.Val, f.Env, f.Frozen, 0) {
		if r(a) {
			return true
		}
		if alts := p.disjuncts(a); alts != nil {
			all := true
			for _, alt := range alts {
				ok := false
				for _, aa := range alt {
					if r(aa) {
						ok = true
						break
					}
					// nested disjunctions are not unfolded
				}
				if !ok {
					all = false
					break
				}
			}
			if all {
				return true
			}
		}
	}
	return false
}

// AllAtoms lists every atom known in the state (for reporting).
func (p *Prog) AllAtoms(st *State) []Atom {
	var out []Atom
	if st == nil {
		return nil
	}
	for _, f := range st.Facts {
		if f.Alt != nil {
			continue
		}
		out = append(out, p.atoms(f.E, f.Val, f.Env, f.Frozen, 0)...)
	}
	return out
}

func (p *Prog) FactStrings(st *State) []string {
	var out []string
	for _, a := range p.AllAtoms(st) {
		s := p.Src(a.E)
		if !a.Val {
			s = "!(" + s + ")"
		}
		out = append(out, s)
	}
	return out
}

// ---- atom predicates

// callAtom: atom is (a variable defined as) a call to one of names with the given boolean value.
func (p *Prog) CallAtom(val bool, pred func(call *ast.CallExpr, a Atom) bool, names ...string) Req {
	return func(a Atom) bool {
		if a.Val != val {
			return false
		}
		for _, c := range p.chain(a.term(a.E)) {
			call, ok := unparen(c.E).(*ast.CallExpr)
			if !ok || !p.IsCall(call, names...) {
				continue
			}
			aa := Atom{E: call, Val: a.Val, Env: c.Env, Frozen: c.Frozen}
			if pred == nil || pred(call, aa) {
				return true
			}
		}
		return false
	}
}

// cmpParts normalises a comparison atom into (op, x, y) with negation folded into op.
func (p *Prog) cmpParts(a Atom) (token.Token, ast.Expr, ast.Expr, bool) {
	b, ok := unparen(a.E).(*ast.BinaryExpr)
	if !ok {
		return 0, nil, nil, false
	}
	op := b.Op
	switch op {
	case token.EQL, token.NEQ, token.LSS, token.LEQ, token.GTR, token.GEQ:
	default:
		return 0, nil, nil, false
	}
	if !a.Val {
		switch op {
		case token.EQL:
			op = token.NEQ
		case token.NEQ:
			op = token.EQL
		case token.LSS:
			op = token.GEQ
		case token.LEQ:
			op = token.GTR
		case token.GTR:
			op = token.LEQ
		case token.GEQ:
			op = token.LSS
		}
	}
	return op, b.X, b.Y, true
}

func flipOp(op token.Token) token.Token {
	switch op {
	case token.LSS:
		return token.GTR
	case token.LEQ:
		return token.GEQ
	case token.GTR:
		return token.LSS
	case token.GEQ:
		return token.LEQ
	}
	return op
}

func (p *Prog) isNilExpr(e ast.Expr) bool {
	id, ok := unparen(e).(*ast.Ident)
	if !ok || id.Name != "nil" {
		return false
	}
	_, isNil := p.ObjOf(id).(*types.Nil)
	return isNil
}

// NilAtom: atom says pred-matching expression is nil (isNil) or non-nil.
func (p *Prog) NilAtom(isNil bool, pred func(t Term) bool) Req {
	return func(a Atom) bool {
		op, x, y, ok := p.cmpParts(a)
		if !ok || (op != token.EQL && op != token.NEQ) {
			return false
		}
		var e ast.Expr
		if p.isNilExpr(y) {
			e = x
		} else if p.isNilExpr(x) {
			e = y
		} else {
			return false
		}
		if (op == token.EQL) != isNil {
			return false
		}
		return pred(a.term(e))
	}
}

// ErrNilAtom: the error (or pointer) result of a call to names is nil / non-nil.
func (p *Prog) ResultNilAtom(isNil bool, pred func(call *ast.CallExpr, a Atom) bool, names ...string) Req {
	return p.NilAtom(isNil, func(t Term) bool {
		for _, c := range p.chain(t) {
			call, ok := unparen(c.E).(*ast.CallExpr)
			if !ok || !p.IsCall(call, names...) {
				continue
			}
			if pred == nil || pred(call, Atom{E: call, Env: c.Env, Frozen: c.Frozen}) {
				return true
			}
		}
		return false
	})
}

// CmpAtom: atom is a comparison accepted by pred (op normalised for negation; both orientations tried).
func (p *Prog) CmpAtom(pred func(op token.Token, x, y Term) bool) Req {
	return func(a Atom) bool {
		op, x, y, ok := p.cmpParts(a)
		if !ok {
			return false
		}
		if pred(op, a.term(x), a.term(y)) {
			return true
		}
		return pred(flipOp(op), a.term(y), a.term(x))
	}
}

// BoolAtom: the expression matched by pred is known to be val.
func (p *Prog) BoolAtom(val bool, pred func(t Term) bool) Req {
	return func(a Atom) bool {
		if a.Val != val {
			return false
		}
		switch unparen(a.E).(type) {
		case *ast.Ident, *ast.SelectorExpr, *ast.CallExpr, *ast.IndexExpr:
			return pred(a.term(a.E))
		}
		return false
	}
}

// Recv returns the receiver expression of a method call (nil for plain calls).
func Recv(call *ast.CallExpr) ast.Expr {
	if sel, ok := unparen(call.Fun).(*ast.SelectorExpr); ok {
		return sel.X
	}
	return nil
}

// ConstString returns the constant string value of e, if any.
func (p *Prog) ConstString(e ast.Expr) (string, bool) {
	if tv, ok := p.Info.Types[e]; ok && tv.Value != nil && tv.Value.Kind() == constant.String {
		return constant.StringVal(tv.Value), true
	}
	return "", false
}

func (p *Prog) ConstInt(e ast.Expr) (int64, bool) {
	if tv, ok := p.Info.Types[e]; ok && tv.Value != nil && tv.Value.Kind() == constant.Int {
		v, exact := constant.Int64Val(tv.Value)
		return v, exact
	}
	return 0, false
}

func (p *Prog) IsEmptyString(e ast.Expr) bool {
	s, ok := p.ConstString(e)
	return ok && s == ""
}

// DoneCall finds a certainly-executed earlier call to one of names accepted by pred.
func (p *Prog) DoneCall(st *State, pred func(call *ast.CallExpr) bool, names ...string) *ast.CallExpr {
	if st == nil {
		return nil
	}
	for i := len(st.Done) - 1; i >= 0; i-- {
		call, ok := st.Done[i].(*ast.CallExpr)
		if !ok || !p.IsCall(call, names...) {
			continue
		}
		if p.IsDeferred(call) {
			continue
		}
		if pred == nil || pred(call) {
			return call
		}
	}
	return nil
}

// ------------------------------------------------------------------ caller discharge

type SiteReq func(st *State, subj []Term) bool

type dischargeTrail struct {
	steps []string
}

// Leaf is one place where a moved obligation finally had to hold.
type Leaf struct {
	Fn   *Func
	Node ast.Node
	OK   bool
	Why  string
}

// RequireAt checks r at node n of fn; when it does not hold locally and every subject is rooted in a
// parameter/receiver of fn, the obligation moves to every static call site of fn (depth-bounded).
// It returns one leaf per place where the obligation ended up.
func (p *Prog) RequireAt(fn *Func, n ast.Node, subj []ast.Expr, r SiteReq, depth int) []Leaf {
	st := p.StateAt(fn, n)
	if st == nil {
		return []Leaf{{fn, n, false, fmt.Sprintf("no state for node at %s in %s (walker did not reach it)", p.Pos(n), fn.Name)}}
	}
	terms := make([]Term, len(subj))
	for i, s := range subj {
		terms[i] = T(s, st)
	}
	if r(st, terms) {
		return []Leaf{{fn, n, true, "established in " + fn.Name}}
	}
	fail := func(why string) []Leaf {
		return []Leaf{{fn, n, false, why + "; facts: " + fmt.Sprint(p.FactStrings(st))}}
	}
	if depth <= 0 {
		return fail("not established in " + fn.Name + " (caller depth exhausted)")
	}
	idx := make([]int, len(subj))
	for i, t := range terms {
		k, ok := p.paramRoot(fn, t)
		if !ok {
			return fail(fmt.Sprintf("not established in %s (subject %q is local, cannot move to callers)", fn.Name, p.Src(t.E)))
		}
		idx[i] = k
	}
	sites := p.CallSites(fn.Obj)
	if len(sites) == 0 {
		return fail("not established in " + fn.Name + " and it has no static callers")
	}
	var out []Leaf
	for _, cs := range sites {
		ns := make([]ast.Expr, len(subj))
		bad := ""
		for i, k := range idx {
			if k == -1 {
				ns[i] = Recv(cs.Call)
				if ns[i] == nil {
					bad = "method value call of " + fn.Name
				}
			} else if k < len(cs.Call.Args) {
				ns[i] = cs.Call.Args[k]
			} else {
				bad = "variadic/short call of " + fn.Name
			}
		}
		if bad != "" {
			out = append(out, Leaf{cs.Caller, cs.Call, false, bad})
			continue
		}
		out = append(out, p.RequireAt(cs.Caller, cs.Call, ns, r, depth-1)...)
	}
	return out
}

// paramRoot: is t (through aliases) an unmodified parameter or the receiver of fn?
func (p *Prog) paramRoot(fn *Func, t Term) (int, bool) {
	for _, c := range p.chain(t) {
		id, ok := unparen(c.E).(*ast.Ident)
		if !ok {
			continue
		}
		o := p.ObjOf(id)
		if o == nil {
			continue
		}
		if fn.Decl.Recv != nil && len(fn.Decl.Recv.List) > 0 && len(fn.Decl.Recv.List[0].Names) > 0 {
			if p.ObjOf(fn.Decl.Recv.List[0].Names[0]) == o {
				return -1, true
			}
		}
		k := 0
		for _, f := range fn.Decl.Type.Params.List {
			for _, nm := range f.Names {
				if p.ObjOf(nm) == o {
					if p.Walk(fn).reassigned(p, o) {
						return 0, false
					}
					return k, true
				}
				k++
			}
			if len(f.Names) == 0 {
				k++
			}
		}
	}
	return 0, false
}

func (r *walkResult) reassigned(p *Prog, o types.Object) bool {
	// parameters have no counted definition: any counted assignment is a reassignment
	return r.assignCount[o] > 0
}

// IsDeferred: the call expression is the call of a defer statement.
func (p *Prog) IsDeferred(call *ast.CallExpr) bool {
	fn := p.EnclosingFunc(call.Pos())
	if fn == nil {
		return false
	}
	return p.Walk(fn).deferred[call]
}
