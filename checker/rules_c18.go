package main

import (
	"go/ast"
	"go/token"
	"go/types"
	"strings"
)

// C18 — resource arithmetic and quantity parsing are exact or saturate, never wrap.

func init() { register("C18", rulesC18) }

var quantityPrimitives = map[string]bool{
	"resources.addVal": true, "resources.subVal": true, "resources.mulVal": true, "resources.mulValRatio": true,
}

// mentionsObj: expression mentions the object.
func (p *Prog) mentionsObj(e ast.Node, o types.Object) bool {
	found := false
	ast.Inspect(e, func(n ast.Node) bool {
		if id, ok := n.(*ast.Ident); ok && p.ObjOf(id) == o {
			found = true
		}
		return true
	})
	return found
}

func rulesC18(c *Ctx) {
	p := c.p
	c.NotDecided("that the wrap tests inside addVal/subVal/mulVal are the arithmetically right formula (only that the raw result is returned under a test over the result and both operands)",
		"that fitIn / StrictlyGreaterThan* / ComponentWiseMin/Max* / Equals* compute their documented component-wise definitions",
		"NaN handling of ratio multiplications")
	c.Except("C18.a", "* in objects.getChildQueuesPreemptableResource", "operand v < 0 is guaranteed - allocated with both ledgers non-negative, hence > MinInt64: v * -1 cannot wrap")
	c.Except("C18.a", "conv:float->resources.Quantity in objects.QuotaPreemptionContext.setPreemptableResources", "operand is max - used with non-negative ledgers, hence |v| < 2^63")
	c.Except("C18.a", "conv:float->resources.Quantity in objects.QuotaPreemptionContext.setPreemptableResources#2", "operand is guaranteed - allocated with non-negative ledgers, hence |v| < 2^63")

	// ---- C18.a confinement, C18.b primitives
	c.Rule("C18.a", "raw + - * / on Quantity values appears only inside addVal/subVal/mulVal/mulValRatio or under a recognised guard (both operands positive and ordered); everything else is listed with a reason")
	c.Rule("C18.b", "inside the primitives the raw result is returned only under a wrap test over the result and both operands; unary minus needs operand != MinInt64; float->Quantity conversions need x < 2^63 (strict) and x >= -2^63")
	sites := p.arithSites("resources.Quantity")
	nPrim := 0
	for _, s := range sites {
		fn := s.Fn
		key := s.Op + " in " + p.keyOwner(fn).Name
		st := p.StateAt(fn, s.Node)
		if quantityPrimitives[fn.Name] {
			nPrim++
			switch {
			case s.Op == "neg":
				ok := st != nil && p.Holds(st, p.CmpAtom(func(op tokenT, x, y Term) bool {
					return op == tokNEQ && p.Same(x, T(s.X, st)) && strings.HasSuffix(p.Src(y.E), "MinInt64")
				}))
				c.Check("C18.b", key+": negation guarded against MinInt64", s.Node, ok, "-x on a Quantity without the fact x != math.MinInt64: -MinInt64 wraps to MinInt64 (subVal(a, MinInt64) does not saturate)")
			case strings.HasPrefix(s.Op, "conv:float"):
				upper := st != nil && p.Holds(st, p.CmpAtom(func(op tokenT, x, y Term) bool {
					return op == tokLSS && p.Same(x, T(s.X, st)) && strings.HasSuffix(p.Src(y.E), "MaxInt64")
				}))
				lower := st != nil && p.Holds(st, p.CmpAtom(func(op tokenT, x, y Term) bool {
					return op == tokGEQ && p.Same(x, T(s.X, st)) && strings.HasSuffix(p.Src(y.E), "MinInt64")
				}))
				c.Check("C18.b", key+": float conversion strictly below 2^63", s.Node, upper, "Quantity(x) without the fact x < math.MaxInt64 (as a float constant MaxInt64 is 2^63, so `x > MaxInt64` lets 2^63 through and the conversion wraps); facts: %v", p.FactStrings(st))
				c.Check("C18.b", key+": float conversion not below -2^63", s.Node, lower, "Quantity(x) without the fact x >= math.MinInt64; facts: %v", p.FactStrings(st))
			case s.Op == "+" || s.Op == "-" || s.Op == "*":
				// result variable
				as, isAs := p.Parent(s.Node).(*ast.AssignStmt)
				if !isAs || len(as.Lhs) != 1 {
					c.Check("C18.b", key+": raw result kept in a variable", s.Node, false, "raw %s whose result is not stored for the wrap test", s.Op)
					continue
				}
				resObj := p.ObjOf(as.Lhs[0].(*ast.Ident))
				pa, pb := paramObj(p, fn, 0), paramObj(p, fn, 1)
				nret := 0
				for _, ex := range p.returnsOf(fn) {
					rs, ok := ex.Node.(*ast.ReturnStmt)
					if !ok || len(rs.Results) != 1 {
						continue
					}
					id, ok := unparen(rs.Results[0]).(*ast.Ident)
					if !ok || p.ObjOf(id) != resObj {
						continue
					}
					nret++
					tested := false
					for _, f := range ex.State.Facts {
						if f.Alt == nil && !f.Val && p.mentionsObj(f.E, resObj) && p.mentionsObj(f.E, pa) && p.mentionsObj(f.E, pb) {
							tested = true
						}
					}
					c.Check("C18.b", key+": raw result returned only after the wrap test", rs, tested, "the raw %s result is returned without a failed wrap test over result and both operands; facts: %v", s.Op, p.FactStrings(ex.State))
				}
				c.Check("C18.b", key+": raw result is returned somewhere", s.Node, nret >= 1, "no return of the raw result found")
				// the wrapped branch saturates
				sat := map[string]bool{}
				ast.Inspect(fn.Decl.Body, func(n ast.Node) bool {
					if rs, ok := n.(*ast.ReturnStmt); ok && len(rs.Results) == 1 {
						// directly, or through a helper that logs and returns the bound
						for _, t := range p.chain(T(rs.Results[0], nil)) {
							src := p.Src(t.E)
							if strings.HasSuffix(src, "MinInt64") || strings.HasSuffix(src, "MaxInt64") {
								sat[src] = true
							}
						}
					}
					return true
				})
				c.Check("C18.b", key+": wrapped results saturate to both ends", s.Node, sat["math.MinInt64"] && sat["math.MaxInt64"], "primitive no longer returns math.MinInt64 and math.MaxInt64 on wrap")
			case s.Op == "/":
				// the division inside mulVal's wrap test: divisor non-zero
				nz := st != nil && p.Holds(st, p.CmpAtom(func(op tokenT, x, y Term) bool {
					v, isC := p.ConstInt(y.E)
					return op == tokNEQ && isC && v == 0 && p.Same(x, T(s.Y, st))
				}))
				c.Check("C18.b", key+": divisor of the wrap test is non-zero", s.Node, nz, "division by a Quantity that may be zero")
			}
			continue
		}
		// outside the primitives
		safe := false
		if s.Op == "-" && st != nil {
			// a - b with a > b and b > 0
			gt := p.Holds(st, p.CmpAtom(func(op tokenT, x, y Term) bool {
				return (op == tokGTR || op == tokGEQ) && p.Same(x, T(s.X, st)) && p.Same(y, T(s.Y, st))
			}))
			pos := p.Holds(st, p.CmpAtom(func(op tokenT, x, y Term) bool {
				v, isC := p.ConstInt(y.E)
				return op == tokGTR && isC && v == 0 && p.Same(x, T(s.Y, st))
			}))
			safe = gt && pos
		}
		c.Check("C18.a", key, s.Node, safe, "raw %s on Quantity outside the guarded primitives: %s (use the saturating helpers, or it silently wraps for large values)", s.Op, p.Src(s.Node))
	}
	c.Floor("C18.b", "raw operators inside the primitives", nPrim, 5)
	for name := range quantityPrimitives {
		c.MustFunc("C18.b", name)
	}
	// in-place and functional arithmetic use only the primitives
	c.Rule("C18.a2", "Resource-level operations combine quantities only through the primitives (checked by C18.a: no other raw operator exists) and the public operations call them")
	for fnName, callee := range map[string]string{
		"resources.Add": "resources.addVal", "resources.Sub": "resources.subVal", "resources.Resource.AddTo": "resources.addVal", "resources.Resource.SubFrom": "resources.subVal",
		"resources.Multiply": "resources.mulVal", "resources.MultiplyBy": "resources.mulValRatio", "resources.Resource.MultiplyTo": "resources.mulValRatio",
		"resources.SubOnlyExisting": "resources.subVal", "resources.AddOnlyExisting": "resources.addVal", "resources.subNonNegative": "resources.subVal",
	} {
		c.mustContainCalls("C18.a2", fnName, callee)
	}

	// ---- C18.c no argument mutation
	c.Rule("C18.c", "functions of package resources other than the documented in-place methods write only into maps they created themselves")
	inPlace := map[string]bool{"resources.Resource.AddTo": true, "resources.Resource.SubFrom": true, "resources.Resource.MultiplyTo": true, "resources.Resource.Prune": true}
	nW := 0
	for _, fn := range p.funcs {
		if !p.InPkg(fn, "resources") || fn.Decl.Body == nil || inPlace[fn.Name] || p.methodOf(fn, "resources.TrackedResource") {
			continue
		}
		ast.Inspect(fn.Decl.Body, func(n ast.Node) bool {
			var target ast.Expr
			switch x := n.(type) {
			case *ast.AssignStmt:
				for _, l := range x.Lhs {
					if ix, ok := unparen(l).(*ast.IndexExpr); ok {
						target = ix.X
					}
				}
			case *ast.IncDecStmt:
				if ix, ok := unparen(x.X).(*ast.IndexExpr); ok {
					target = ix.X
				}
			case *ast.CallExpr:
				if id, ok := unparen(x.Fun).(*ast.Ident); ok && id.Name == "delete" && len(x.Args) >= 2 {
					target = x.Args[0]
				}
				if callee := p.Callee(x); callee != nil && inPlace[p.FuncName(callee)] {
					target = Recv(x)
				}
			}
			if target == nil {
				return true
			}
			t := p.TypeOf(target)
			if t == nil {
				return true
			}
			if _, isMap := t.Underlying().(*types.Map); !isMap && p.TypeName(t) != "resources.Resource" {
				return true
			}
			root := p.rootIdent(target)
			if root == nil {
				return true
			}
			obj := p.ObjOf(root)
			if v, ok := obj.(*types.Var); !ok || v.Parent() == v.Pkg().Scope() {
				if p.Src(root) == "Zero" {
					c.Check("C18.g", "Zero mutated in "+fn.Name, n, false, "the shared Zero resource is written")
				}
				return true
			}
			nW++
			// the root variable must be a local defined from a fresh value, not a parameter or the receiver
			isParam := false
			if p.recvObj(fn) == obj {
				isParam = true
			}
			for i := 0; ; i++ {
				po := paramObj(p, fn, i)
				if po == nil {
					break
				}
				if po == obj {
					isParam = true
				}
			}
			fresh := false
			if !isParam {
				fresh = true
				// every assignment to the root variable must be a fresh value
				ast.Inspect(fn.Decl.Body, func(m ast.Node) bool {
					as, ok := m.(*ast.AssignStmt)
					if !ok {
						return true
					}
					for i, l := range as.Lhs {
						if id, ok := unparen(l).(*ast.Ident); ok && p.ObjOf(id) == obj {
							var rhs ast.Expr
							if len(as.Rhs) == len(as.Lhs) {
								rhs = as.Rhs[i]
							} else {
								rhs = as.Rhs[0]
							}
							if !p.freshValue(rhs) {
								fresh = false
							}
						}
					}
					return true
				})
			}
			c.Check("C18.c", "write through "+root.Name+" in "+fn.Name, n, fresh, "%s writes into %s which is a parameter/receiver or not a freshly created value: the caller's resource is modified", fn.Name, p.Src(target))
			return true
		})
	}
	c.Floor("C18.c", "map writes in functional resource operations", nW, 15)

	// ---- C18.d nil safety
	c.Rule("C18.d", "every dereference of a *Resource parameter or receiver in package resources is dominated by a non-nil fact for it")
	nD := 0
	for _, fn := range p.funcs {
		if !p.InPkg(fn, "resources") || fn.Decl.Body == nil || p.methodOf(fn, "resources.TrackedResource") {
			continue
		}
		if !ast.IsExported(fn.Decl.Name.Name) && !p.standsForExported[fn] && !calledFromExported(p, fn) {
			continue
		}
		params := map[types.Object]bool{}
		if r := p.recvObj(fn); r != nil && p.TypeName(r.Type()) == "resources.Resource" {
			if _, isPtr := r.Type().(*types.Pointer); isPtr {
				params[r] = true
			}
		}
		for i := 0; ; i++ {
			po := paramObj(p, fn, i)
			if po == nil {
				break
			}
			if _, isPtr := po.Type().(*types.Pointer); isPtr && p.TypeName(po.Type()) == "resources.Resource" {
				params[po] = true
			}
		}
		if len(params) == 0 {
			continue
		}
		ast.Inspect(fn.Decl.Body, func(n ast.Node) bool {
			sel, ok := n.(*ast.SelectorExpr)
			if !ok {
				return true
			}
			id, ok := unparen(sel.X).(*ast.Ident)
			if !ok || !params[p.ObjOf(id)] {
				return true
			}
			// field access dereferences; method calls on nil-safe methods do not
			if f := p.SelField(sel); f == nil {
				return true
			}
			nD++
			st := p.StateAt(fn, sel)
			obj := p.ObjOf(id)
			ok = st != nil && p.Holds(st, p.NilAtom(false, func(t Term) bool {
				// the parameter itself, or (through the binding of a nil-safe predicate such as IsEmpty) its alias
				for _, ct := range p.chain(t) {
					if tid, isI := unparen(ct.E).(*ast.Ident); isI && p.ObjOf(tid) == obj && !ct.Frozen[obj] {
						return true
					}
				}
				return false
			}))
			if !ok && !ast.IsExported(fn.Decl.Name.Name) && !p.standsForExported[fn] {
				// unexported helper: every caller must pass a non-nil value
				ok = helperCallersNonNil(p, fn, obj)
			}
			c.Check("C18.d", "deref of "+id.Name+" in "+fn.Name, sel, ok, "%s is dereferenced without a dominating nil check: a nil *Resource argument panics", p.Src(sel))
			return true
		})
	}
	c.Floor("C18.d", "dereferences of *Resource parameters", nD, 60)

	// ---- C18.e division
	c.Rule("C18.e", "integer division / remainder in packages resources and common needs a divisor known to be non-zero")
	divs := p.intDivSites(func(fn *Func) bool { return p.InPkg(fn, "resources") || p.InPkg(fn, "common") })
	for _, s := range divs {
		st := p.StateAt(s.Fn, s.Node)
		nz := st != nil && p.Holds(st, p.CmpAtom(func(op tokenT, x, y Term) bool {
			v, isC := p.ConstInt(y.E)
			if !isC || v != 0 {
				return false
			}
			return (op == tokNEQ || op == tokGTR) && p.Same(x, T(s.Y, st))
		}))
		c.Check("C18.e", s.Op+" in "+s.Fn.Name, s.Node, nz, "integer %s by %s which is not known to be non-zero (panics for an empty resource)", s.Op, p.Src(s.Y))
	}
	c.Floor("C18.e", "integer divisions with a variable divisor", len(divs), 3)

	// ---- C18.f parser
	c.Rule("C18.f", "quantity parse(): scaling uses math/big only, the result is returned only under IsInt64(), ParseInt errors and unknown suffixes are errors, 'm' only in milli mode")
	if fn := c.MustFunc("C18.f", "resources.parse"); fn != nil {
		raw := 0
		ast.Inspect(fn.Decl.Body, func(n ast.Node) bool {
			if b, ok := n.(*ast.BinaryExpr); ok && (b.Op == token.MUL || b.Op == token.ADD || b.Op == token.SHL) {
				if tv, ok := p.Info.Types[b]; ok && tv.Value == nil {
					if bt, ok := tv.Type.Underlying().(*types.Basic); ok && bt.Info()&types.IsNumeric != 0 {
						raw++
						c.Check("C18.f", "no machine-integer scaling in parse", b, false, "parse multiplies with %s instead of math/big", p.Src(b))
					}
				}
			}
			return true
		})
		n := 0
		for _, ex := range p.returnsOf(fn) {
			rs, ok := ex.Node.(*ast.ReturnStmt)
			if !ok || len(rs.Results) != 2 || !p.isNilExpr(rs.Results[1]) {
				continue
			}
			n++
			st := ex.State
			isInt := p.Holds(st, p.CallAtom(true, nil, "math/big.Int.IsInt64"))
			c.Check("C18.f", "value returned only if it fits in int64", rs, isInt, "parse returns a value without bigResult.IsInt64(); facts: %v", p.FactStrings(st))
			perr := p.Holds(st, p.ResultNilAtom(true, nil, "strconv.ParseInt"))
			c.Check("C18.f", "value returned only if the digits parsed", rs, perr, "parse returns a value although strconv.ParseInt failed")
			suffix := p.Holds(st, func(a Atom) bool {
				id, ok := unparen(a.E).(*ast.Ident)
				if !ok || !a.Val {
					return false
				}
				d := a.Env.get(p.ObjOf(id))
				return d != nil && d.Kind == DefCommaOk && strings.Contains(p.Src(d.Rhs), "multipliers[")
			})
			c.Check("C18.f", "value returned only for a known suffix", rs, suffix, "parse returns a value for a suffix that is not in the multiplier table")
			milli := p.Holds(st, func(a Atom) bool {
				// !(suffix == "m" && !milli)
				b, ok := unparen(a.E).(*ast.BinaryExpr)
				if !ok || a.Val || b.Op != token.LAND {
					return false
				}
				// !(<unit> == "m" && !<milli parameter>)
				hasM, hasNotMilli := false, false
				for _, side := range []ast.Expr{b.X, b.Y} {
					if cmp, isC := unparen(side).(*ast.BinaryExpr); isC && cmp.Op == token.EQL && (p.Src(cmp.Y) == `"m"` || p.Src(cmp.X) == `"m"`) {
						hasM = true
					}
					if un, isU := unparen(side).(*ast.UnaryExpr); isU && un.Op == token.NOT && p.isParam(fn, un.X, 1) {
						hasNotMilli = true
					}
				}
				return hasM && hasNotMilli
			})
			c.Check("C18.f", "milli suffix only in milli mode", rs, milli, "parse accepts the 'm' suffix outside ParseVCore; facts: %v", p.FactStrings(st))
			// the returned value is the Int64() of the checked big integer
			d := p.DefOf(T(rs.Results[0], st))
			src := p.Src(d.E)
			okV := strings.Contains(src, "Int64()") || strings.Contains(p.CanonSrc(rs.Results[0], st.Env, 0), "Int64()")
			c.Check("C18.f", "returned value is the checked big integer", rs, okV, "parse returns %s", src)
		}
		c.Floor("C18.f", "successful returns of parse", n, 1)
		// milli scaling
		mul := p.callsIn(fn, "math/big.Int.Mul")
		c.Floor("C18.f", "big multiplications in parse", len(mul), 2)
		for _, call := range mul {
			st := p.StateAt(fn, call)
			if strings.Contains(p.Src(call), "1000") {
				ok := p.Holds(st, p.BoolAtom(true, func(t Term) bool { return p.isParam(fn, t.E, 1) })) && p.Holds(st, p.CmpAtom(func(op tokenT, x, y Term) bool {
					// the unit suffix (whatever the local is called) compared with "m"
					_, isID := unparen(x.E).(*ast.Ident)
					return op == tokNEQ && isID && p.Src(y.E) == `"m"`
				}))
				c.Check("C18.f", "x1000 only for unit-less values in milli mode", call, ok, "the milli scaling is applied without (milli && suffix != \"m\")")
			}
		}
	}

	// ---- C18.g Zero is never written
	c.Rule("C18.g", "the shared resources.Zero is never assigned and never the receiver of an in-place operation")
	nZ := 0
	for _, pk := range p.Pkgs {
		for id, o := range pk.TypesInfo.Uses {
			v, ok := o.(*types.Var)
			if !ok || v.Name() != "Zero" || v.Pkg() == nil || p.PkgShort(v.Pkg().Path()) != "resources" || v.Parent() != v.Pkg().Scope() {
				continue
			}
			if strings.HasSuffix(p.Fset.Position(id.Pos()).Filename, "_test.go") {
				continue
			}
			nZ++
			var e ast.Expr = id
			if sel, ok := p.Parent(id).(*ast.SelectorExpr); ok && sel.Sel == id {
				e = sel
			}
			par := p.Parent(e)
			bad := ""
			switch x := par.(type) {
			case *ast.AssignStmt:
				for _, l := range x.Lhs {
					if unparen(l) == e {
						bad = "assigned"
					}
				}
			case *ast.SelectorExpr:
				// Zero.Method(...) or Zero.Resources
				if call, ok := p.Parent(x).(*ast.CallExpr); ok && unparen(call.Fun) == ast.Expr(x) {
					if callee := p.Callee(call); callee != nil && p.isMutating(callee) {
						bad = "receiver of " + callee.Name()
					}
				} else if as, ok := p.Parent(p.Parent(x)).(*ast.AssignStmt); ok {
					_ = as
					bad = "field element assigned"
				}
			case *ast.UnaryExpr:
				if x.Op == token.AND {
					bad = "address taken"
				}
			}
			c.Check("C18.g", "use of resources.Zero at "+p.Pos(id), id, bad == "", "resources.Zero is %s", bad)
		}
	}
	c.Floor("C18.g", "uses of resources.Zero", nZ, 5)
}

// freshValue: the expression creates a new resource / map (not an alias of an argument).
func (p *Prog) freshValue(e ast.Expr) bool {
	switch x := unparen(e).(type) {
	case *ast.UnaryExpr:
		_, isLit := unparen(x.X).(*ast.CompositeLit)
		return x.Op == token.AND && isLit
	case *ast.CompositeLit:
		return true
	case *ast.CallExpr:
		if id, ok := unparen(x.Fun).(*ast.Ident); ok && id.Name == "make" {
			return true
		}
		switch p.CalleeName(x) {
		case "resources.NewResource", "resources.Resource.Clone", "resources.NewResourceFromMap":
			return p.CalleeName(x) != "resources.NewResourceFromMap"
		}
		// any other constructor of the package: a function every return of which yields a value it created itself
		if callee := p.Callee(x); callee != nil {
			if cf := p.FuncOf[callee]; cf != nil && p.InPkg(cf, "resources") {
				return p.returnsFresh(cf, 0)
			}
		}
	}
	return false
}

// returnsFresh: every return of fn yields a composite literal, make(), a fresh constructor result, or a local
// that is only ever assigned such values.
func (p *Prog) returnsFresh(fn *Func, depth int) bool {
	if fn == nil || fn.Decl.Body == nil || depth > 3 {
		return false
	}
	if p.freshFn == nil {
		p.freshFn = map[*Func]int{}
	}
	switch p.freshFn[fn] {
	case 1:
		return true
	case 2, 3:
		return false // not fresh, or in progress (recursion)
	}
	p.freshFn[fn] = 3
	ok, n := true, 0
	ast.Inspect(fn.Decl.Body, func(nd ast.Node) bool {
		if _, isLit := nd.(*ast.FuncLit); isLit {
			return false
		}
		rs, isRet := nd.(*ast.ReturnStmt)
		if !isRet || len(rs.Results) == 0 {
			return true
		}
		n++
		r := unparen(rs.Results[0])
		if p.freshValue(r) {
			return true
		}
		id, isID := r.(*ast.Ident)
		if !isID {
			ok = false
			return true
		}
		obj := p.ObjOf(id)
		assigned := 0
		ast.Inspect(fn.Decl.Body, func(m ast.Node) bool {
			as, isA := m.(*ast.AssignStmt)
			if !isA {
				return true
			}
			for i, l := range as.Lhs {
				if lid, isL := unparen(l).(*ast.Ident); isL && p.ObjOf(lid) == obj {
					assigned++
					rhs := as.Rhs[0]
					if len(as.Rhs) == len(as.Lhs) {
						rhs = as.Rhs[i]
					}
					if !p.freshValue(rhs) {
						ok = false
					}
				}
			}
			return true
		})
		if assigned == 0 {
			ok = false
		}
		return true
	})
	if ok && n > 0 {
		p.freshFn[fn] = 1
		return true
	}
	p.freshFn[fn] = 2
	return false
}

// calledFromExported: an unexported function of package resources reachable from its exported API.
func calledFromExported(p *Prog, fn *Func) bool {
	for _, cs := range p.CallSites(fn.Obj) {
		if p.InPkg(cs.Caller, "resources") {
			return true
		}
	}
	return false
}

// helperCallersNonNil: every call site of the unexported helper passes a value with a non-nil fact
// for the given parameter.
func helperCallersNonNil(p *Prog, fn *Func, param types.Object) bool {
	idx := -2
	if p.recvObj(fn) == param {
		idx = -1
	}
	for i := 0; ; i++ {
		po := paramObj(p, fn, i)
		if po == nil {
			break
		}
		if po == param {
			idx = i
		}
	}
	if idx == -2 {
		return false
	}
	sites := p.CallSites(fn.Obj)
	if len(sites) == 0 {
		return false
	}
	for _, cs := range sites {
		var arg ast.Expr
		if idx == -1 {
			arg = Recv(cs.Call)
		} else if idx < len(cs.Call.Args) {
			arg = cs.Call.Args[idx]
		}
		if arg == nil {
			return false
		}
		st := p.StateAt(cs.Caller, cs.Call)
		if st == nil {
			return false
		}
		at := T(arg, st)
		if p.neverNil(p.DefOf(at).E) {
			continue
		}
		if !p.Holds(st, p.NilAtom(false, func(t Term) bool { return p.Same(t, at) })) {
			return false
		}
	}
	return true
}
