package main

import (
	"go/ast"
	"go/types"
)

// PrecededBy: before node w, on every path from the start of the function, a statement accepted by
// isB executes (structural dominance: an earlier statement of an enclosing block, or an if/else
// whose branches all perform B).
func (p *Prog) PrecededBy(fn *Func, w ast.Node, isB func(n ast.Node) bool) ast.Node {
	cur := w
	for {
		parent := p.Parent(cur)
		if parent == nil {
			return nil
		}
		var list []ast.Stmt
		switch x := parent.(type) {
		case *ast.BlockStmt:
			list = x.List
		case *ast.CaseClause:
			list = x.Body
		case *ast.CommClause:
			list = x.Body
		case *ast.FuncDecl, *ast.FuncLit:
			return nil
		}
		if list != nil {
			idx := -1
			for i, s := range list {
				if s.Pos() <= cur.Pos() && cur.End() <= s.End() {
					idx = i
					break
				}
			}
			for i := idx - 1; i >= 0; i-- {
				if n := p.stmtIsB(list[i], isB); n != nil {
					return n
				}
			}
		}
		cur = parent
	}
}

// PairedWith: B is performed unconditionally relative to w either after it (on all paths) or before it.
func (p *Prog) PairedWith(fn *Func, w ast.Node, isB func(n ast.Node) bool) (ast.Node, string) {
	if n, _ := p.FollowedBy(fn, w, isB); n != nil {
		return n, ""
	}
	if n := p.PrecededBy(fn, w, isB); n != nil {
		return n, ""
	}
	_, why := p.FollowedBy(fn, w, isB)
	return nil, why
}

// SameOperand: the two expressions (evaluated at their own program points in fn) denote the same
// value: structurally equal through definitions, or the same local variable with no assignment to
// it between the two points.
func (p *Prog) SameOperand(fn *Func, a ast.Expr, an ast.Node, b ast.Expr, bn ast.Node) bool {
	sa, sb := p.StateAt(fn, an), p.StateAt(fn, bn)
	if sa != nil && sb != nil && p.Same(T(a, sa), T(b, sb)) {
		return true
	}
	ia, ok1 := unparen(a).(*ast.Ident)
	ib, ok2 := unparen(b).(*ast.Ident)
	if !ok1 || !ok2 {
		return false
	}
	oa, ob := p.ObjOf(ia), p.ObjOf(ib)
	if oa == nil || oa != ob {
		return false
	}
	lo, hi := an.End(), bn.Pos()
	if bn.Pos() < an.Pos() {
		lo, hi = bn.End(), an.Pos()
	}
	reassigned := false
	ast.Inspect(fn.Decl.Body, func(n ast.Node) bool {
		as, ok := n.(*ast.AssignStmt)
		if !ok || as.Pos() < lo || as.Pos() >= hi {
			return true
		}
		for _, l := range as.Lhs {
			if id, ok := unparen(l).(*ast.Ident); ok && p.ObjOf(id) == oa {
				if !p.exclusiveBranches(as, an) && !p.exclusiveBranches(as, bn) {
					reassigned = true
				}
			}
		}
		return true
	})
	return !reassigned
}

// exclusiveBranches: a and b sit in different branches of the same if/else (or different
// clauses of the same switch), so no single execution passes through both.
func (p *Prog) exclusiveBranches(a, b ast.Node) bool {
	chainOf := func(n ast.Node) []ast.Node {
		var out []ast.Node
		for n != nil {
			out = append(out, n)
			n = p.Parent(n)
		}
		return out
	}
	ca, cb := chainOf(a), chainOf(b)
	inB := map[ast.Node]int{}
	for i, n := range cb {
		inB[n] = i
	}
	for i, n := range ca {
		j, ok := inB[n]
		if !ok {
			continue
		}
		// n is the lowest common ancestor
		if i == 0 || j == 0 {
			return false
		}
		childA, childB := ca[i-1], cb[j-1]
		switch x := n.(type) {
		case *ast.IfStmt:
			inBody := func(c ast.Node) bool { return c == ast.Node(x.Body) }
			inElse := func(c ast.Node) bool { return x.Else != nil && c == ast.Node(x.Else) }
			return (inBody(childA) && inElse(childB)) || (inElse(childA) && inBody(childB))
		case *ast.BlockStmt:
			if _, isSwitch := p.Parent(x).(*ast.SwitchStmt); isSwitch {
				return childA != childB
			}
		}
		return false
	}
	return false
}

// mustContainCalls: fn contains at least one call to each named callee (anywhere in its body).
func (c *Ctx) mustContainCalls(rule string, fnName string, callees ...string) {
	fn := c.MustFunc(rule, fnName)
	if fn == nil {
		return
	}
	for _, callee := range callees {
		calls := c.p.callsIn(fn, callee)
		var at ast.Node = fn.Decl
		if len(calls) > 0 {
			at = calls[0]
		}
		c.Check(rule, shortFn(fnName)+" calls "+shortFn(callee), at, len(calls) > 0, "%s no longer calls %s: the effect it is responsible for is missing", fnName, callee)
	}
}

// isParam: e is an identifier denoting the i-th parameter of fn.
func (p *Prog) isParam(fn *Func, e ast.Expr, i int) bool {
	id, ok := unparen(e).(*ast.Ident)
	if !ok {
		return false
	}
	o := paramObj(p, fn, i)
	return o != nil && p.ObjOf(id) == o
}

// recvField: e is <recv>.<field> for the receiver of fn.
func (p *Prog) recvField(fn *Func, e ast.Expr, field string) bool {
	base, ok := p.fieldSel(e, field)
	return ok && p.isRecvExpr(fn, base)
}

// resolvesToRecvField: e is (a local alias of) <recv>.<field>.
func (p *Prog) resolvesToRecvField(fn *Func, e ast.Expr, at ast.Node, field string) bool {
	st := p.StateAt(fn, at)
	for _, c := range p.chain(T(e, st)) {
		if p.recvField(fn, c.E, field) {
			return true
		}
	}
	return false
}

var _ = types.Universe
