package main

import (
	"go/ast"
	"go/types"
	"strings"
)

// C12 — restart recovery: the replay branches book the same effects as the live path, the quota
// bypass is confined to them, forced creation is wired end to end.

func init() { register("C12", rulesC12) }

func rulesC12(c *Ctx) {
	p := c.p
	c.NotDecided("equality of the totals of two executions (old core vs. replayed core): only the per-branch effect sets and their operands are compared",
		"the order in which the shim replays nodes, applications and allocations",
		"that scheduling after recovery respects the limits (C01/C02/C05 check the gates themselves)")
	const pcT = "scheduler.PartitionContext"

	// ------------------------------------------------------------------ C12.a effect agreement
	c.Rule("C12.a", "both RM-driven binding branches of UpdateAllocation (new allocation already assigned = recovery; requested -> allocated = external placement) book the full effect set of a bind with the same allocation: queue IncAllocatedResource(res), forced Node.AddAllocation, application AddAllocation (which books user usage), partition allocation count +1, placeholder count when it is a placeholder, and register/allocate the ask; the live path books the checked variants (tryNode + PartitionContext.allocate)")
	fn := c.MustFunc("C12.a", pcT+".UpdateAllocation")
	if fn != nil {
		adds := p.callsIn(fn, "objects.Application.AddAllocation")
		for i, add := range adds {
			st := p.StateAt(fn, add)
			if st == nil || len(add.Args) < 1 {
				continue
			}
			subj := T(add.Args[0], st)
			label := "binding branch " + string(rune('1'+i))
			need := map[string]func(call *ast.CallExpr) bool{
				"objects.Queue.IncAllocatedResource": func(call *ast.CallExpr) bool {
					if len(call.Args) < 1 {
						return false
					}
					if p.IsResOf(T(call.Args[0], st), subj) {
						return true
					}
					// res := alloc.GetAllocatedResource() of the incoming allocation (same key/size as the one bound)
					for _, t := range p.chain(T(call.Args[0], st)) {
						if rc, ok := unparen(t.E).(*ast.CallExpr); ok && p.IsCall(rc, fnGetAllocatedResource) && p.isParam(fn, Recv(rc), 0) {
							return true
						}
					}
					return false
				},
				"objects.Node.AddAllocation": func(call *ast.CallExpr) bool { return len(call.Args) >= 1 && p.Same(T(call.Args[0], st), subj) },
			}
			for callee, pred := range need {
				c.Check("C12.a", label+": "+shortFn(callee), add, p.DoneCall(st, pred, callee) != nil, "the allocation is added to the application without %s having been booked for the same allocation on this path: the replayed totals differ from what the live path booked", callee)
			}
			regd := p.DoneCall(st, nil, "objects.Application.RecoverAllocationAsk", "objects.Application.AllocateAsk") != nil
			c.Check("C12.a", label+": ask registered/allocated", add, regd, "neither RecoverAllocationAsk nor AllocateAsk ran before the allocation is added to the application")
			// placeholder counter follows under IsPlaceholder
			ph := false
			for _, call := range p.callsIn(fn, pcT+".incPhAllocationCount") {
				if call.Pos() > add.Pos() {
					cst := p.StateAt(fn, call)
					if p.Holds(cst, p.CallAtom(true, p.recvIs(subj), "objects.Allocation.IsPlaceholder")) {
						ph = true
					}
				}
			}
			c.Check("C12.a", label+": placeholder counted", add, ph, "no incPhAllocationCount() under IsPlaceholder() after this bind")
		}
		c.Floor("C12.a", "RM-driven binding branches in UpdateAllocation", len(adds), 2)
		// a pending ask is registered with AddAllocationAsk exactly when no node is given
		for _, call := range p.callsIn(fn, "objects.Application.AddAllocationAsk") {
			st := p.StateAt(fn, call)
			c.Check("C12.a", "new ask registered only without a node", call, p.Holds(st, p.NilAtom(true, func(t Term) bool { return p.TypeName(p.TypeOf(t.E)) == "objects.Node" })), "AddAllocationAsk reached without the fact node == nil")
		}
		// resize: the application (queue, user) is updated whether or not the allocation is bound; the node only when bound
		holding := map[types.Object]bool{}
		ast.Inspect(fn.Decl.Body, func(m ast.Node) bool {
			as, ok := m.(*ast.AssignStmt)
			if !ok || len(as.Lhs) != 1 || len(as.Rhs) != 1 {
				return true
			}
			gc, isC := unparen(as.Rhs[0]).(*ast.CallExpr)
			if !isC || !p.IsCall(gc, "scheduler.PartitionContext.GetNode") || len(gc.Args) < 1 {
				return true
			}
			if nc, isN := unparen(gc.Args[0]).(*ast.CallExpr); isN && p.IsCall(nc, "objects.Allocation.GetNodeID") && Recv(nc) != nil && !p.isParam(fn, Recv(nc), 0) {
				if id, isID := as.Lhs[0].(*ast.Ident); isID {
					holding[p.ObjOf(id)] = true
				}
			}
			return true
		})
		for _, call := range p.callsIn(fn, "objects.Application.UpdateAllocationResources") {
			st := p.StateAt(fn, call)
			bad := ""
			for _, a := range p.AllAtoms(st) {
				// a condition on the node that holds the allocation (any *Node valued operand)
				onNode := false
				ast.Inspect(a.E, func(m ast.Node) bool {
					// the node that holds the existing allocation: a local assigned pc.GetNode(<registered allocation>.GetNodeID())
					if id, isID := m.(*ast.Ident); isID && holding[p.ObjOf(id)] {
						onNode = true
					}
					return true
				})
				if onNode {
					bad = p.Src(a.E)
				}
			}
			c.Check("C12.a", "resize reaches the application independent of the node", call, bad == "", "UpdateAllocationResources only runs under a condition on the node (%s): the resize of an ask that is not bound yet is dropped, so pending totals differ after a replay", bad)
		}
		for _, call := range p.callsIn(fn, "objects.Node.UpdateAllocatedResource") {
			st := p.StateAt(fn, call)
			ok := p.Holds(st, p.NilAtom(false, p.recvIsTerm(call))) && p.DoneCall(st, nil, "objects.Application.UpdateAllocationResources") != nil
			c.Check("C12.a", "resize reaches the node after the application", call, ok, "node resize without existingNode != nil and a preceding successful UpdateAllocationResources")
		}
	}
	// live path (for the comparison): tryNode books node + queue, allocate() counts
	c.mustContainCalls("C12.a", "objects.Application.tryNode", "objects.Node.TryAddAllocation", "objects.Queue.TryIncAllocatedResource", "objects.Application.allocateAsk", "objects.Application.addAllocationInternal")
	c.mustContainCalls("C12.a", pcT+".allocate", pcT+".updateAllocationCount")
	// foreign allocations
	c.mustContainCalls("C12.a", pcT+".handleForeignAllocation", "objects.Node.AddAllocation", "objects.Node.UpdateForeignAllocation")
	c.mustContainCalls("C12.a", "objects.Application.RecoverAllocationAsk", "objects.Application.addAllocationAskInternal")

	// ------------------------------------------------------------------ C12.b quota bypass confined
	c.Rule("C12.b", "the unchecked queue increment and the forced node add are only used by the RM-driven paths (UpdateAllocation, foreign allocations, in-place resize) and are unreachable from the scheduling roots")
	c.whoMayCall("C12.b", "objects.Node.AddAllocation", 2, map[string]string{pcT + ".UpdateAllocation": "recovery / external placement", pcT + ".handleForeignAllocation": "foreign pods"})
	c.whoMayCall("C12.b", "objects.Queue.IncAllocatedResource", 2, map[string]string{pcT + ".UpdateAllocation": "recovery / external placement",
		"objects.Application.UpdateAllocationResources": "in-place resize", "objects.Queue.IncAllocatedResource": "recursion to the parent"})
	roots := []string{"scheduler.ClusterContext.schedule", "objects.Queue.TryQuotaPreemption"}
	c.notReachable("C12.b", roots, "objects.Node.AddAllocation")
	c.notReachable("C12.b", roots, "objects.Queue.IncAllocatedResource")

	// ------------------------------------------------------------------ C12.c forced creation wiring
	c.Rule("C12.c", "the force flag of an application travels from its tags to the user conversion; a forced application is never rejected for a missing user; recovery rule and recovery queue wiring as in C17.c")
	if fn := c.MustFunc("C12.c", "scheduler.ClusterContext.handleRMUpdateApplicationEvent"); fn != nil {
		calls := p.callsIn(fn, pcT+".convertUGI")
		for _, call := range calls {
			ok := false
			if len(call.Args) >= 2 {
				if fc, isCall := unparen(call.Args[1]).(*ast.CallExpr); isCall && p.IsCall(fc, "common.IsAppCreationForced") && len(fc.Args) >= 1 {
					ok = strings.HasSuffix(p.Src(fc.Args[0]), ".Tags") && strings.HasSuffix(p.Src(call.Args[0]), ".Ugi") &&
						strings.TrimSuffix(p.Src(fc.Args[0]), ".Tags") == strings.TrimSuffix(p.Src(call.Args[0]), ".Ugi")
				}
			}
			c.Check("C12.c", "force flag passed to the user conversion", call, ok, "convertUGI is not called as convertUGI(app.Ugi, common.IsAppCreationForced(app.Tags)) for the same application")
		}
		c.Floor("C12.c", "convertUGI calls", len(calls), 1)
	}
	if fn := c.MustFunc("C12.c", "security.UserGroupCache.ConvertUGI"); fn != nil {
		// every error return is under !force (or after force synthesised a user)
		n := 0
		for _, ex := range p.returnsOf(fn) {
			rs, ok := ex.Node.(*ast.ReturnStmt)
			if !ok || len(rs.Results) != 2 || p.isNilExpr(rs.Results[1]) {
				continue
			}
			if _, isCall := unparen(rs.Results[1]).(*ast.CallExpr); !isCall {
				continue // propagates the resolver's error value (checked below)
			}
			n++
			notForced := p.Holds(ex.State, p.BoolAtom(false, func(t Term) bool { return p.isParam(fn, t.E, 1) }))
			invalidName := strings.Contains(p.Src(rs.Results[1]), "invalid username")
			c.Check("C12.c", "forced conversion is not refused for a missing user", rs, notForced || invalidName, "ConvertUGI returns an error without the fact !force: a force-created application would be rejected on replay")
		}
		c.Floor("C12.c", "error returns of ConvertUGI", n, 1)
	}
	c.mustContainCalls("C12.c", "objects.Application.IsCreateForced", "common.IsAppCreationForced")
	if fn := c.MustFunc("C12.c", "placement.recoveryRule.placeApplication"); fn != nil {
		for _, ex := range p.returnsOf(fn) {
			rs, ok := ex.Node.(*ast.ReturnStmt)
			if !ok || len(rs.Results) != 2 || p.IsEmptyString(rs.Results[0]) {
				continue
			}
			isRec := false
			for _, t := range p.chain(T(rs.Results[0], ex.State)) {
				if strings.HasSuffix(p.Src(t.E), "RecoveryQueueFull") {
					isRec = true
				}
			}
			c.Check("C12.c", "recovery rule places forced applications", rs, isRec, "recoveryRule returns %s instead of the recovery queue", p.Src(rs.Results[0]))
		}
	}
	c.whoMayCall("C12.c", "objects.NewRecoveryQueue", 1, map[string]string{pcT + ".createRecoveryQueue": "only creator"})
}

// recvIsTerm: predicate matching the receiver of call (as a term at the call).
func (p *Prog) recvIsTerm(call *ast.CallExpr) func(t Term) bool {
	return func(t Term) bool { return Recv(call) != nil && p.Src(t.E) == p.Src(Recv(call)) }
}
