package main

import (
	"go/ast"
	"go/token"
	"go/types"
	"strings"
)

// C20 — event history: ring buffer index arithmetic, ids, store bound, locks, query shape.

func init() { register("C20", rulesC20) }

func isUint64(t types.Type) bool {
	if t == nil {
		return false
	}
	b, ok := t.Underlying().(*types.Basic)
	return ok && (b.Kind() == types.Uint64 || b.Kind() == types.Uint || b.Kind() == types.Uint32)
}

func rulesC20(c *Ctx) {
	p := c.p
	c.NotDecided("that a stream subscriber sees history followed by every later event exactly once under concurrent publication (timing of the two locks; only the registration-before-snapshot order and the de-duplication guard are checked)",
		"value-level correctness of the id <-> position mapping beyond the guard/invariant shapes listed (the struct invariants I1-I6 are named, their writers are confined and shaped, but not proven inductively)",
		"slow-consumer eviction timing")
	c.Assume("struct invariants of eventRingBuffer used by C20.a/b: I1 id >= lowestId; I2 lowestId >= resizeOffset; I3 capacity >= 1; I4 id - lowestId <= capacity; I5 when the buffer is not full every stored id maps to a position < head; I6 len(events) == capacity; eventRange.end >= eventRange.start for ranges built by getEventsFromID")

	inEvents := func(fn *Func) bool { return p.InPkg(fn, "events") }
	const rb = "events.eventRingBuffer"

	// ------------------------------------------------------------------ C20.a unsigned subtraction
	c.Rule("C20.a", "every subtraction on unsigned integers in package events is dominated by a comparison that excludes wrap-around (x >= y, x > y, x != 0 for y == 1, (a+b) > y, y defined as _ % x, (x - _) > y), or is covered by a named struct invariant listed with its reason")
	c.Except("C20.a", "e.id - e.getLowestID() in events.eventRingBuffer.updateLowestID", "I1: id >= lowestId (lowestId only grows together with id in Add, or is set to id - endSize <= id)")
	c.Except("C20.a", "e.id - e.getLowestID() in events.eventRingBuffer.Resize", "I1: id >= lowestId")
	c.Except("C20.a", "e.capacity - 1 in events.eventRingBuffer.Add", "I3: capacity >= 1 (C20.g: constructor and Resize only receive non-zero capacities)")
	c.Except("C20.a", "e.head + e.capacity - min(e.id - e.getLowestID(), newSize) in events.eventRingBuffer.Resize", "numEventsToCopy = min(id - lowestId, newSize) <= id - lowestId <= capacity (I4)")
	c.Except("C20.a", "(e.head + e.capacity - min(e.id - e.getLowestID(), newSize) % e.capacity) + min(e.id - e.getLowestID(), newSize) - 1 in events.eventRingBuffer.Resize", "wraps only when numEventsToCopy == 0 and startIndex == 0, i.e. the buffer holds no event: every slot is nil, the result is reduced modulo capacity and copying any prefix of nil slots changes nothing")
	c.Except("C20.a", "r1.end - r1.start in events.eventRingBuffer.getEntriesFromRanges", "range invariant end >= start, established at the three construction sites (C20.b checks their shape)")
	c.Except("C20.a", "r1.end - r1.start in events.eventRingBuffer.getEntriesFromRanges#2", "range invariant end >= start")
	c.Except("C20.a", "r2.end - r2.start in events.eventRingBuffer.getEntriesFromRanges", "range invariant end >= start (r2.start is 0)")
	c.Except("C20.a", "r1.end - r1.start in events.eventRingBuffer.getEntriesFromRanges#3", "range invariant end >= start")
	nSub := 0
	for _, fn := range p.funcs {
		if !inEvents(fn) || fn.Decl.Body == nil {
			continue
		}
		ast.Inspect(fn.Decl.Body, func(n ast.Node) bool {
			var x, y ast.Expr
			switch b := n.(type) {
			case *ast.BinaryExpr:
				if b.Op != token.SUB {
					return true
				}
				x, y = b.X, b.Y
			case *ast.AssignStmt:
				if b.Tok != token.SUB_ASSIGN || len(b.Lhs) != 1 {
					return true
				}
				x, y = b.Lhs[0], b.Rhs[0]
			case *ast.IncDecStmt:
				if b.Tok != token.DEC {
					return true
				}
				x = b.X
			default:
				return true
			}
			if !isUint64(p.TypeOf(x)) {
				return true
			}
			if tv, ok := p.Info.Types[n.(ast.Expr)]; ok && tv.Value != nil {
				return true // constant expression
			}
			nSub++
			st := p.StateAt(fn, n)
			// the key names the operands by what they are defined as, not by the name of a local
			canon := func(e ast.Expr) string {
				if e == nil {
					return "1"
				}
				if st == nil {
					return p.Src(e)
				}
				return p.CanonSrc(e, st.Env, 0)
			}
			key := canon(x) + " - " + canon(y) + " in " + fn.Name
			ok, how := p.unsignedSubGuarded(fn, st, x, y)
			if !ok && y != nil {
				// I2 (lowestId >= resizeOffset): x >= e.lowestId implies x >= e.resizeOffset
				if _, isOff := p.fieldSel(y, rb+".resizeOffset"); isOff && st != nil {
					ok = p.Holds(st, p.CmpAtom(func(op token.Token, a, b Term) bool {
						_, isLow := p.fieldSel(b.E, rb+".lowestId")
						return (op == token.GEQ || op == token.GTR) && isLow && p.Same(a, T(x, st))
					}))
				}
			}
			c.Check("C20.a", key, n, ok, "unsigned subtraction %s can wrap below zero: no dominating comparison excludes it (%s); facts: %v", p.Src(n), how, p.FactStrings(st))
			return true
		})
	}
	c.Floor("C20.a", "unsigned subtractions in package events", nSub, 12)

	// ------------------------------------------------------------------ C20.b index bounds
	c.Rule("C20.b", "positions used to index or slice the event slice are reduced modulo the capacity (head, startIndex, endIndex, id2pos result) or are the ends of ranges built as min(start+count, capacity|head); events and capacity are always replaced together with the same length (I6)")
	headF := p.Field(rb + ".head")
	if headF == nil {
		c.Check("C20.b", "anchor:"+rb+".head", nil, false, "field does not resolve")
	} else {
		nh := 0
		for _, w := range p.FieldWrites(headF) {
			if w.Kind == "compositelit" {
				continue
			}
			nh++
			be, isRem := unparen(w.Arg).(*ast.BinaryExpr)
			ok := isRem && be.Op == token.REM
			if ok {
				// modulus is e.capacity, or the value e.capacity is set to in the same function
				mod := p.Src(be.Y)
				ok = strings.HasSuffix(mod, ".capacity") || p.assignsFieldFrom(w.Fn, rb+".capacity", be.Y)
			}
			c.Check("C20.b", "head write in "+w.Fn.Name, w.Node, ok, "head is assigned %s: not of the form `_ %% capacity`, so head < capacity (I6/I3) is no longer evident", p.Src(w.Arg))
		}
		c.Floor("C20.b", "writes of head", nh, 2)
	}
	// id2pos: position result is `_ % e.capacity`
	if fn := c.MustFunc("C20.b", rb+".id2pos"); fn != nil {
		n := 0
		for _, ex := range p.returnsOf(fn) {
			rs, ok := ex.Node.(*ast.ReturnStmt)
			if !ok || len(rs.Results) != 2 {
				continue
			}
			if p.isConstBool(rs.Results[1], true) {
				n++
				be, isRem := unparen(rs.Results[0]).(*ast.BinaryExpr)
				c.Check("C20.b", "id2pos found-position is reduced modulo capacity", rs, isRem && be.Op == token.REM && strings.HasSuffix(p.Src(be.Y), ".capacity"), "id2pos returns %s as a position: not `_ %% e.capacity`", p.Src(rs.Results[0]))
			}
		}
		c.Floor("C20.b", "found-returns of id2pos", n, 1)
	}
	// eventRange literals
	nRange := 0
	for _, fn := range p.funcs {
		if !inEvents(fn) || fn.Decl.Body == nil {
			continue
		}
		ast.Inspect(fn.Decl.Body, func(n ast.Node) bool {
			cl, ok := n.(*ast.CompositeLit)
			if !ok || p.TypeName(p.TypeOf(cl)) != "events.eventRange" {
				return true
			}
			nRange++
			var start, end ast.Expr
			for _, el := range cl.Elts {
				if kv, ok := el.(*ast.KeyValueExpr); ok {
					switch kv.Key.(*ast.Ident).Name {
					case "start":
						start = kv.Value
					case "end":
						end = kv.Value
					}
				}
			}
			st := p.StateAt(fn, cl)
			okStart := false
			if start != nil {
				if v, isC := p.ConstInt(start); isC && v == 0 {
					okStart = true
				}
				for _, t := range p.chain(T(start, st)) {
					if call, ok := unparen(t.E).(*ast.CallExpr); ok && p.IsCall(call, rb+".id2pos") && t.Idx <= 0 {
						okStart = true
					}
				}
			}
			c.Check("C20.b", "range start in "+fn.Name, cl, okStart, "eventRange.start is %s: neither 0 nor the position returned by id2pos", p.Src(start))
			okEnd := false
			if end != nil {
				for _, t := range p.chain(T(end, st)) {
					call, ok := unparen(t.E).(*ast.CallExpr)
					if !ok || len(call.Args) < 2 {
						continue
					}
					if id, ok := unparen(call.Fun).(*ast.Ident); !ok || id.Name != "min" {
						continue
					}
					b := p.Src(call.Args[1])
					if strings.HasSuffix(b, ".capacity") || strings.HasSuffix(b, ".head") {
						okEnd = true
					}
				}
			}
			c.Check("C20.b", "range end in "+fn.Name, cl, okEnd, "eventRange.end is %s: not min(_, capacity) / min(_, head), so the range may pass the end of the slice or the head", p.Src(end))
			return true
		})
	}
	c.Floor("C20.b", "eventRange literals", nRange, 3)
	// I6: capacity and events replaced together
	capF, evF := p.Field(rb+".capacity"), p.Field(rb+".events")
	if capF != nil && evF != nil {
		n := 0
		for _, w := range p.FieldWrites(capF) {
			n++
			if w.Kind == "compositelit" {
				// constructor literal: events: make(_, capacity) with the same identifier
				cl, _ := p.Parent(w.Node).(*ast.CompositeLit)
				ok := false
				if cl != nil {
					for _, el := range cl.Elts {
						if kv, isKV := el.(*ast.KeyValueExpr); isKV && kv.Key.(*ast.Ident).Name == "events" {
							if mk, isCall := unparen(kv.Value).(*ast.CallExpr); isCall && len(mk.Args) >= 2 && p.Src(mk.Args[1]) == p.Src(w.Arg) {
								ok = true
							}
						}
					}
				}
				c.Check("C20.b", "events sized by capacity in constructor "+w.Fn.Name, w.Node, ok, "constructor does not create events with make(_, %s)", p.Src(w.Arg))
				continue
			}
			// assignment e.capacity = v: same function assigns e.events = <slice made with v>
			ok := false
			for _, ew := range p.FieldWrites(evF) {
				if ew.Fn != w.Fn || ew.Kind != "assign" {
					continue
				}
				st := p.StateAt(w.Fn, ew.Node)
				for _, t := range p.chain(T(ew.Arg, st)) {
					if mk, isCall := unparen(t.E).(*ast.CallExpr); isCall && len(mk.Args) >= 2 && p.Src(mk.Args[1]) == p.Src(w.Arg) {
						ok = true
					}
				}
			}
			c.Check("C20.b", "events replaced with capacity in "+w.Fn.Name, w.Node, ok, "capacity is set to %s without events being replaced by a slice of that length in the same function (I6 len(events) == capacity)", p.Src(w.Arg))
		}
		c.Floor("C20.b", "writes of capacity", n, 2)
	}

	// ------------------------------------------------------------------ C20.c ids
	c.Rule("C20.c", "Add stores its argument at head, increments id exactly once on every path and lowestId only when the buffer was already full; id/lowestId/resizeOffset/head/capacity/full have confined writers")
	if fn := c.MustFunc("C20.c", rb+".Add"); fn != nil {
		idInc, lowInc := 0, 0
		for _, s := range fn.Decl.Body.List {
			if inc, ok := s.(*ast.IncDecStmt); ok && inc.Tok == token.INC {
				if _, isID := p.fieldSel(inc.X, rb+".id"); isID {
					idInc++
				}
			}
		}
		total := 0
		ast.Inspect(fn.Decl.Body, func(n ast.Node) bool {
			switch x := n.(type) {
			case *ast.IncDecStmt:
				if _, isID := p.fieldSel(x.X, rb+".id"); isID {
					total++
				}
				if _, isLow := p.fieldSel(x.X, rb+".lowestId"); isLow && x.Tok == token.INC {
					lowInc++
					st := p.StateAt(fn, x)
					full := p.Holds(st, p.BoolAtom(true, func(t Term) bool { _, ok := p.fieldSel(t.E, rb+".full"); return ok }))
					c.Check("C20.c", "lowestId++ only when full", x, full, "lowestId is incremented without the fact e.full: the oldest id advances although nothing was overwritten; facts: %v", p.FactStrings(st))
				}
			case *ast.AssignStmt:
				for _, l := range x.Lhs {
					if _, isID := p.fieldSel(l, rb+".id"); isID {
						total += 2
					}
				}
			}
			return true
		})
		c.Check("C20.c", "id++ exactly once per Add", fn.Decl, idInc == 1 && total == 1, "Add must contain exactly one unconditional `e.id++` (top-level statements: %d, all id writes: %d): ids would skip or repeat", idInc, total)
		c.Check("C20.c", "lowestId++ present in Add", fn.Decl, lowInc == 1, "Add no longer advances lowestId when it overwrites the oldest event (%d sites)", lowInc)
		// the stored value is the parameter, at position head
		stored := false
		ast.Inspect(fn.Decl.Body, func(n ast.Node) bool {
			as, ok := n.(*ast.AssignStmt)
			if !ok || len(as.Lhs) != 1 {
				return true
			}
			ix, ok := unparen(as.Lhs[0]).(*ast.IndexExpr)
			if !ok {
				return true
			}
			if _, isEv := p.fieldSel(ix.X, rb+".events"); !isEv {
				return true
			}
			_, atHead := p.fieldSel(ix.Index, rb+".head")
			if atHead && p.isParam(fn, as.Rhs[0], 0) {
				stored = true
			}
			return true
		})
		c.Check("C20.c", "Add stores the event at head", fn.Decl, stored, "Add does not store its argument at e.events[e.head]")
	}
	writers := map[string]map[string]bool{
		rb + ".id":           {rb + ".Add": true},
		rb + ".lowestId":     {rb + ".Add": true, rb + ".updateLowestID": true},
		rb + ".resizeOffset": {rb + ".Resize": true},
		rb + ".head":         {rb + ".Add": true, rb + ".Resize": true},
		rb + ".capacity":     {rb + ".Resize": true, "events.newEventRingBuffer": true},
		rb + ".full":         {rb + ".Add": true, rb + ".Resize": true},
		rb + ".events":       {rb + ".Add": true, rb + ".Resize": true, "events.newEventRingBuffer": true},
	}
	for field, allowed := range writers {
		floor := 1
		c.fieldWritersConfined("C20.c", field, floor, func(fw FieldWrite) (bool, string) {
			return allowed[fw.Fn.Name], field + " written in " + fw.Fn.Name + ": the id/position invariants are only re-established by " + strings.Join(keysB(allowed), ", ")
		})
	}
	// Resize re-bases the offset and derives full/head from the copied count
	if fn := c.MustFunc("C20.c", rb+".Resize"); fn != nil {
		okOff := false
		for _, w := range p.FieldWrites(p.Field(rb + ".resizeOffset")) {
			if _, isLow := p.fieldSel(w.Arg, rb+".lowestId"); isLow && p.inFn(w.Fn, fn) {
				okOff = true
				// and lowestId has been updated before
				st := p.StateAt(fn, w.Node)
				upd := p.DoneCall(st, nil, rb+".updateLowestID") != nil
				c.Check("C20.c", "resizeOffset set after updateLowestID", w.Node, upd, "resizeOffset is taken from lowestId before updateLowestID ran: id2pos would map ids to the wrong slot after shrinking")
			}
		}
		c.Check("C20.c", "resizeOffset = lowestId in Resize", fn.Decl, okOff, "Resize no longer re-bases resizeOffset to the lowest id (id2pos relies on it)")
	}

	// ------------------------------------------------------------------ C20.d store bound
	c.Rule("C20.d", "EventStore.Store writes only below len(events) and counts each stored event once; CollectEvents returns exactly events[:idx] and resets idx on every path; the size only changes through CollectEvents")
	const es = "events.EventStore"
	if fn := c.MustFunc("C20.d", es+".Store"); fn != nil {
		n := 0
		ast.Inspect(fn.Decl.Body, func(nd ast.Node) bool {
			as, ok := nd.(*ast.AssignStmt)
			if !ok || len(as.Lhs) != 1 {
				return true
			}
			ix, ok := unparen(as.Lhs[0]).(*ast.IndexExpr)
			if !ok {
				return true
			}
			if _, isEv := p.fieldSel(ix.X, es+".events"); !isEv {
				return true
			}
			n++
			st := p.StateAt(fn, as)
			_, atIdx := p.fieldSel(ix.Index, es+".idx")
			bounded := p.Holds(st, p.CmpAtom(func(op token.Token, x, y Term) bool {
				if op != token.NEQ && op != token.LSS {
					return false
				}
				_, isIdx := p.fieldSel(x.E, es+".idx")
				if !isIdx {
					return false
				}
				isEvents := false
				ast.Inspect(y.E, func(m ast.Node) bool {
					if lc, isCall := m.(*ast.CallExpr); isCall && len(lc.Args) >= 1 && p.Src(lc.Fun) == "len" {
						if _, isEv := p.fieldSel(lc.Args[0], es+".events"); isEv {
							isEvents = true
						}
					}
					return true
				})
				return isEvents
			}))
			c.Check("C20.d", "store index bounded", as, atIdx && bounded, "events[%s] is written without the fact idx != len(events) (idx only grows by one per store, so != is a bound): a full store would panic or overwrite; facts: %v", p.Src(ix.Index), p.FactStrings(st))
			inc := p.FollowedByIncOf(fn, as, es+".idx")
			c.Check("C20.d", "idx advanced after store", as, inc, "the store is not followed by idx++ on every path: the next event overwrites this one")
			return true
		})
		c.Floor("C20.d", "element stores in EventStore.Store", n, 1)
	}
	if fn := c.MustFunc("C20.d", es+".CollectEvents"); fn != nil {
		reset := false
		for _, s := range fn.Decl.Body.List {
			if as, ok := s.(*ast.AssignStmt); ok && len(as.Lhs) == 1 {
				if _, isIdx := p.fieldSel(as.Lhs[0], es+".idx"); isIdx {
					if v, isC := p.ConstInt(as.Rhs[0]); isC && v == 0 {
						reset = true
					}
				}
			}
		}
		c.Check("C20.d", "CollectEvents resets idx unconditionally", fn.Decl, reset, "CollectEvents does not reset idx to 0 as a top-level statement: events would be delivered twice or the store would stay full")
		// the copy source is events[:idx]
		src := false
		ast.Inspect(fn.Decl.Body, func(n ast.Node) bool {
			if call, ok := n.(*ast.CallExpr); ok && len(call.Args) >= 2 {
				if id, ok := unparen(call.Fun).(*ast.Ident); ok && id.Name == "copy" {
					// the stored part, sliced in place or read into a local first
					srcE := call.Args[1]
					if st := p.StateAt(fn, call); st != nil {
						srcE = p.DefOf(T(srcE, st)).E
					}
					if se, ok := unparen(srcE).(*ast.SliceExpr); ok && se.Low == nil && se.High != nil {
						_, a := p.fieldSel(se.X, es+".events")
						_, b := p.fieldSel(se.High, es+".idx")
						if a && b {
							src = true
						}
					}
				}
			}
			return true
		})
		c.Check("C20.d", "CollectEvents copies events[:idx]", fn.Decl, src, "CollectEvents no longer copies exactly es.events[:es.idx]")
	}
	c.fieldWritersConfined("C20.d", es+".idx", 2, func(fw FieldWrite) (bool, string) {
		return fw.Fn.Name == es+".Store" || fw.Fn.Name == es+".CollectEvents", "idx written in " + fw.Fn.Name
	})
	c.fieldWritersConfined("C20.d", es+".events", 2, func(fw FieldWrite) (bool, string) {
		return fw.Fn.Name == es+".Store" || fw.Fn.Name == es+".CollectEvents" || fw.Fn.Name == "events.newEventStore", "events written in " + fw.Fn.Name
	})

	// ------------------------------------------------------------------ C20.e locks
	c.Rule("C20.e", "fields of eventRingBuffer, EventStore and EventStreaming are only accessed under their own lock (same engine as C14.a)")
	la := p.Locks()
	nl := 0
	for _, a := range la.accesses {
		switch a.Struct.Name {
		case rb, es, "events.EventStreaming":
		default:
			continue
		}
		nl++
		ok := a.Status == "held" || a.Status == "fresh" || (a.Status == "requires" && len(a.Failed) == 0)
		kind := "read"
		if a.Write {
			kind = "write"
		}
		c.Check("C20.e", a.Struct.Name+"."+a.Field.Name()+" "+kind+" in "+a.Fn.Name, a.Node, ok, "%s of %s.%s without the owner's lock: %s %v", kind, a.Struct.Name, a.Field.Name(), a.Why, dedup(a.Failed))
	}
	c.Floor("C20.e", "guarded accesses in ring buffer / store / streaming", nl, 60)

	// ------------------------------------------------------------------ C20.f query shape
	c.Rule("C20.f", "id2pos reports found only for lowestId <= id < next id; getEventsFromID returns no events exactly when the id was not found and otherwise returns the ranges it computed")
	if fn := c.MustFunc("C20.f", rb+".id2pos"); fn != nil {
		for _, ex := range p.returnsOf(fn) {
			rs, ok := ex.Node.(*ast.ReturnStmt)
			if !ok || len(rs.Results) != 2 {
				continue
			}
			if p.isConstBool(rs.Results[1], true) {
				idp := paramObj(p, fn, 0)
				lower := p.Holds(ex.State, p.CmpAtom(func(op token.Token, x, y Term) bool {
					_, isLow := p.fieldSel(y.E, rb+".lowestId")
					return op == token.GEQ && p.mentionsObj(x.E, idp) && isLow
				}))
				upper := p.Holds(ex.State, p.CmpAtom(func(op token.Token, x, y Term) bool {
					_, isID := p.fieldSel(y.E, rb+".id")
					return op == token.LSS && p.mentionsObj(x.E, idp) && isID
				}))
				c.Check("C20.f", "id2pos found => id >= lowestId", rs, lower, "found is reported without the fact id >= e.lowestId; facts: %v", p.FactStrings(ex.State))
				c.Check("C20.f", "id2pos found => id < next id", rs, upper, "found is reported without the fact id < e.id; facts: %v", p.FactStrings(ex.State))
			}
		}
	}
	if fn := c.MustFunc("C20.f", rb+".getEventsFromID"); fn != nil {
		nNil, nData := 0, 0
		for _, ex := range p.returnsOf(fn) {
			rs, ok := ex.Node.(*ast.ReturnStmt)
			if !ok || len(rs.Results) != 3 {
				continue
			}
			found := func(val bool) bool {
				return p.Holds(ex.State, p.BoolAtom(val, func(t Term) bool {
					for _, cc := range p.chain(t) {
						if call, ok := unparen(cc.E).(*ast.CallExpr); ok && p.IsCall(call, rb+".id2pos") {
							return true
						}
					}
					return false
				}))
			}
			if p.isNilExpr(rs.Results[0]) {
				nNil++
				c.Check("C20.f", "empty answer only when not found", rs, found(false), "getEventsFromID returns nil although the id may have been found")
			} else {
				nData++
				c.Check("C20.f", "data answer only when found", rs, found(true), "getEventsFromID returns events without the fact that id2pos found the id")
				call, isCall := unparen(rs.Results[0]).(*ast.CallExpr)
				c.Check("C20.f", "data answer comes from getEntriesFromRanges", rs, isCall && p.IsCall(call, rb+".getEntriesFromRanges"), "events are not produced by getEntriesFromRanges")
			}
			// second and third result: lowest id and last id
			lowOK := false
			for _, t := range p.chain(T(rs.Results[1], ex.State)) {
				if call, ok := unparen(t.E).(*ast.CallExpr); ok && p.IsCall(call, rb+".getLowestID") {
					lowOK = true
				}
			}
			lastOK := false
			for _, t := range p.chain(T(rs.Results[2], ex.State)) {
				if call, ok := unparen(t.E).(*ast.CallExpr); ok && p.IsCall(call, rb+".getLastEventID") {
					lastOK = true
				}
			}
			c.Check("C20.f", "answer carries the available id range", rs, lowOK && lastOK, "second/third result are not getLowestID()/getLastEventID()")
		}
		c.Floor("C20.f", "empty answers of getEventsFromID", nNil, 1)
		c.Floor("C20.f", "data answers of getEventsFromID", nData, 2)
		// wrap case is entered only for a full buffer with pos >= head
		for _, call := range p.callsIn(fn, rb+".getEntriesFromRanges") {
			if len(call.Args) >= 2 && !p.isNilExpr(call.Args[1]) {
				st := p.StateAt(fn, call)
				full := p.Holds(st, p.BoolAtom(true, func(t Term) bool { _, ok := p.fieldSel(t.E, rb+".full"); return ok }))
				after := p.Holds(st, p.CmpAtom(func(op token.Token, x, y Term) bool {
					_, isHead := p.fieldSel(y.E, rb+".head")
					return op == token.GEQ && isHead
				}))
				c.Check("C20.f", "two-range answer only for a full buffer read from behind the head", call, full && after, "the wrapped (two range) read is used without the facts e.full and pos >= e.head")
			}
		}
	}
	// GetRecentEvents asks for the last `count` ids
	c.mustContainCalls("C20.f", rb+".GetRecentEvents", rb+".getLastEventID", rb+".getEventsFromID")
	c.mustContainCalls("C20.f", "events.EventSystemImpl.GetEventsFromID", rb+".GetEventsFromID")

	// ------------------------------------------------------------------ C20.g capacities never zero
	c.Rule("C20.g", "the ring buffer and the store are only created/resized with capacities that come from getRingBufferCapacity/getRequestCapacity, which never return 0 (I3; `% capacity` cannot divide by zero)")
	for _, g := range []string{"events.getRingBufferCapacity", "events.getRequestCapacity"} {
		fn := c.MustFunc("C20.g", g)
		if fn == nil {
			continue
		}
		n := 0
		for _, ex := range p.returnsOf(fn) {
			rs, ok := ex.Node.(*ast.ReturnStmt)
			if !ok || len(rs.Results) != 1 {
				continue
			}
			n++
			okRet := false
			if v, isC := p.ConstInt(rs.Results[0]); isC && v > 0 {
				okRet = true
			} else {
				okRet = p.Holds(ex.State, p.CmpAtom(func(op token.Token, x, y Term) bool {
					v, isC := p.ConstInt(y.E)
					return (op == token.NEQ || op == token.GTR) && isC && v == 0 && p.Same(x, T(rs.Results[0], ex.State))
				}))
			}
			c.Check("C20.g", "non-zero result of "+shortFn(g), rs, okRet, "%s can return 0: `%% capacity` in Add/id2pos/Resize would panic and the store would never accept an event", g)
		}
		c.Floor("C20.g", "returns of "+shortFn(g), n, 2)
	}
	capSource := func(caller *Func, arg ast.Expr, at ast.Node, getter, field string) bool {
		st := p.StateAt(caller, at)
		for _, t := range p.chain(T(arg, st)) {
			if call, ok := unparen(t.E).(*ast.CallExpr); ok && p.IsCall(call, getter) {
				return true
			}
			if _, isF := p.fieldSel(t.E, field); isF {
				return true
			}
		}
		return false
	}
	for _, site := range []struct{ callee, getter, field string }{
		{"events.newEventRingBuffer", "events.getRingBufferCapacity", "events.EventSystemImpl.ringBufferCapacity"},
		{rb + ".Resize", "events.getRingBufferCapacity", "events.EventSystemImpl.ringBufferCapacity"},
		{"events.newEventStore", "events.getRequestCapacity", "events.EventSystemImpl.requestCapacity"},
		{es + ".SetStoreSize", "events.getRequestCapacity", "events.EventSystemImpl.requestCapacity"},
	} {
		fn := c.MustFunc("C20.g", site.callee)
		if fn == nil {
			continue
		}
		sites := p.CallSites(fn.Obj)
		for _, cs := range sites {
			ok := len(cs.Call.Args) >= 1 && capSource(cs.Caller, cs.Call.Args[0], cs.Call, site.getter, site.field)
			c.Check("C20.g", "capacity argument of "+shortFn(site.callee)+" in "+cs.Caller.Name, cs.Call, ok, "%s is called with %s, which does not come from %s", site.callee, p.Src(cs.Call.Args[0]), site.getter)
		}
		c.Floor("C20.g", "call sites of "+shortFn(site.callee), len(sites), 1)
	}
	for _, fg := range [][2]string{{"events.EventSystemImpl.ringBufferCapacity", "events.getRingBufferCapacity"}, {"events.EventSystemImpl.requestCapacity", "events.getRequestCapacity"}} {
		c.fieldWritersConfined("C20.g", fg[0], 1, func(fw FieldWrite) (bool, string) {
			if fw.Arg == nil {
				return false, "write without a value"
			}
			st := p.StateAt(fw.Fn, fw.Node)
			for _, t := range p.chain(T(fw.Arg, st)) {
				if call, ok := unparen(t.E).(*ast.CallExpr); ok && p.IsCall(call, fg[1]) {
					return true, ""
				}
			}
			return false, fg[0] + " is assigned " + p.Src(fw.Arg) + " which is not the result of " + fg[1]
		})
	}

	// ------------------------------------------------------------------ C20.h streaming
	c.Rule("C20.h", "a new stream is registered for live events before the history snapshot is taken (no gap), history is sent before live events, live events already sent as history are filtered, and PublishEvent never blocks on a full consumer while holding the lock")
	if fn := c.MustFunc("C20.h", "events.EventStreaming.CreateEventStream"); fn != nil {
		calls := p.callsIn(fn, rb+".GetRecentEvents")
		for _, call := range calls {
			st := p.StateAt(fn, call)
			reg := p.DoneCall(st, nil, "events.EventStreaming.createEventStreamInternal") != nil
			c.Check("C20.h", "registered before history snapshot", call, reg, "the history snapshot is taken before the stream is registered: events published in between are lost (gap)")
		}
		c.Floor("C20.h", "history snapshots in CreateEventStream", len(calls), 1)
		// inside the goroutine: the range over history precedes the select loop, and the forwarded live event is filtered by seen
		var rng *ast.RangeStmt
		var loop *ast.ForStmt
		nSend := 0
		ast.Inspect(fn.Decl.Body, func(n ast.Node) bool {
			switch x := n.(type) {
			case *ast.RangeStmt:
				// the range over the history snapshot: a local that holds the result of GetRecentEvents
				if p.identIn(x.X, p.assignedFrom(fn, rb+".GetRecentEvents")) {
					rng = x
				}
			case *ast.ForStmt:
				if x.Cond == nil && loop == nil {
					loop = x
				}
			case *ast.SendStmt:
				if loop != nil && x.Pos() > loop.Pos() && x.End() < loop.End() {
					nSend++
					// an earlier statement of the same iteration skips events already sent as history:
					// `if seen[event] { continue }` (the map is re-created afterwards, so the fact
					// itself does not survive to the send; the dominance is structural)
					filtered := p.PrecededBy(fn, x, func(b ast.Node) bool {
						ifs, ok := b.(*ast.IfStmt)
						if !ok || ifs.Else != nil || len(ifs.Body.List) == 0 {
							return false
						}
						ix, ok := unparen(ifs.Cond).(*ast.IndexExpr)
						if !ok || p.Src(ix.X) != "seen" || p.Src(ix.Index) != p.Src(x.Value) {
							return false
						}
						// the skip must be exactly `continue`: forgetting the history inside it (seen = nil)
						// lets the next overlapping event through twice
						if len(ifs.Body.List) != 1 {
							return false
						}
						br, ok := ifs.Body.List[0].(*ast.BranchStmt)
						return ok && br.Tok == token.CONTINUE
					}) != nil
					c.Check("C20.h", "live event filtered against history", x, filtered, "a live event is forwarded without the fact !seen[event]: an event present in both the history snapshot and the local channel is delivered twice")
				}
			}
			return true
		})
		c.Check("C20.h", "history replay precedes the live loop", fn.Decl, rng != nil && loop != nil && rng.End() <= loop.Pos(), "the goroutine does not send the history before entering the live loop")
		c.Floor("C20.h", "live forwards in the stream goroutine", nSend, 1)
	}
	if fn := c.MustFunc("C20.h", "events.EventStreaming.PublishEvent"); fn != nil {
		n := 0
		ast.Inspect(fn.Decl.Body, func(nd ast.Node) bool {
			snd, ok := nd.(*ast.SendStmt)
			if !ok {
				return true
			}
			n++
			st := p.StateAt(fn, snd)
			notFull := p.Holds(st, p.CmpAtom(func(op token.Token, x, y Term) bool {
				return (op == token.NEQ || op == token.LSS) && strings.HasPrefix(p.Src(x.E), "len(") && strings.Contains(p.Src(x.E), p.Src(snd.Chan))
			}))
			c.Check("C20.h", "publish never blocks", snd, notFull, "PublishEvent sends to a consumer channel without the fact that it is not full: a slow consumer blocks event processing while the streaming lock is held")
			return true
		})
		c.Floor("C20.h", "sends in PublishEvent", n, 1)
	}
}

func keysB(m map[string]bool) []string {
	var out []string
	for k := range m {
		out = append(out, k)
	}
	return out
}

// assignsFieldFrom: fn contains `<x>.field = v` where v is the same expression (source) as e.
func (p *Prog) assignsFieldFrom(fn *Func, field string, e ast.Expr) bool {
	f := p.Field(field)
	if f == nil {
		return false
	}
	for _, w := range p.FieldWrites(f) {
		if p.inFn(w.Fn, fn) && w.Arg != nil && p.Src(w.Arg) == p.Src(e) {
			return true
		}
	}
	return false
}

// FollowedByIncOf: after node n, on every path to the exit, `x.field++` executes.
func (p *Prog) FollowedByIncOf(fn *Func, n ast.Node, field string) bool {
	m, _ := p.FollowedBy(fn, n, func(b ast.Node) bool {
		inc, ok := b.(*ast.IncDecStmt)
		if !ok || inc.Tok != token.INC {
			return false
		}
		_, is := p.fieldSel(inc.X, field)
		return is
	})
	return m != nil
}

// unsignedSubGuarded decides whether x - y (unsigned) is protected against wrap-around by the facts
// known at that point.
func (p *Prog) unsignedSubGuarded(fn *Func, st *State, x, y ast.Expr) (bool, string) {
	if st == nil {
		return false, "no state"
	}
	tx := T(x, st)
	if y == nil {
		// x-- : needs x != 0 / x > 0
		ok := p.Holds(st, p.CmpAtom(func(op token.Token, a, b Term) bool {
			v, isC := p.ConstInt(b.E)
			return isC && v == 0 && (op == token.NEQ || op == token.GTR) && p.Same(a, tx)
		}))
		return ok, "decrement needs x != 0"
	}
	ty := T(y, st)
	// 1. x >= y, x > y
	if p.Holds(st, p.CmpAtom(func(op token.Token, a, b Term) bool {
		return (op == token.GEQ || op == token.GTR) && p.Same(a, tx) && p.Same(b, ty)
	})) {
		return true, ""
	}
	// 2. constant y with x != 0 (y == 1), x > c, x >= c
	if v, isC := p.ConstInt(y); isC {
		if p.Holds(st, p.CmpAtom(func(op token.Token, a, b Term) bool {
			w, isC2 := p.ConstInt(b.E)
			if !isC2 || !p.Same(a, tx) {
				return false
			}
			switch op {
			case token.NEQ:
				return w == 0 && v == 1
			case token.GTR:
				return w+1 >= v
			case token.GEQ:
				return w >= v
			}
			return false
		})) {
			return true, ""
		}
	}
	// 3. y is defined as `_ % x`  (y < x)
	for _, t := range p.chain(ty) {
		if be, ok := unparen(t.E).(*ast.BinaryExpr); ok && be.Op == token.REM && p.Src(be.Y) == p.Src(x) {
			return true, ""
		}
	}
	// 4. (x - _) > y  or (x - _) >= y  implies x > y when the inner subtraction does not wrap
	if p.Holds(st, p.CmpAtom(func(op token.Token, a, b Term) bool {
		if op != token.GTR && op != token.GEQ {
			return false
		}
		be, ok := unparen(a.E).(*ast.BinaryExpr)
		if !ok || be.Op != token.SUB {
			return false
		}
		return p.Same(Term{E: be.X, Env: a.Env, Frozen: a.Frozen, Idx: -1}, tx) && p.Same(b, ty)
	})) {
		return true, ""
	}
	return false, "no x >= y / x > y / x != 0 / modulo-definition fact for these operands"
}
