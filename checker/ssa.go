package main

// SSA + VTA call graph: reachability and who-may-reach queries.

import (
	"go/ast"
	"go/types"
	"sort"

	"golang.org/x/tools/go/callgraph"
	"golang.org/x/tools/go/callgraph/cha"
	"golang.org/x/tools/go/callgraph/vta"
	"golang.org/x/tools/go/ssa"
	"golang.org/x/tools/go/ssa/ssautil"
)

type ssaState struct {
	prog           *ssa.Program
	vta, cha       *callgraph.Graph
	nfuncs, nedges int
	declOf         map[*ssa.Function]*types.Func
}

func (p *Prog) SSA() *ssaState {
	if p.ssa != nil {
		return p.ssa
	}
	prog, _ := ssautil.AllPackages(p.initial, ssa.InstantiateGenerics)
	prog.Build()
	all := ssautil.AllFunctions(prog)
	chaG := cha.CallGraph(prog)
	vtaG := vta.CallGraph(all, chaG)
	s := &ssaState{prog: prog, vta: vtaG, cha: chaG, nfuncs: len(all), declOf: map[*ssa.Function]*types.Func{}}
	for _, n := range vtaG.Nodes {
		s.nedges += len(n.Out)
	}
	p.ssa = s
	return s
}

// declared returns the declared function object that (transitively) contains f.
func (s *ssaState) declared(f *ssa.Function) *types.Func {
	for f != nil {
		if o, ok := f.Object().(*types.Func); ok && o != nil {
			return o.Origin()
		}
		if f.Parent() == nil {
			if f.Origin() != nil && f.Origin() != f {
				f = f.Origin()
				continue
			}
			return nil
		}
		f = f.Parent()
	}
	return nil
}

type reach struct {
	from map[*types.Func]*types.Func // BFS predecessor (declared-function level)
	set  map[*types.Func]bool
}

// Reachable computes the declared functions reachable from the named roots.
// graph: "vta" or "cha".
func (p *Prog) Reachable(graph string, roots ...string) *reach {
	s := p.SSA()
	g := s.vta
	if graph == "cha" {
		g = s.cha
	}
	r := &reach{from: map[*types.Func]*types.Func{}, set: map[*types.Func]bool{}}
	seen := map[*callgraph.Node]bool{}
	var queue []*callgraph.Node
	pred := map[*callgraph.Node]*callgraph.Node{}
	for _, name := range roots {
		fn := p.Funcs[name]
		if fn == nil {
			continue
		}
		sf := s.prog.FuncValue(fn.Obj)
		if sf == nil {
			continue
		}
		if n := g.Nodes[sf]; n != nil && !seen[n] {
			seen[n] = true
			queue = append(queue, n)
		}
	}
	fsmOwners := p.fsmCallbackOwners()
	raised := map[string]bool{}
	for len(queue) > 0 {
		n := queue[0]
		queue = queue[1:]
		d := s.declared(n.Func)
		if d != nil && !r.set[d] {
			r.set[d] = true
			if pn := pred[n]; pn != nil {
				r.from[d] = s.declared(pn.Func)
			}
			// FSM refinement: a function that raises an event on a state machine reaches exactly the
			// callbacks registered on that kind of state machine
			if fn := p.FuncOf[d]; fn != nil {
				for _, owner := range p.fsmRaisedIn(fn) {
					if raised[owner] {
						continue
					}
					raised[owner] = true
					if of := p.Funcs[owner]; of != nil {
						if sf := s.prog.FuncValue(of.Obj); sf != nil {
							for _, anon := range sf.AnonFuncs {
								if an := g.Nodes[anon]; an != nil && !seen[an] {
									seen[an] = true
									pred[an] = n
									queue = append(queue, an)
								}
							}
						}
					}
				}
			}
		}
		// anonymous functions defined inside n are considered reachable when n is (they may be
		// stored and invoked later: timers, callbacks); VTA adds the invocation edges as well.
		for _, e := range n.Out {
			// the FSM library invokes only the callbacks of the machine the event was raised on (edges
			// added above); VTA merges the callback maps of all machines
			if par := e.Callee.Func.Parent(); par != nil && n.Func.Pkg != nil && n.Func.Pkg.Pkg.Path() == "github.com/looplab/fsm" {
				if po := s.declared(par); po != nil && fsmOwners[p.FuncName(po)] {
					continue
				}
			}
			if !seen[e.Callee] {
				seen[e.Callee] = true
				pred[e.Callee] = n
				queue = append(queue, e.Callee)
			}
		}
		for _, anon := range n.Func.AnonFuncs {
			if d != nil && fsmOwners[p.FuncName(d)] && n.Func.Parent() == nil {
				continue // callback literals run when an event is raised, not when the table is built
			}
			if an := g.Nodes[anon]; an != nil && !seen[an] {
				seen[an] = true
				pred[an] = n
				queue = append(queue, an)
			}
		}
	}
	return r
}

func (r *reach) Has(fn *Func) bool { return fn != nil && r.set[fn.Obj] }

// Path renders a call path from a root to fn (declared-function granularity).
func (r *reach) Path(p *Prog, fn *Func) string {
	var names []string
	cur := fn.Obj
	for i := 0; cur != nil && i < 40; i++ {
		names = append(names, p.FuncName(cur))
		nxt := r.from[cur]
		if nxt == cur {
			break
		}
		cur = nxt
	}
	out := ""
	for i := len(names) - 1; i >= 0; i-- {
		if out != "" {
			out += " -> "
		}
		out += names[i]
	}
	return out
}

// CallersOf returns the declared functions with a call-graph edge to fn (VTA), sorted by name.
func (p *Prog) CallersOf(fn *Func) []string {
	s := p.SSA()
	sf := s.prog.FuncValue(fn.Obj)
	if sf == nil {
		return nil
	}
	n := s.vta.Nodes[sf]
	if n == nil {
		return nil
	}
	set := map[string]bool{}
	for _, e := range n.In {
		if d := s.declared(e.Caller.Func); d != nil {
			set[p.FuncName(d)] = true
		}
	}
	var out []string
	for k := range set {
		out = append(out, k)
	}
	sort.Strings(out)
	return out
}

// fsmCallbackOwners: the functions whose literals are the callback tables of the state machines.
func (p *Prog) fsmCallbackOwners() map[string]bool {
	return map[string]bool{"objects.callbacks": true, "objects.NewObjectState": true}
}

var fsmRaisedCache = map[*Func][]string{}

// fsmRaisedIn: which callback tables fn reaches by calling Event on a state machine field.
func (p *Prog) fsmRaisedIn(fn *Func) []string {
	if r, ok := fsmRaisedCache[fn]; ok {
		return r
	}
	var out []string
	if fn.Decl.Body != nil {
		ast.Inspect(fn.Decl.Body, func(n ast.Node) bool {
			call, ok := n.(*ast.CallExpr)
			if !ok {
				return true
			}
			sel, ok := unparen(call.Fun).(*ast.SelectorExpr)
			if !ok || (sel.Sel.Name != "Event" && sel.Sel.Name != "SetState") {
				return true
			}
			f := p.SelField(sel.X)
			if f == nil {
				return true
			}
			switch p.FieldName(f) {
			case "objects.Application.stateMachine":
				out = append(out, "objects.callbacks")
			case "objects.Queue.stateMachine", "scheduler.PartitionContext.stateMachine":
				out = append(out, "objects.NewObjectState")
			}
			return true
		})
	}
	fsmRaisedCache[fn] = out
	return out
}
