package main

import (
	"go/ast"
	"go/types"
	"strings"
)

// C10 — applications follow the documented life cycle.
// C11 — queue max-applications gate.

func init() {
	register("C10", rulesC10)
	register("C11", rulesC11)
}

func tr(event string, dst string, srcs ...string) []fsmTransition {
	var out []fsmTransition
	for _, s := range srcs {
		out = append(out, fsmTransition{event, s, dst})
	}
	return out
}

func documentedAppLifeCycle() []fsmTransition {
	var t []fsmTransition
	t = append(t, tr("rejectApplication", "Rejected", "New")...)
	t = append(t, tr("runApplication", "Accepted", "New", "Resuming")...)
	t = append(t, tr("runApplication", "Running", "Accepted", "Running", "Completing")...)
	t = append(t, tr("completeApplication", "Completing", "Accepted", "Running")...)
	t = append(t, tr("completeApplication", "Completed", "Completing")...)
	t = append(t, tr("failApplication", "Failing", "New", "Accepted", "Running")...)
	t = append(t, tr("failApplication", "Failed", "Failing")...)
	t = append(t, tr("resumeApplication", "Resuming", "New", "Accepted")...)
	t = append(t, tr("expireApplication", "Expired", "Completed", "Failed", "Rejected")...)
	return t
}

// constsOfType counts the package-level constants of the named type.
func (p *Prog) constsOfType(typ string) []string {
	n := p.Named(typ)
	if n == nil {
		return nil
	}
	var out []string
	sc := n.Obj().Pkg().Scope()
	for _, name := range sc.Names() {
		if cst, ok := sc.Lookup(name).(*types.Const); ok && types.Identical(cst.Type(), n) {
			out = append(out, name)
		}
	}
	return out
}

// fsmCallsOn lists calls of the FSM method on the given struct field (e.g. Application.stateMachine).
func (p *Prog) fsmCallsOn(field, method string) []CallSite {
	var out []CallSite
	for _, fn := range p.funcs {
		if fn.Decl.Body == nil {
			continue
		}
		ast.Inspect(fn.Decl.Body, func(n ast.Node) bool {
			call, ok := n.(*ast.CallExpr)
			if !ok {
				return true
			}
			callee := p.Callee(call)
			if callee == nil || callee.Name() != method || callee.Pkg() == nil || !strings.HasSuffix(callee.Pkg().Path(), "looplab/fsm") {
				return true
			}
			if f := p.SelField(Recv(call)); f != nil && p.FieldName(f) == field {
				out = append(out, CallSite{Caller: fn, Call: call})
			}
			return true
		})
	}
	return out
}

func rulesC10(c *Ctx) {
	p := c.p
	c.NotDecided("that the state always matches the ledgers under timer races (e.g. Completed with a live allocation after ReplaceAllocation removed the placeholder first)",
		"which event sequence a particular history produces")

	// ---- C10.a transition table
	c.Rule("C10.a", "the relation extracted from eventDesc() equals the documented life cycle exactly; state/event name arrays cover their constants; NewAppState starts in New with eventDesc()/callbacks()")
	if fn := c.MustFunc("C10.a", "objects.eventDesc"); fn != nil {
		got, problems := p.fsmEvents(fn)
		for _, pr := range problems {
			c.Undecided("C10.a", "table extraction", fn.Decl, "%s", pr)
		}
		c.compareTransitions("C10.a", fn.Decl, got, documentedAppLifeCycle())
		c.Floor("C10.a", "transitions in eventDesc()", len(got), 18)
	}
	for _, pair := range [][2]string{{"objects.applicationState", "objects.applicationState.String"}, {"objects.applicationEvent", "objects.applicationEvent.String"}} {
		fn := c.MustFunc("C10.a", pair[1])
		if fn == nil {
			continue
		}
		names := p.stringerArray(fn)
		consts := p.constsOfType(pair[0])
		c.Check("C10.a", "name array of "+pair[0]+" covers its constants", fn.Decl, names != nil && len(names) == len(consts), "%d names for %d constants %v", len(names), len(consts), consts)
		seen := map[string]bool{}
		for _, nme := range names {
			if seen[nme] {
				c.Check("C10.a", "duplicate name "+nme, fn.Decl, false, "two constants share the name %s", nme)
			}
			seen[nme] = true
		}
	}
	if fn := c.MustFunc("C10.a", "objects.NewAppState"); fn != nil {
		ok := false
		for _, call := range p.callsIn(fn, "github.com/looplab/fsm.NewFSM") {
			if len(call.Args) >= 3 {
				init, isS := p.EvalString(call.Args[0])
				e, isE := unparen(call.Args[1]).(*ast.CallExpr)
				cb, isC := unparen(call.Args[2]).(*ast.CallExpr)
				ok = isS && init == "New" && isE && p.IsCall(e, "objects.eventDesc") && isC && p.IsCall(cb, "objects.callbacks")
			}
		}
		c.Check("C10.a", "NewAppState = NewFSM(New, eventDesc(), callbacks())", fn.Decl, ok, "NewAppState no longer builds the FSM from New / eventDesc() / callbacks()")
		sites := p.CallSites(fn.Obj)
		for _, cs := range sites {
			c.Check("C10.a", "NewAppState used by "+cs.Caller.Name, cs.Call, cs.Caller.Name == "objects.NewApplication", "application FSM created outside NewApplication")
		}
	}
	c.fieldWritersConfined("C10.a", "objects.Application.stateMachine", 1, func(w FieldWrite) (bool, string) {
		return w.Fn.Name == "objects.NewApplication", "Application.stateMachine replaced outside NewApplication"
	})

	// ---- C10.b no bypass
	c.Rule("C10.b", "the application state is only changed through FSM events raised by HandleApplicationEvent*; SetState has no non-test caller")
	for _, cs := range p.fsmCallsOn("objects.Application.stateMachine", "SetState") {
		c.Check("C10.b", "FSM.SetState in "+cs.Caller.Name, cs.Call, cs.Caller.Name == "objects.Application.SetState", "state forced without a transition")
	}
	if fn := c.MustFunc("C10.b", "objects.Application.SetState"); fn != nil {
		for _, cs := range p.CallSites(fn.Obj) {
			c.Check("C10.b", "Application.SetState called from "+cs.Caller.Name, cs.Call, false, "test-only state setter used in production code")
		}
	}
	evs := p.fsmCallsOn("objects.Application.stateMachine", "Event")
	for _, cs := range evs {
		ok := cs.Caller.Name == "objects.Application.HandleApplicationEvent" || cs.Caller.Name == "objects.Application.HandleApplicationEventWithInfo"
		c.Check("C10.b", "FSM.Event in "+cs.Caller.Name, cs.Call, ok, "FSM event raised outside HandleApplicationEvent*")
		if ok && len(cs.Call.Args) >= 3 {
			// first user argument must be the application itself (callbacks type-assert it)
			c.Check("C10.b", "FSM.Event passes the application in "+cs.Caller.Name, cs.Call, p.isRecvExpr(cs.Caller, cs.Call.Args[2]), "callbacks expect Args[0] to be the application")
		}
	}
	c.Floor("C10.b", "FSM.Event call sites on Application.stateMachine", len(evs), 2)

	// ---- C10.c raise sites
	c.Rule("C10.c", "every raise of CompleteApplication carries its zero-ledger facts; raise sites are enumerated")
	raise := append(p.CallSitesByName("objects.Application.HandleApplicationEvent"), p.CallSitesByName("objects.Application.HandleApplicationEventWithInfo")...)
	c.Floor("C10.c", "raise sites (HandleApplicationEvent*)", len(raise), 10)
	isZeroOf := func(fn *Func, field string) Req {
		return p.CallAtom(true, func(cl *ast.CallExpr, a Atom) bool {
			return len(cl.Args) >= 1 && p.recvField(fn, cl.Args[0], field)
		}, "resources.IsZero")
	}
	nComplete := 0
	for _, cs := range raise {
		fn := cs.Caller
		st := p.StateAt(fn, cs.Call)
		evArg := cs.Call.Args[0]
		isConstEvent := func(name string) bool { return p.Src(evArg) == name }
		switch {
		case isConstEvent("CompleteApplication"):
			nComplete++
			pend := p.Holds(st, isZeroOf(fn, "objects.Application.pending"))
			c.Check("C10.c", "Complete raised in "+shortFn(fn.Name)+" only with zero pending", cs.Call, pend, "CompleteApplication raised without IsZero(sa.pending); facts: %v", p.FactStrings(st))
			alloc := p.Holds(st, isZeroOf(fn, "objects.Application.allocatedResource"))
			if !alloc {
				// reset just before (RemoveAllAllocations)
				for _, d := range st.Done {
					if as, ok := d.(*ast.AssignStmt); ok && len(as.Lhs) == 1 && p.recvField(fn, as.Lhs[0], "objects.Application.allocatedResource") {
						if cl, ok := unparen(as.Rhs[0]).(*ast.CallExpr); ok && p.IsCall(cl, "resources.NewResource") {
							alloc = true
						}
					}
				}
			}
			c.Check("C10.c", "Complete raised in "+shortFn(fn.Name)+" only with zero allocated", cs.Call, alloc, "CompleteApplication raised without IsZero(sa.allocatedResource) (or a reset of it); facts: %v", p.FactStrings(st))
		case func() bool {
			_, isId := unparen(evArg).(*ast.Ident)
			return isId && p.TypeName(p.TypeOf(evArg)) == "objects.applicationEvent" && !strings.HasSuffix(p.Src(evArg), "Application")
		}():
			// event carried by a variable: check every assignment of CompleteApplication to it
			id := unparen(evArg).(*ast.Ident)
			obj := p.ObjOf(id)
			if _, isParam := p.paramRoot(fn, T(evArg, st)); isParam {
				continue
			}
			ast.Inspect(fn.Decl.Body, func(n ast.Node) bool {
				as, ok := n.(*ast.AssignStmt)
				if !ok || len(as.Lhs) != 1 || len(as.Rhs) != 1 {
					return true
				}
				lid, ok := as.Lhs[0].(*ast.Ident)
				if !ok || p.ObjOf(lid) != obj || p.Src(as.Rhs[0]) != "CompleteApplication" {
					return true
				}
				nComplete++
				s2 := p.StateAt(fn, as)
				okZ := p.Holds(s2, anyReq(
					p.CallAtom(true, func(cl *ast.CallExpr, a Atom) bool { return p.isRecvExpr(fn, Recv(cl)) }, "objects.Application.hasZeroAllocations"),
					p.CallAtom(true, func(cl *ast.CallExpr, a Atom) bool { return p.isRecvExpr(fn, Recv(cl)) }, "objects.Application.IsCompleting", "objects.Application.IsFailing", "objects.Application.IsResuming"),
				))
				c.Check("C10.c", "Complete selected in "+shortFn(fn.Name)+" only with zero allocations (or the documented placeholder cases)", as, okZ, "event = CompleteApplication without hasZeroAllocations() (or Completing/Failing/Resuming with no placeholders left); facts: %v", p.FactStrings(s2))
				return true
			})
		}
	}
	c.Floor("C10.c", "CompleteApplication raise/selection sites", nComplete, 4)
	if fn := c.MustFunc("C10.c", "objects.Application.hasZeroAllocations"); fn != nil {
		ok := false
		for _, ex := range p.returnsOf(fn) {
			if rs, isR := ex.Node.(*ast.ReturnStmt); isR && len(rs.Results) == 1 {
				at := p.atoms(rs.Results[0], true, ex.State.Env, nil, 0)
				a := false
				b := false
				for _, x := range at {
					if isZeroOf(fn, "objects.Application.pending")(x) {
						a = true
					}
					if isZeroOf(fn, "objects.Application.allocatedResource")(x) {
						b = true
					}
				}
				ok = a && b
			}
		}
		c.Check("C10.c", "hasZeroAllocations = zero pending and zero allocated", fn.Decl, ok, "hasZeroAllocations no longer tests both pending and allocatedResource")
	}
	if fn := c.MustFunc("C10.c", "objects.Application.timeoutStateTimer"); fn != nil {
		for _, call := range p.callsIn(fn, "objects.Application.HandleApplicationEvent") {
			st := p.StateAt(fn, call)
			same := p.Holds(st, p.CmpAtom(func(op tokenT, x, y Term) bool {
				cl, ok := unparen(y.E).(*ast.CallExpr)
				return op == tokEQL && ok && strings.HasSuffix(p.CalleeName(cl), "FSM.Current") && p.isParam(fn, x.E, 0)
			}))
			c.Check("C10.c", "state timer fires only if the state did not change", call, same, "timer event raised without expectedState == current state")
		}
	}

	// ---- C10.d terminal clean-up
	c.Rule("C10.d", "enter_Completed / enter_Failed run the terminated callback, clean the asks and arm the expiry timer; enter_Rejected arms it too; moveTerminatedApp removes the app from its queue and from the active list")
	if fn := c.MustFunc("C10.d", "objects.callbacks"); fn != nil {
		cbs, problems := p.fsmCallbacks(fn)
		for _, pr := range problems {
			c.Undecided("C10.d", "callback extraction", fn.Decl, "%s", pr)
		}
		c.Floor("C10.d", "FSM callbacks", len(cbs), 16)
		litCalls := func(lit *ast.FuncLit, name string) []*ast.CallExpr {
			var out []*ast.CallExpr
			ast.Inspect(lit.Body, func(n ast.Node) bool {
				if cl, ok := n.(*ast.CallExpr); ok && p.IsCall(cl, name) {
					out = append(out, cl)
				}
				return true
			})
			return out
		}
		need := map[string][]string{
			"enter_Completed":  {"objects.Application.executeTerminatedCallback", "objects.Application.cleanupAsks", "objects.Application.clearPlaceholderTimer", "objects.Application.setStateTimer"},
			"enter_Failed":     {"objects.Application.executeTerminatedCallback", "objects.Application.cleanupAsks", "objects.Application.setStateTimer"},
			"enter_Rejected":   {"objects.Application.setStateTimer"},
			"enter_Completing": {"objects.Application.setStateTimer"},
			"leave_state":      {"objects.Application.clearStateTimer"},
			"enter_state":      {"objects.Application.OnStateChange"},
		}
		for k, callees := range need {
			lit := cbs[k]
			if lit == nil {
				c.Check("C10.d", "callback "+k+" registered", fn.Decl, false, "callback %s is missing", k)
				continue
			}
			for _, callee := range callees {
				calls := litCalls(lit, callee)
				c.Check("C10.d", k+" calls "+shortFn(callee), lit, len(calls) > 0, "callback %s no longer calls %s", k, callee)
				if callee == "objects.Application.setStateTimer" && len(calls) > 0 && len(calls[0].Args) == 3 {
					want := "ExpireApplication"
					if k == "enter_Completing" {
						want = "CompleteApplication"
					}
					c.Check("C10.d", k+" arms the timer with "+want, calls[0], p.Src(calls[0].Args[2]) == want, "timer armed with %s", p.Src(calls[0].Args[2]))
				}
			}
		}
	}
	if fn := c.MustFunc("C10.d", "scheduler.PartitionContext.moveTerminatedApp"); fn != nil {
		c.mustContainCalls("C10.d", fn.Name, "objects.Application.UnSetQueue")
		del, ins := false, false
		for _, w := range p.FieldWrites(p.Field("scheduler.PartitionContext.applications")) {
			if p.inFn(w.Fn, fn) && w.Kind == "delete" {
				del = true
			}
		}
		for _, w := range p.FieldWrites(p.Field("scheduler.PartitionContext.completedApplications")) {
			if p.inFn(w.Fn, fn) && w.Kind == "elem" {
				ins = true
			}
		}
		c.Check("C10.d", "terminated app leaves the active list", fn.Decl, del && ins, "moveTerminatedApp no longer moves the application from applications to completedApplications")
	}
	if fn := c.MustFunc("C10.d", "objects.Application.UnSetQueue"); fn != nil {
		c.mustContainCalls("C10.d", fn.Name, "objects.Queue.RemoveApplication")
	}
	if fn := c.MustFunc("C10.d", "objects.Application.executeTerminatedCallback"); fn != nil {
		ok := false
		ast.Inspect(fn.Decl.Body, func(n ast.Node) bool {
			if g, isGo := n.(*ast.GoStmt); isGo && p.recvField(fn, g.Call.Fun, "objects.Application.terminatedCallback") {
				ok = true
			}
			return true
		})
		c.Check("C10.d", "terminated callback runs outside the application lock (goroutine)", fn.Decl, ok, "terminatedCallback is no longer started with go: it would run under the application lock and dead-lock on UnSetQueue")
	}
}

func rulesC11(c *Ctx) {
	p := c.p
	c.NotDecided("the run-time values of runningApps / allocatingAcceptedApps", "the Completing -> Running restart path is not gated by the code (only Accepted applications are)")

	// ---- C11.a gate
	c.Rule("C11.a", "an Accepted application is only scheduled under sq.canRunApp(appID) (and the user/group CanRunApp); canRunApp requires the parent's consent first and compares running + allocating + 1 <= max")
	for _, pr := range [][2]string{{"objects.Queue.TryAllocate", "objects.Application.tryAllocate"}, {"objects.Queue.TryReservedAllocate", "objects.Application.tryReservedAllocate"}} {
		fn := c.MustFunc("C11.a", pr[0])
		if fn == nil {
			continue
		}
		calls := p.callsIn(fn, pr[1])
		for _, call := range calls {
			st := p.StateAt(fn, call)
			appT := T(Recv(call), st)
			notAccepted := p.CallAtom(false, func(cl *ast.CallExpr, a Atom) bool { return Recv(cl) != nil && p.Same(a.term(Recv(cl)), appT) }, "objects.Application.IsAccepted")
			q := p.Holds(st, anyReq(notAccepted, p.CallAtom(true, func(cl *ast.CallExpr, a Atom) bool {
				return p.isRecvExpr(fn, Recv(cl)) && len(cl.Args) >= 1 && appIDOf(p, a.term(cl.Args[0]), appT, fn)
			}, "objects.Queue.canRunApp")))
			c.Check("C11.a", "queue max-apps gate before "+shortFn(pr[1]), call, q, "%s reached for an Accepted application without sq.canRunApp(appID) == true; facts: %v", pr[1], p.FactStrings(st))
			u := p.Holds(st, anyReq(notAccepted, p.CallAtom(true, func(cl *ast.CallExpr, a Atom) bool {
				return len(cl.Args) >= 3 && appIDOf(p, a.term(cl.Args[1]), appT, fn)
			}, "ugm.Manager.CanRunApp")))
			c.Check("C11.a", "user/group max-apps gate before "+shortFn(pr[1]), call, u, "%s reached for an Accepted application without ugm CanRunApp == true; facts: %v", pr[1], p.FactStrings(st))
		}
		c.Floor("C11.a", "calls of "+pr[1], len(calls), 1)
	}
	if fn := c.MustFunc("C11.a", "objects.Queue.canRunApp"); fn != nil {
		n := 0
		for _, ex := range p.returnsOf(fn) {
			rs, ok := ex.Node.(*ast.ReturnStmt)
			if !ok || len(rs.Results) != 1 || p.isConstBool(rs.Results[0], false) {
				continue
			}
			st := ex.State
			if p.Holds(st, p.NilAtom(true, func(t Term) bool { return p.isRecvExpr(fn, t.E) })) {
				continue // nil receiver: no queue, nothing to limit
			}
			n++
			par := p.Holds(st, anyReq(
				p.NilAtom(true, func(t Term) bool { return p.recvField(fn, t.E, "objects.Queue.parent") }),
				p.CallAtom(true, func(cl *ast.CallExpr, a Atom) bool {
					return p.recvField(fn, Recv(cl), "objects.Queue.parent") && len(cl.Args) >= 1 && p.isParam(fn, cl.Args[0], 0)
				}, "objects.Queue.canRunApp")))
			c.Check("C11.a", "canRunApp: parent consent before a positive answer", rs, par, "canRunApp can answer without (parent == nil || parent.canRunApp(appID)); facts: %v", p.FactStrings(st))
			if p.isConstBool(rs.Results[0], true) {
				free := p.Holds(st, func(a Atom) bool {
					// maxRunningApps == 0  or  allocatingAcceptedApps[appID]
					if op, x, y, ok := p.cmpParts(a); ok && op == tokEQL && p.recvField(fn, x, "objects.Queue.maxRunningApps") {
						if v, isC := p.ConstInt(y); isC && v == 0 {
							return true
						}
					}
					if ix, ok := unparen(a.E).(*ast.IndexExpr); ok && a.Val && p.recvField(fn, ix.X, "objects.Queue.allocatingAcceptedApps") && p.isParam(fn, ix.Index, 0) {
						return true
					}
					return false
				})
				c.Check("C11.a", "canRunApp: unconditional yes only without a limit or for a tracked app", rs, free, "canRunApp returns true without (maxRunningApps == 0 || allocatingAcceptedApps[appID]); facts: %v", p.FactStrings(st))
				continue
			}
			b, ok := unparen(rs.Results[0]).(*ast.BinaryExpr)
			shape := false
			// `x <= max` or the flipped `max >= x`
			var lhs ast.Expr
			if ok && b.Op == tokLEQ && p.recvField(fn, b.Y, "objects.Queue.maxRunningApps") {
				lhs = b.X
			} else if ok && b.Op == tokGEQ && p.recvField(fn, b.X, "objects.Queue.maxRunningApps") {
				lhs = b.Y
			}
			if lhs != nil {
				d := p.DefOf(T(lhs, st))
				mRun, mAll, mOne, onlyAdd := false, false, false, true
				ast.Inspect(d.E, func(nn ast.Node) bool {
					switch x := nn.(type) {
					case *ast.SelectorExpr:
						if p.recvField(fn, x, "objects.Queue.runningApps") {
							mRun = true
						}
						if p.recvField(fn, x, "objects.Queue.allocatingAcceptedApps") {
							if call, ok := p.Parent(x).(*ast.CallExpr); ok && p.Src(call.Fun) == "len" {
								mAll = true
							}
						}
					case *ast.BasicLit:
						if x.Value == "1" {
							mOne = true
						}
					case *ast.BinaryExpr:
						if x.Op.String() != "+" {
							onlyAdd = false
						}
					}
					return true
				})
				shape = mRun && mAll && mOne && onlyAdd
			}
			c.Check("C11.a", "canRunApp: running + allocating + 1 <= max", rs, shape, "canRunApp's final answer is %s, expected runningApps + len(allocatingAcceptedApps) + 1 <= maxRunningApps", p.Src(rs.Results[0]))
		}
		c.Floor("C11.a", "positive answers of canRunApp", n, 2)
		held := true
		for _, fld := range []string{"runningApps", "allocatingAcceptedApps", "maxRunningApps"} {
			ast.Inspect(fn.Decl.Body, func(nn ast.Node) bool {
				if sel, ok := nn.(*ast.SelectorExpr); ok && p.recvField(fn, sel, "objects.Queue."+fld) {
					if !p.lockHeld(fn, sel, func(e ast.Expr) bool { return p.isRecvExpr(fn, e) }, false) {
						held = false
					}
				}
				return true
			})
		}
		c.Check("C11.a", "canRunApp reads the counters under the queue lock", fn.Decl, held, "canRunApp reads runningApps/allocatingAcceptedApps/maxRunningApps without the queue lock")
	}

	// ---- C11.b counters
	c.Rule("C11.b", "incRunningApps only from enter_Running (on a real entry), decRunningApps only from leave_Running (on a real exit); both and setAllocatingAccepted recurse to the direct parent; counters have confined writers")
	if fn := c.MustFunc("C11.b", "objects.callbacks"); fn != nil {
		cbs, _ := p.fsmCallbacks(fn)
		inLit := func(lit *ast.FuncLit, n ast.Node) bool {
			return lit != nil && lit.Pos() <= n.Pos() && n.End() <= lit.End()
		}
		for _, pr := range []struct{ callee, cb, fld string }{
			{"objects.Queue.incRunningApps", "enter_Running", "Src"},
			{"objects.Queue.decRunningApps", "leave_Running", "Dst"},
		} {
			sites := p.CallSitesByName(pr.callee)
			ext := 0
			for _, cs := range sites {
				if cs.Caller.Name == pr.callee {
					continue
				}
				ext++
				okSite := cs.Caller == fn && inLit(cbs[pr.cb], cs.Call)
				c.Check("C11.b", shortFn(pr.callee)+" called from "+pr.cb, cs.Call, okSite, "%s called outside the %s callback (in %s)", pr.callee, pr.cb, cs.Caller.Name)
				if okSite {
					st := p.StateAt(fn, cs.Call)
					guard := p.Holds(st, p.CmpAtom(func(op tokenT, x, y Term) bool {
						sel, ok := unparen(x.E).(*ast.SelectorExpr)
						s, isS := p.EvalString(y.E)
						return op == tokNEQ && ok && sel.Sel.Name == pr.fld && isS && s == "Running"
					}))
					c.Check("C11.b", shortFn(pr.callee)+" only on a real state change", cs.Call, guard, "%s without event.%s != Running (Running -> Running would count twice)", pr.callee, pr.fld)
					// on the application's own queue
					okQ := false
					if f := p.SelField(Recv(cs.Call)); f != nil && p.FieldName(f) == "objects.Application.queue" {
						okQ = true
					}
					c.Check("C11.b", shortFn(pr.callee)+" on the application's own queue", cs.Call, okQ, "counter changed on %s", p.Src(Recv(cs.Call)))
				}
			}
			c.Floor("C11.b", "external call sites of "+pr.callee, ext, 1)
		}
	}
	for _, nm := range []string{"objects.Queue.incRunningApps", "objects.Queue.decRunningApps", "objects.Queue.setAllocatingAccepted"} {
		fn := c.MustFunc("C11.b", nm)
		if fn == nil {
			continue
		}
		rec := false
		for _, call := range p.callsIn(fn, nm) {
			st := p.StateAt(fn, call)
			sameArgs := true
			for i, a := range call.Args {
				if !p.isParam(fn, a, i) {
					sameArgs = false
				}
			}
			if p.recvField(fn, Recv(call), "objects.Queue.parent") && sameArgs && p.Holds(st, p.NilAtom(false, func(t Term) bool { return p.recvField(fn, t.E, "objects.Queue.parent") })) {
				// unconditional at the top level
				if _, isIf := p.Parent(p.Parent(p.Parent(call))).(*ast.IfStmt); isIf {
					rec = true
				}
			}
		}
		c.Check("C11.b", shortFn(nm)+" recurses to the direct parent", fn.Decl, rec, "%s no longer recurses over sq.parent", nm)
	}
	if fn := c.MustFunc("C11.b", "objects.Queue.incRunningApps"); fn != nil {
		del := false
		for _, w := range p.FieldWrites(p.Field("objects.Queue.allocatingAcceptedApps")) {
			if p.inFn(w.Fn, fn) && w.Kind == "delete" && p.isParam(fn, w.Arg, 0) && p.Parent(p.Parent(w.Node)) == ast.Node(fn.Decl.Body) {
				del = true
			}
		}
		c.Check("C11.b", "a running app is no longer counted as allocating", fn.Decl, del, "incRunningApps no longer deletes the app from allocatingAcceptedApps (it would be counted twice)")
		inc := false
		for _, w := range p.FieldWrites(p.Field("objects.Queue.runningApps")) {
			if p.inFn(w.Fn, fn) && w.Kind == "incdec" && p.Parent(w.Node) == ast.Node(fn.Decl.Body) {
				inc = true
			}
		}
		c.Check("C11.b", "incRunningApps increments unconditionally", fn.Decl, inc, "incRunningApps no longer does runningApps++ on every call")
	}
	for _, pr := range [][2]string{{"objects.Queue.TryAllocate", "objects.Application.tryAllocate"}, {"objects.Queue.TryReservedAllocate", "objects.Application.tryReservedAllocate"}} {
		fn := c.MustFunc("C11.b", pr[0])
		if fn == nil {
			continue
		}
		calls := p.callsIn(fn, "objects.Queue.setAllocatingAccepted")
		for _, call := range calls {
			st := p.StateAtIn(fn, call)
			acc := p.Holds(st, p.CallAtom(true, nil, "objects.Application.IsAccepted"))
			res := p.Holds(st, p.ResultNilAtom(false, nil, pr[1]))
			c.Check("C11.b", "allocating-accepted recorded in "+shortFn(pr[0])+" only for an Accepted app that got a result", call, acc && res, "setAllocatingAccepted without app.IsAccepted() and a non-nil result")
		}
		c.Floor("C11.b", "setAllocatingAccepted in "+pr[0], len(calls), 1)
	}
	if fn := c.MustFunc("C11.b", "objects.Queue.RemoveApplication"); fn != nil {
		for _, fld := range []string{"applications", "appPriorities", "allocatingAcceptedApps"} {
			ok := false
			for _, w := range p.FieldWrites(p.Field("objects.Queue." + fld)) {
				if p.inFn(w.Fn, fn) && w.Kind == "delete" {
					ok = true
				}
			}
			c.Check("C11.b", "RemoveApplication forgets the app in "+fld, fn.Decl, ok, "RemoveApplication no longer deletes the application from Queue.%s", fld)
		}
	}
	writers := map[string][]string{
		"runningApps":            {"objects.Queue.incRunningApps", "objects.Queue.decRunningApps"},
		"allocatingAcceptedApps": {"objects.Queue.incRunningApps", "objects.Queue.setAllocatingAccepted", "objects.Queue.RemoveApplication", "objects.newBlankQueue"},
		"maxRunningApps":         {"objects.Queue.applyConf", "objects.Queue.applyTemplate", "objects.Queue.SetMaxRunningApps", "objects.NewConfiguredQueue"},
	}
	for fld, ws := range writers {
		c.fieldWritersConfined("C11.b", "objects.Queue."+fld, 2, func(w FieldWrite) (bool, string) {
			for _, a := range ws {
				if w.Fn.Name == a {
					return true, ""
				}
			}
			return false, "Queue." + fld + " written in " + w.Fn.Name + " (allowed: " + strings.Join(ws, ", ") + ")"
		})
	}
}

// appIDOf: t is the application id of app (app.ApplicationID, or the range key of the map the app was looked up with).
func appIDOf(p *Prog, t Term, app Term, fn *Func) bool {
	for _, c := range p.chain(t) {
		if sel, ok := unparen(c.E).(*ast.SelectorExpr); ok && sel.Sel.Name == "ApplicationID" {
			if p.Same(Term{E: sel.X, Env: c.Env, Frozen: c.Frozen, Idx: -1}, app) {
				return true
			}
		}
	}
	// app := sq.GetApplication(appID)
	d := p.DefOf(app)
	if cl, ok := unparen(d.E).(*ast.CallExpr); ok && p.IsCall(cl, "objects.Queue.GetApplication") && len(cl.Args) >= 1 {
		return p.Same(Term{E: cl.Args[0], Env: d.Env, Idx: -1}, t)
	}
	return false
}
