package main

// E6: targeted nil-flow.  Sources: results of module functions that may return nil (inferred:
// some return is the literal nil, an unchecked pointer-valued map lookup, or the result of another
// may-return-nil function), pointer-valued map lookups without comma-ok test, and pointer fields of
// SI messages.  Sinks: field selection / method call (method not nil-receiver-safe) / explicit
// dereference through a local variable that holds such a value.  A sink needs the fact `v != nil`
// from the path-condition walker.

import (
	"go/ast"
	"go/token"
	"go/types"
	"strings"
)

type nilSite struct {
	Fn     *Func
	Node   ast.Node // the dereferencing expression
	Var    *ast.Ident
	Source string
	OK     bool
	Why    string
}

type nilAnalysis struct {
	p        *Prog
	mayNil   map[*types.Func]string       // function -> why it may return nil (result 0)
	onlyIf   map[*types.Func]map[int]bool // function returns nil only when one of these parameters (-1 receiver) is nil
	nilSafe  map[*types.Func]bool         // method is nil-receiver safe
	computed bool
}

var nilAn *nilAnalysis

// nilWitness: a nullable getter's result is non-nil when the witness holds.
//
//	recvFact: a boolean method on the same receiver is known to be true
//	recvFrom: the receiver was obtained (non-nil) from the named lookup, whose results satisfy the invariant
var nilWitness = map[string]struct{ recvFact, recvFrom, why string }{
	"objects.Allocation.GetRelease": {recvFact: "objects.Allocation.HasRelease", why: "HasRelease() is GetRelease() != nil"},
	"objects.Application.GetQueue":  {recvFrom: "scheduler.PartitionContext.getApplication", why: "an application registered in the partition's active list has its queue set: SetQueue runs in AddApplication before it is registered and moveTerminatedApp takes it off the list when the queue is unset (the window between UnSetQueue and the removal from the list is a race this analysis does not decide)"},
}

// nullableGetterTable: getters whose nil result the inference cannot see (they return a struct field
// or the result of an interface call); each confirmed by reading.
var nullableGetterTable = map[string]string{
	"objects.Allocation.GetRelease":          "the release link is nil unless a placeholder swap is in flight",
	"objects.Application.GetQueue":           "nil once the application is terminated (UnSetQueue)",
	"scheduler.PartitionContext.GetNode":     "nil for an unknown node id (NodeCollection.GetNode)",
	"objects.NodeCollection.GetNode":         "interface method: nil for an unknown node id",
	"scheduler.PartitionContext.GetQueue":    "nil for an unknown queue path",
	"objects.Queue.GetQueueByAppID":          "nil when the application is not mapped to a queue",
	"objects.Application.GetAllocationAsk":   "nil for an unknown allocation key",
	"objects.Application.GetPlaceholderData": "may be nil when no placeholder was ever added",
}

func (p *Prog) Nil() *nilAnalysis {
	if nilAn != nil {
		return nilAn
	}
	na := &nilAnalysis{p: p, mayNil: map[*types.Func]string{}, nilSafe: map[*types.Func]bool{}, onlyIf: map[*types.Func]map[int]bool{}}
	nilAn = na
	na.inferNilSafe()
	// getters that hand out a field or an interface lookup that is nil in a documented state
	for name, why := range nullableGetterTable {
		if fn := p.Funcs[name]; fn != nil {
			na.mayNil[fn.Obj] = "declared nullable: " + why
		}
	}
	na.inferMayNil()
	return na
}

func isPointerish(t types.Type) bool {
	if t == nil {
		return false
	}
	switch t.Underlying().(type) {
	case *types.Pointer:
		return true
	}
	return false
}

// inferNilSafe: a pointer-receiver method whose first statement returns when the receiver is nil,
// or which never dereferences its receiver.
func (na *nilAnalysis) inferNilSafe() {
	for i := 0; i < 6; i++ {
		before := 0
		for _, v := range na.nilSafe {
			if v {
				before++
			}
		}
		na.inferNilSafeOnce()
		after := 0
		for _, v := range na.nilSafe {
			if v {
				after++
			}
		}
		if after == before && i > 0 {
			break
		}
	}
}

func (na *nilAnalysis) inferNilSafeOnce() {
	p := na.p
	for _, fn := range p.funcs {
		if fn.Decl.Body == nil || fn.Decl.Recv == nil {
			continue
		}
		r := p.recvObj(fn)
		if r == nil {
			na.nilSafe[fn.Obj] = true // unnamed receiver: never used
			continue
		}
		if !isPointerish(r.Type()) {
			continue
		}
		// every use of the receiver as x.f / x.M() is dominated by recv != nil
		safe := true
		ast.Inspect(fn.Decl.Body, func(n ast.Node) bool {
			if !safe {
				return false
			}
			sel, ok := n.(*ast.SelectorExpr)
			if !ok {
				return true
			}
			id, ok := unparen(sel.X).(*ast.Ident)
			if !ok || p.ObjOf(id) != r {
				return true
			}
			if !na.derefs(sel) {
				return true
			}
			st := p.StateAt(fn, sel)
			if st == nil || !p.Holds(st, p.NilAtom(false, func(t Term) bool {
				tid, ok := unparen(t.E).(*ast.Ident)
				return ok && p.ObjOf(tid) == r
			})) {
				safe = false
			}
			return true
		})
		na.nilSafe[fn.Obj] = safe
	}
}

// derefs: the selector dereferences its operand (field access, or a method call that is not
// nil-receiver safe).  Method values and nil-safe methods do not.
func (na *nilAnalysis) derefs(sel *ast.SelectorExpr) bool {
	p := na.p
	s := p.Info.Selections[sel]
	if s == nil {
		return false
	}
	switch s.Kind() {
	case types.FieldVal:
		return true
	case types.MethodVal:
		m, ok := s.Obj().(*types.Func)
		if !ok {
			return true
		}
		if _, isIface := s.Recv().Underlying().(*types.Interface); isIface {
			return true
		}
		m = m.Origin()
		if mf := p.FuncOf[m]; mf != nil {
			m = mf.Obj.Origin() // a wrapper stands for its implementation
		}
		if safe, known := na.nilSafe[m]; known {
			return !safe
		}
		// not yet computed / external method: module methods unknown count as dereferencing
		if mf := p.FuncOf[m]; mf != nil {
			// value receiver methods dereference the pointer
			return true
		}
		// external (protobuf getters are nil safe)
		if m.Pkg() != nil && strings.Contains(m.Pkg().Path(), "yunikorn-scheduler-interface") && strings.HasPrefix(m.Name(), "Get") {
			return false
		}
		return true
	}
	return false
}

// inferMayNil: fixpoint over module functions with a pointer first result.
func (na *nilAnalysis) inferMayNil() {
	p := na.p
	changed := true
	for iter := 0; changed && iter < 10; iter++ {
		changed = false
		for _, fn := range p.funcs {
			if fn.Decl.Body == nil || na.mayNil[fn.Obj] != "" {
				continue
			}
			sig := fn.Obj.Type().(*types.Signature)
			if sig.Results().Len() == 0 || !isPointerish(sig.Results().At(0).Type()) {
				continue
			}
			// a second error result conventionally guards the first: callers test err (not modelled: skip)
			if sig.Results().Len() == 2 && sig.Results().At(1).Type().String() == "error" {
				continue
			}
			why := ""
			cond := map[int]bool{}
			uncond := false
			for _, ex := range p.returnsOf(fn) {
				rs, ok := ex.Node.(*ast.ReturnStmt)
				if !ok || len(rs.Results) == 0 {
					continue
				}
				if w := na.exprMayNil(fn, rs.Results[0], ex.State, 0); w != "" {
					if why == "" {
						why = w + " (" + p.Pos(rs) + ")"
					}
					// is this nil return only taken when a parameter / the receiver is nil?
					k, isCond := na.nilParamFact(fn, ex.State)
					if isCond {
						cond[k] = true
					} else {
						uncond = true
					}
				}
			}
			if why != "" {
				na.mayNil[fn.Obj] = why
				if !uncond && len(cond) > 0 {
					na.onlyIf[fn.Obj] = cond
				}
				changed = true
			}
		}
	}
	na.computed = true
}

// exprMayNil: why the expression may evaluate to nil at this point ("" if it cannot / is unknown).
func (na *nilAnalysis) exprMayNil(fn *Func, e ast.Expr, st *State, depth int) string {
	p := na.p
	if depth > 4 {
		return ""
	}
	e = unparen(e)
	if p.isNilExpr(e) {
		return "returns nil"
	}
	// known non-nil by facts
	if st != nil && p.Holds(st, p.NilAtom(false, func(t Term) bool { return p.Same(t, T(e, st)) })) {
		return ""
	}
	switch x := e.(type) {
	case *ast.Ident:
		if st != nil {
			if d := st.Env.get(p.ObjOf(x)); d != nil && d.Rhs != nil && d.Kind == DefAssign && d.Idx <= 0 && !d.Param {
				return na.exprMayNil(fn, d.Rhs, &State{Env: d.Env}, depth+1)
			}
		}
	case *ast.IndexExpr:
		if _, isMap := p.TypeOf(x.X).Underlying().(*types.Map); isMap && isPointerish(p.TypeOf(x)) {
			return "unchecked map lookup " + p.Src(x)
		}
	case *ast.CallExpr:
		if callee := p.Callee(x); callee != nil {
			if w, ok := na.mayNil[callee]; ok && w != "" {
				if cond, isCond := na.onlyIf[callee]; isCond {
					// nil only if one of the named arguments is nil
					for k := range cond {
						var arg ast.Expr
						if k == -1 {
							arg = Recv(x)
						} else if k < len(x.Args) {
							arg = x.Args[k]
						}
						if arg == nil {
							continue
						}
						if w2 := na.exprMayNil(fn, arg, st, depth+1); w2 != "" {
							return "result of " + p.FuncName(callee) + " for an argument that may be nil: " + w2
						}
					}
					return ""
				}
				return "result of " + p.FuncName(callee) + " which may return nil"
			}
		}
	}
	return ""
}

// nilParamFact: the state contains the fact `<receiver or parameter> == nil`; returns its index.
func (na *nilAnalysis) nilParamFact(fn *Func, st *State) (int, bool) {
	p := na.p
	found, idx := false, 0
	p.Holds(st, p.NilAtom(true, func(t Term) bool {
		id, ok := unparen(t.E).(*ast.Ident)
		if !ok {
			return false
		}
		o := p.ObjOf(id)
		if o == nil {
			return false
		}
		if p.recvObj(fn) == o {
			found, idx = true, -1
			return true
		}
		for i := 0; ; i++ {
			po := paramObj(p, fn, i)
			if po == nil {
				if paramIdent(fn, i) == nil {
					break
				}
				continue
			}
			if po == o {
				found, idx = true, i
				return true
			}
		}
		return false
	}))
	return idx, found
}

// rejectsNil: every exit of fn taken with parameter k == nil returns the constant false as first
// result (so "fn(x) returned true" implies x != nil).
func (na *nilAnalysis) rejectsNil(fn *Func, k int, res int) bool {
	if res < 0 {
		res = 0
	}
	p := na.p
	po := paramObj(p, fn, k)
	if po == nil || fn.Decl.Body == nil {
		return false
	}
	n := 0
	for _, ex := range p.returnsOf(fn) {
		rs, ok := ex.Node.(*ast.ReturnStmt)
		if !ok || len(rs.Results) <= res {
			return false
		}
		n++
		if p.isConstBool(rs.Results[res], false) {
			continue
		}
		nonNil := p.Holds(ex.State, p.NilAtom(false, func(t Term) bool {
			id, ok := unparen(t.E).(*ast.Ident)
			return ok && p.ObjOf(id) == po
		}))
		if !nonNil {
			return false
		}
	}
	return n > 0
}

// Sites lists, for the given functions, every dereference of a local variable whose reaching
// definition may be nil, with the verdict of the path facts.
func (na *nilAnalysis) Sites(inScope func(fn *Func) bool) []nilSite {
	p := na.p
	var out []nilSite
	for _, fn := range p.funcs {
		if fn.Decl.Body == nil || !inScope(fn) {
			continue
		}
		r := p.Walk(fn)
		ast.Inspect(fn.Decl.Body, func(n ast.Node) bool {
			var id *ast.Ident
			var at ast.Node
			switch x := n.(type) {
			case *ast.SelectorExpr:
				i, ok := unparen(x.X).(*ast.Ident)
				if !ok || !na.derefs(x) {
					return true
				}
				id, at = i, x
			case *ast.StarExpr:
				i, ok := unparen(x.X).(*ast.Ident)
				if !ok {
					return true
				}
				id, at = i, x
			default:
				return true
			}
			v, ok := p.ObjOf(id).(*types.Var)
			if !ok || v.IsField() || !isPointerish(v.Type()) {
				return true
			}
			if v.Parent() == nil || v.Pkg() == nil || v.Parent() == v.Pkg().Scope() {
				return true
			}
			st := r.at[at]
			if st == nil || st.Dead {
				return true
			}
			d := st.Env.get(v)
			if d == nil || d.Rhs == nil || d.Param {
				return true // parameter, range variable or merged definition: not a tracked source
			}
			if d.Kind != DefAssign || d.Idx > 0 {
				return true
			}
			src := na.exprMayNil(fn, d.Rhs, &State{Env: d.Env}, 0)
			if src == "" {
				return true
			}
			ok = p.Holds(st, p.NilAtom(false, func(t Term) bool {
				tid, isID := unparen(t.E).(*ast.Ident)
				return isID && p.ObjOf(tid) == types.Object(v)
			}))
			// `if v == nil || ... { return }` style disjunction handled by Holds; also accept a comma-ok fact
			if !ok && d.Idx == 0 {
				// v, ok := m[k]; if !ok {return}  => v came from a present entry (entries are never stored nil)
				ok = p.Holds(st, func(a Atom) bool {
					aid, isID := unparen(a.E).(*ast.Ident)
					if !isID || !a.Val {
						return false
					}
					od := st.Env.get(p.ObjOf(aid))
					return od != nil && od.Kind == DefCommaOk && od.Rhs == d.Rhs
				})
			}
			if !ok {
				// table witnesses for nullable getters
				if gc, isCall := unparen(d.Rhs).(*ast.CallExpr); isCall && Recv(gc) != nil {
					if w, has := nilWitness[p.CalleeName(gc)]; has {
						recvT := Term{E: Recv(gc), Env: d.Env, Idx: -1}
						if w.recvFact != "" && p.Holds(st, p.CallAtom(true, func(cl *ast.CallExpr, a Atom) bool {
							return Recv(cl) != nil && p.Same(a.term(Recv(cl)), recvT)
						}, w.recvFact)) {
							ok = true
						}
						if w.recvFrom != "" {
							for _, t := range p.chain(recvT) {
								if rc, isC := unparen(t.E).(*ast.CallExpr); isC && p.IsCall(rc, w.recvFrom) {
									ok = true
								}
							}
						}
					}
				}
			}
			if !ok {
				// G(v, ...) returned true where G answers false whenever that argument is nil
				ok = p.Holds(st, func(a Atom) bool {
					if !a.Val {
						return false
					}
					for _, t := range p.chain(a.term(a.E)) {
						call, isCall := unparen(t.E).(*ast.CallExpr)
						if !isCall {
							continue
						}
						callee := p.Callee(call)
						if callee == nil || p.FuncOf[callee] == nil {
							continue
						}
						for k, arg := range call.Args {
							aid, isID := unparen(arg).(*ast.Ident)
							if isID && p.ObjOf(aid) == types.Object(v) && na.rejectsNil(p.FuncOf[callee], k, t.Idx) {
								return true
							}
						}
					}
					return false
				})
			}
			out = append(out, nilSite{Fn: fn, Node: at, Var: id, Source: src, OK: ok})
			return true
		})
	}
	return out
}

var _ = token.NoPos

// BeliefSites: Engler's contradiction rule.  A pointer variable is dereferenced at a point where
// the path facts say it IS nil, or MAY be nil because a disjunction that contains `v == nil` is
// known to hold and nothing says v != nil.
func (na *nilAnalysis) BeliefSites(inScope func(fn *Func) bool) []nilSite {
	p := na.p
	var out []nilSite
	for _, fn := range p.funcs {
		if fn.Decl.Body == nil || !inScope(fn) {
			continue
		}
		r := p.Walk(fn)
		ast.Inspect(fn.Decl.Body, func(n ast.Node) bool {
			sel, ok := n.(*ast.SelectorExpr)
			if !ok {
				return true
			}
			id, ok := unparen(sel.X).(*ast.Ident)
			if !ok || !na.derefs(sel) {
				return true
			}
			v, ok := p.ObjOf(id).(*types.Var)
			if !ok || v.IsField() || !isPointerish(v.Type()) {
				return true
			}
			st := r.at[sel]
			if st == nil || st.Dead {
				return true
			}
			isV := func(t Term) bool {
				tid, isID := unparen(t.E).(*ast.Ident)
				return isID && p.ObjOf(tid) == types.Object(v)
			}
			if p.Holds(st, p.NilAtom(false, isV)) {
				return true
			}
			why := ""
			if p.Holds(st, p.NilAtom(true, isV)) {
				why = "is known to be nil here"
			} else {
				for _, a := range p.AllAtoms(st) {
					for _, alt := range p.disjuncts(a) {
						for _, aa := range alt {
							if p.NilAtom(true, isV)(aa) {
								why = "may be nil here: the condition (" + p.Src(a.E) + ") holds and one of its alternatives is " + id.Name + " == nil"
							}
						}
					}
				}
			}
			if why != "" {
				out = append(out, nilSite{Fn: fn, Node: sel, Var: id, Source: why, OK: false})
			}
			return true
		})
	}
	return out
}

// MapDerefSites: x := m[k].f / m[k].M() on a map with pointer elements dereferences the lookup
// result directly; it needs a presence fact (`_, ok := m[k]` with ok, or m[k] != nil) for the same
// map and key.
func (na *nilAnalysis) MapDerefSites(inScope func(fn *Func) bool) []nilSite {
	p := na.p
	var out []nilSite
	for _, fn := range p.funcs {
		if fn.Decl.Body == nil || !inScope(fn) {
			continue
		}
		r := p.Walk(fn)
		ast.Inspect(fn.Decl.Body, func(n ast.Node) bool {
			sel, ok := n.(*ast.SelectorExpr)
			if !ok || !na.derefs(sel) {
				return true
			}
			ix, ok := unparen(sel.X).(*ast.IndexExpr)
			if !ok {
				return true
			}
			if _, isMap := p.TypeOf(ix.X).Underlying().(*types.Map); !isMap || !isPointerish(p.TypeOf(ix)) {
				return true
			}
			st := r.at[sel]
			if st == nil || st.Dead {
				return true
			}
			present := p.Holds(st, p.NilAtom(false, func(t Term) bool { return p.Same(t, T(ix, st)) }))
			if !present {
				// v, ok := m[k] ... ok   (same map and key)
				present = p.Holds(st, func(a Atom) bool {
					aid, isID := unparen(a.E).(*ast.Ident)
					if !isID || !a.Val {
						return false
					}
					od := a.Env.get(p.ObjOf(aid))
					if od == nil || od.Kind != DefCommaOk {
						return false
					}
					oix, isIx := unparen(od.Rhs).(*ast.IndexExpr)
					return isIx && p.Same(Term{E: oix, Env: od.Env, Idx: -1}, T(ix, st))
				})
			}
			if !present {
				// ranging over the keys of the same map
				if kid, isID := unparen(ix.Index).(*ast.Ident); isID {
					if src, kind, isRange := p.RangeSource(T(kid, st)); isRange && kind == DefRangeKey && p.Same(src, T(ix.X, st)) {
						present = true
					}
				}
			}
			if !present {
				// ensure idiom: an earlier `if m[k] == nil / !ok { m[k] = <new object> }` in an enclosing block
				ens := p.PrecededBy(fn, sel, func(b ast.Node) bool {
					ifs, isIf := b.(*ast.IfStmt)
					if !isIf || len(ifs.Body.List) == 0 {
						return false
					}
					as, isAs := ifs.Body.List[len(ifs.Body.List)-1].(*ast.AssignStmt)
					if !isAs || len(as.Lhs) != 1 || len(as.Rhs) != 1 || p.Src(as.Lhs[0]) != p.Src(ix) {
						return false
					}
					if p.neverNil(as.Rhs[0]) {
						return true
					}
					if call, isCall := unparen(as.Rhs[0]).(*ast.CallExpr); isCall {
						if c := p.Callee(call); c != nil && strings.HasPrefix(strings.ToLower(c.Name()), "new") {
							return true
						}
					}
					return false
				})
				present = ens != nil
			}
			out = append(out, nilSite{Fn: fn, Node: sel, Source: "direct use of the map lookup " + p.Src(ix), OK: present})
			return true
		})
	}
	return out
}
