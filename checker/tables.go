package main

// E4: constant evaluation of tables found in the source (FSM event tables, stringer arrays,
// callback maps).

import (
	"fmt"
	"go/ast"
	"go/constant"
	"go/types"
	"sort"
	"strings"
)

// EvalString evaluates e to a constant string: constants, X.String() on a constant X of a type
// with the `[...]string{...}[x]` stringer idiom, fmt.Sprintf("…%s…", <evaluable>), s + t.
func (p *Prog) EvalString(e ast.Expr) (string, bool) {
	e = unparen(e)
	if s, ok := p.ConstString(e); ok {
		return s, true
	}
	switch x := e.(type) {
	case *ast.CallExpr:
		if sel, ok := unparen(x.Fun).(*ast.SelectorExpr); ok && sel.Sel.Name == "String" && len(x.Args) == 0 {
			if tv, ok := p.Info.Types[sel.X]; ok && tv.Value != nil && tv.Value.Kind() == constant.Int {
				idx, _ := constant.Int64Val(tv.Value)
				if callee := p.Callee(x); callee != nil {
					if fn := p.FuncOf[callee]; fn != nil {
						if names := p.stringerArray(fn); names != nil && idx >= 0 && int(idx) < len(names) {
							return names[idx], true
						}
					}
				}
			}
		}
		if p.IsCall(x, "fmt.Sprintf") && len(x.Args) >= 1 {
			format, ok := p.ConstString(x.Args[0])
			if !ok {
				return "", false
			}
			var args []interface{}
			for _, a := range x.Args[1:] {
				s, ok := p.EvalString(a)
				if !ok {
					return "", false
				}
				args = append(args, s)
			}
			if strings.Count(format, "%s") != len(args) || strings.Count(format, "%") != len(args) {
				return "", false
			}
			return fmt.Sprintf(format, args...), true
		}
	case *ast.BinaryExpr:
		if x.Op.String() == "+" {
			a, ok1 := p.EvalString(x.X)
			b, ok2 := p.EvalString(x.Y)
			if ok1 && ok2 {
				return a + b, true
			}
		}
	}
	return "", false
}

// stringerArray returns the names of the `return [...]string{…}[recv]` idiom of a String method.
func (p *Prog) stringerArray(fn *Func) []string {
	if fn.Decl.Body == nil || len(fn.Decl.Body.List) != 1 {
		return nil
	}
	rs, ok := fn.Decl.Body.List[0].(*ast.ReturnStmt)
	if !ok || len(rs.Results) != 1 {
		return nil
	}
	ix, ok := unparen(rs.Results[0]).(*ast.IndexExpr)
	if !ok {
		return nil
	}
	cl, ok := unparen(ix.X).(*ast.CompositeLit)
	if !ok {
		return nil
	}
	var out []string
	for _, el := range cl.Elts {
		s, ok := p.ConstString(el)
		if !ok {
			return nil
		}
		out = append(out, s)
	}
	return out
}

type fsmTransition struct{ Event, Src, Dst string }

// fsmEvents extracts the transition relation from a `fsm.Events{ {Name:…, Src:[]string{…}, Dst:…}, … }`
// literal inside fn.
func (p *Prog) fsmEvents(fn *Func) ([]fsmTransition, []string) {
	var out []fsmTransition
	var problems []string
	found := false
	ast.Inspect(fn.Decl.Body, func(n ast.Node) bool {
		cl, ok := n.(*ast.CompositeLit)
		if !ok {
			return true
		}
		t := p.TypeOf(cl)
		if t == nil || !strings.HasSuffix(types.TypeString(t, nil), "looplab/fsm.Events") {
			return true
		}
		found = true
		for _, el := range cl.Elts {
			ecl, ok := el.(*ast.CompositeLit)
			if !ok {
				problems = append(problems, "event entry is not a literal at "+p.Pos(el))
				continue
			}
			var name, dst string
			var srcs []string
			okAll := true
			for _, kv := range ecl.Elts {
				kve, ok := kv.(*ast.KeyValueExpr)
				if !ok {
					okAll = false
					continue
				}
				key := kve.Key.(*ast.Ident).Name
				switch key {
				case "Name":
					name, ok = p.EvalString(kve.Value)
					okAll = okAll && ok
				case "Dst":
					dst, ok = p.EvalString(kve.Value)
					okAll = okAll && ok
				case "Src":
					scl, isCl := unparen(kve.Value).(*ast.CompositeLit)
					if !isCl {
						okAll = false
						continue
					}
					for _, se := range scl.Elts {
						s, ok := p.EvalString(se)
						okAll = okAll && ok
						srcs = append(srcs, s)
					}
				}
			}
			if !okAll {
				problems = append(problems, "event entry not constant-evaluable at "+p.Pos(ecl))
				continue
			}
			for _, s := range srcs {
				out = append(out, fsmTransition{name, s, dst})
			}
		}
		return false
	})
	if !found {
		problems = append(problems, "no fsm.Events literal in "+fn.Name)
	}
	sort.Slice(out, func(i, j int) bool {
		if out[i].Event != out[j].Event {
			return out[i].Event < out[j].Event
		}
		if out[i].Src != out[j].Src {
			return out[i].Src < out[j].Src
		}
		return out[i].Dst < out[j].Dst
	})
	return out, problems
}

// fsmCallbacks extracts key -> function literal of a `fsm.Callbacks{…}` literal inside fn.
func (p *Prog) fsmCallbacks(fn *Func) (map[string]*ast.FuncLit, []string) {
	out := map[string]*ast.FuncLit{}
	var problems []string
	ast.Inspect(fn.Decl.Body, func(n ast.Node) bool {
		cl, ok := n.(*ast.CompositeLit)
		if !ok {
			return true
		}
		t := p.TypeOf(cl)
		if t == nil || !strings.HasSuffix(types.TypeString(t, nil), "looplab/fsm.Callbacks") {
			return true
		}
		for _, el := range cl.Elts {
			kv, ok := el.(*ast.KeyValueExpr)
			if !ok {
				continue
			}
			k, ok := p.EvalString(kv.Key)
			if !ok {
				problems = append(problems, "callback key not constant at "+p.Pos(kv.Key))
				continue
			}
			lit, ok := unparen(kv.Value).(*ast.FuncLit)
			if !ok {
				problems = append(problems, "callback "+k+" is not a function literal")
				continue
			}
			if _, dup := out[k]; dup {
				problems = append(problems, "duplicate callback key "+k)
			}
			out[k] = lit
		}
		return false
	})
	return out, problems
}

func (c *Ctx) compareTransitions(rule string, at ast.Node, got []fsmTransition, want []fsmTransition) {
	key := func(t fsmTransition) string { return t.Event + ": " + t.Src + " -> " + t.Dst }
	g, w := map[string]bool{}, map[string]bool{}
	for _, t := range got {
		if g[key(t)] {
			c.Check(rule, "duplicate transition "+key(t), at, false, "transition listed twice")
		}
		g[key(t)] = true
	}
	for _, t := range want {
		w[key(t)] = true
	}
	// the FSM library resolves (event, src) to a single destination: two destinations are ambiguous
	es := map[string]string{}
	for _, t := range got {
		k := t.Event + "@" + t.Src
		if d, ok := es[k]; ok && d != t.Dst {
			c.Check(rule, "ambiguous transition "+k, at, false, "event %s from %s has two destinations (%s, %s)", t.Event, t.Src, d, t.Dst)
		}
		es[k] = t.Dst
	}
	for k := range w {
		c.Check(rule, "transition present: "+k, at, g[k], "documented transition %s is missing from the table", k)
	}
	for k := range g {
		if !w[k] {
			c.Check(rule, "undocumented transition: "+k, at, false, "the table contains the transition %s which the documented life cycle does not allow", k)
		}
	}
}
