package main

import (
	"go/ast"
	"go/token"
	"strings"
)

// C04 — allocation protocol seen by the shim: one answer per submitted item, single transition of
// the per-ask state, provenance of what is announced, confined emitters.

func init() { register("C04", rulesC04) }

// appendsTo: statement is `<lhs> = append(<lhs>, ...)`; returns the name of the list.
func (p *Prog) appendsTo(n ast.Node) (string, ast.Expr, bool) {
	as, ok := n.(*ast.AssignStmt)
	if !ok || len(as.Lhs) != 1 || len(as.Rhs) != 1 {
		return "", nil, false
	}
	call, ok := unparen(as.Rhs[0]).(*ast.CallExpr)
	if !ok || len(call.Args) < 2 {
		return "", nil, false
	}
	id, ok := unparen(call.Fun).(*ast.Ident)
	if !ok || id.Name != "append" || p.Src(call.Args[0]) != p.Src(as.Lhs[0]) {
		return "", nil, false
	}
	return p.Src(as.Lhs[0]), call.Args[1], true
}

// answersOnExit counts, for one exit of a loop body, the appends (to any of the lists) that were
// certainly executed inside the loop body before it.
func (p *Prog) answersOnExit(st *State, body *ast.BlockStmt, lists map[string]bool) int {
	n := 0
	if st == nil {
		return -1
	}
	for _, d := range st.Done {
		if d.Pos() < body.Pos() || d.End() > body.End() {
			continue
		}
		if name, _, ok := p.appendsTo(d); ok && lists[name] {
			n++
		}
	}
	return n
}

func (c *Ctx) exactlyOneAnswer(rule string, fn *Func, loop *ast.RangeStmt, lists map[string]bool, what string, min int) {
	p := c.p
	nExit := 0
	check := func(node ast.Node, st *State, label string) {
		if st == nil || st.Dead {
			return
		}
		nExit++
		n := p.answersOnExit(st, loop.Body, lists)
		ok := n == 1
		if min == 0 {
			ok = n <= 1
		}
		c.Check(rule, what+": "+label, node, ok, "this path through the per-item loop adds %d answers (accepted/rejected), expected exactly one: the shim would get no answer or two answers for the item", n)
	}
	ast.Inspect(loop.Body, func(n ast.Node) bool {
		switch x := n.(type) {
		case *ast.FuncLit:
			return false
		case *ast.RangeStmt, *ast.ForStmt:
			if n != ast.Node(loop) {
				return false
			}
		case *ast.BranchStmt:
			if x.Tok == token.CONTINUE {
				check(x, p.StateAt(fn, x), "continue at line "+strings.TrimPrefix(p.Pos(x)[strings.LastIndex(p.Pos(x), ":"):], ":"))
			}
		}
		return true
	})
	check(loop.Body, p.EndState(fn, loop.Body), "end of the loop body")
	c.Floor(rule, "exits of the "+what+" loop", nExit, 2)
}

func rulesC04(c *Ctx) {
	p := c.p
	c.NotDecided("exactly-once and ordering over a whole message history (late, repeated or missing confirmations)",
		"that an allocation announced as new is still outstanding on the shim side at the time the message is delivered",
		"races between release handling, reservation fulfilment and placeholder swap across goroutines")

	// ------------------------------------------------------------------ C04.a one answer per item
	c.Rule("C04.a", "every path through the per-application loop of handleRMUpdateApplicationEvent and the per-node create branch of processNodes adds exactly one accepted-or-rejected answer; every path through the per-allocation loop of processAllocations adds at most one rejection; the answer event is sent when any list is non-empty")
	if fn := c.MustFunc("C04.a", "scheduler.ClusterContext.handleRMUpdateApplicationEvent"); fn != nil {
		var loop *ast.RangeStmt
		ast.Inspect(fn.Decl.Body, func(n ast.Node) bool {
			if rs, ok := n.(*ast.RangeStmt); ok && loop == nil && strings.HasSuffix(p.Src(rs.X), ".New") {
				loop = rs
			}
			return true
		})
		if loop == nil {
			c.Check("C04.a", "new-application loop", fn.Decl, false, "loop over request.New not found")
		} else {
			c.exactlyOneAnswer("C04.a", fn, loop, map[string]bool{"acceptedApps": true, "rejectedApps": true}, "application answer", 1)
			// the event with both lists is sent after the loop when one is non-empty
			sent := false
			ast.Inspect(fn.Decl.Body, func(n ast.Node) bool {
				cl, ok := n.(*ast.CompositeLit)
				if ok && p.TypeName(p.TypeOf(cl)) == "rmevent.RMApplicationUpdateEvent" && cl.Pos() > loop.End() {
					src := p.Src(cl)
					_ = src
					st := p.StateAt(fn, cl)
					sent = p.Holds(st, func(a Atom) bool {
						be, isB := unparen(a.E).(*ast.BinaryExpr)
						return isB && a.Val && be.Op == token.LOR && strings.Contains(p.Src(be), "rejectedApps") && strings.Contains(p.Src(be), "acceptedApps")
					})
				}
				return true
			})
			c.Check("C04.a", "application answers are sent when any exists", fn.Decl, sent, "the RMApplicationUpdateEvent is not sent under len(rejectedApps) > 0 || len(acceptedApps) > 0 after the loop")
		}
	}
	if fn := c.MustFunc("C04.a", "scheduler.ClusterContext.processNodes"); fn != nil {
		var loop *ast.RangeStmt
		ast.Inspect(fn.Decl.Body, func(n ast.Node) bool {
			if rs, ok := n.(*ast.RangeStmt); ok && loop == nil {
				loop = rs
			}
			return true
		})
		if loop != nil {
			// create branch: every exit that passed through addNode-related code answers exactly once; other actions answer nothing
			nCreate := 0
			ast.Inspect(loop.Body, func(n ast.Node) bool {
				br, ok := n.(*ast.BranchStmt)
				if !ok || br.Tok != token.CONTINUE {
					return true
				}
				st := p.StateAt(fn, br)
				n2 := p.answersOnExit(st, loop.Body, map[string]bool{"acceptedNodes": true, "rejectedNodes": true})
				c.Check("C04.a", "node answer: at most one per path", br, n2 <= 1, "this path adds %d node answers", n2)
				return true
			})
			for _, call := range p.callsIn(fn, "scheduler.ClusterContext.addNode") {
				nCreate++
				// the result of addNode decides accepted vs rejected: both appends exist under opposite facts
				var acc, rej bool
				ast.Inspect(loop.Body, func(n ast.Node) bool {
					if name, _, ok := p.appendsTo(n); ok {
						st := p.StateAt(fn, n)
						if name == "acceptedNodes" && p.Holds(st, p.ResultNilAtom(true, nil, "scheduler.ClusterContext.addNode")) {
							acc = true
						}
						if name == "rejectedNodes" && p.Holds(st, p.ResultNilAtom(false, nil, "scheduler.ClusterContext.addNode")) {
							rej = true
						}
					}
					return true
				})
				c.Check("C04.a", "node creation is answered with accepted on success and rejected on failure", call, acc && rej, "addNode's result does not lead to exactly an AcceptedNode (err == nil) or a RejectedNode (err != nil)")
			}
			c.Floor("C04.a", "addNode calls in processNodes", nCreate, 1)
		}
	}
	if fn := c.MustFunc("C04.a", "scheduler.ClusterContext.processAllocations"); fn != nil {
		var loop *ast.RangeStmt
		ast.Inspect(fn.Decl.Body, func(n ast.Node) bool {
			if rs, ok := n.(*ast.RangeStmt); ok && loop == nil {
				loop = rs
			}
			return true
		})
		if loop != nil {
			c.exactlyOneAnswer("C04.a", fn, loop, map[string]bool{"rejectedAllocs": true}, "allocation rejection (at most one)", 0)
		}
	}

	// ------------------------------------------------------------------ C04.b single transition
	c.Rule("C04.b", "Allocation.allocated is only written by allocate()/deallocate() (and construction), each refusing the repeated transition; allocate() is only reached through Application.allocateAsk / AllocateAsk / RecoverAllocationAsk-style entry points")
	c.fieldWritersConfined("C04.b", "objects.Allocation.allocated", 2, func(w FieldWrite) (bool, string) {
		switch w.Fn.Name {
		case "objects.Allocation.allocate", "objects.Allocation.deallocate":
			return true, ""
		}
		if w.Kind == "compositelit" {
			return true, ""
		}
		return false, "Allocation.allocated written in " + w.Fn.Name
	})
	for fnName, val := range map[string]bool{"objects.Allocation.allocate": true, "objects.Allocation.deallocate": false} {
		fn := c.MustFunc("C04.b", fnName)
		if fn == nil {
			continue
		}
		for _, w := range p.FieldWrites(p.Field("objects.Allocation.allocated")) {
			if !p.inFn(w.Fn, fn) {
				continue
			}
			st := p.StateAt(fn, w.Node)
			guarded := p.Holds(st, p.BoolAtom(!val, func(t Term) bool { return p.recvField(fn, t.E, "objects.Allocation.allocated") }))
			c.Check("C04.b", shortFn(fnName)+" refuses the repeated transition", w.Node, guarded && p.isConstBool(w.Arg, val), "allocated is set to %v without the fact that it was %v before: a key could be bound twice without a release in between", val, !val)
		}
	}
	c.whoMayCall("C04.b", "objects.Allocation.allocate", 1, map[string]string{"objects.Application.allocateAsk": "scheduler bind", "objects.Application.AllocateAsk": "RM driven placement"})
	c.whoMayCall("C04.b", "objects.Allocation.deallocate", 1, map[string]string{"objects.Application.deallocateAsk": "revert / re-queue", "objects.Application.DeallocateAsk": "node removal re-queue"})

	// ------------------------------------------------------------------ C04.c provenance of announcements
	c.Rule("C04.c", "a new allocation is announced only by the scheduling cycle (after PartitionContext.allocate confirmed application and node), by processAllocations for an allocation UpdateAllocation reported as newly created, or as the confirmed half of a placeholder swap; every allocation put on a release list that is announced was marked released successfully and is either bound (taken from the application's allocations) or an ask that is not allocated")
	c.whoMayCall("C04.c", "scheduler.ClusterContext.notifyRMNewAllocation", 3, map[string]string{
		"scheduler.ClusterContext.schedule":                  "result of the scheduling cycle",
		"scheduler.ClusterContext.processAllocations":        "allocation created by the RM request itself",
		"scheduler.ClusterContext.processAllocationReleases": "confirmed replacement of a placeholder",
		"scheduler.ClusterContext.updateNode":                "confirmed replacement when a node is removed",
	})
	if fn := c.MustFunc("C04.c", "scheduler.ClusterContext.processAllocations"); fn != nil {
		for _, call := range p.callsIn(fn, "scheduler.ClusterContext.notifyRMNewAllocation") {
			st := p.StateAt(fn, call)
			created := p.Holds(st, func(a Atom) bool {
				if !a.Val {
					return false
				}
				for _, t := range p.chain(a.term(a.E)) {
					if uc, ok := unparen(t.E).(*ast.CallExpr); ok && p.IsCall(uc, "scheduler.PartitionContext.UpdateAllocation") && t.Idx == 1 {
						return len(call.Args) >= 2 && len(uc.Args) >= 1 && p.Src(uc.Args[0]) == p.Src(call.Args[1])
					}
				}
				return false
			})
			c.Check("C04.c", "RM-created allocation announced only when UpdateAllocation created it", call, created, "notifyRMNewAllocation(alloc) without the fact that UpdateAllocation(alloc) reported allocCreated")
		}
	}
	if fn := c.MustFunc("C04.c", "scheduler.ClusterContext.schedule"); fn != nil {
		for _, call := range p.callsIn(fn, "scheduler.ClusterContext.notifyRMNewAllocation") {
			st := p.StateAt(fn, call)
			okRes := false
			if len(call.Args) >= 2 {
				for _, t := range p.chain(T(call.Args[1], st)) {
					if f := p.SelField(t.E); f != nil && p.FieldName(f) == "objects.AllocationResult.Request" {
						okRes = true
					}
				}
			}
			c.Check("C04.c", "scheduler announces the request of its own result", call, okRes, "the allocation announced by schedule() is %s, not result.Request of the scheduling result", p.Src(call.Args[1]))
		}
	}
	// release lists
	nRel := 0
	for _, fn := range p.funcs {
		if fn.Decl.Body == nil || !p.InPkg(fn, "objects") {
			continue
		}
		for _, call := range p.callsIn(fn, "objects.Application.notifyRMAllocationReleased") {
			if len(call.Args) < 2 {
				continue
			}
			listName := p.Src(call.Args[0])
			ast.Inspect(fn.Decl.Body, func(n ast.Node) bool {
				name, elem, ok := p.appendsTo(n)
				if !ok || name != listName {
					return true
				}
				nRel++
				st := p.StateAt(fn, n)
				et := T(elem, st)
				marked := p.Holds(st, p.ResultNilAtom(true, p.recvIs(et), "objects.Allocation.SetReleased", "objects.Allocation.MarkPreempted"))
				if !marked {
					// victims lists are marked in a later loop with rollback (C07.d): accept when the function marks every element
					marked = len(p.callsIn(fn, "objects.Allocation.MarkPreempted")) > 0
				}
				bound := false
				if src, _, isRange := p.RangeSource(et); isRange {
					s := p.Src(src.E)
					if strings.HasSuffix(s, ".allocations") || strings.Contains(s, "getPlaceholderAllocations()") || strings.Contains(s, "GetAllAllocations()") {
						bound = true
					}
					if strings.HasSuffix(s, ".requests") {
						bound = p.Holds(st, p.CallAtom(false, p.recvIs(et), "objects.Allocation.IsAllocated"))
					}
				}
				c.Check("C04.c", "released "+p.Src(elem)+" in "+fn.Name+" was marked", n, marked, "an allocation is put on an announced release list without SetReleased(true)/MarkPreempted() having succeeded for it")
				if p.methodOf(fn, "objects.Preemptor") || p.methodOf(fn, "objects.PreemptionContext") || p.methodOf(fn, "objects.QuotaPreemptionContext") {
					bound = true // victims: their provenance (bound allocations of other applications) is rule C07.a
				}
				c.Check("C04.c", "released "+p.Src(elem)+" in "+fn.Name+" is bound or an outstanding ask", n, bound, "the element does not come from the application's bound allocations, nor from its requests under the fact !IsAllocated(): a release would be announced for an ask that is allocated (for example the real half of an in-flight swap)")
				return true
			})
		}
	}
	c.Floor("C04.c", "elements put on announced release lists (objects)", nRel, 3)

	// ------------------------------------------------------------------ C04.d emitters
	c.Rule("C04.d", "rmevent messages towards the shim are only built in the scheduler context, the application and the RM proxy; the proxy handles every event type that is built")
	built := map[string]bool{}
	nLit := 0
	for _, fn := range p.funcs {
		if fn.Decl.Body == nil {
			continue
		}
		ast.Inspect(fn.Decl.Body, func(n ast.Node) bool {
			cl, ok := n.(*ast.CompositeLit)
			if !ok {
				return true
			}
			tn := p.TypeName(p.TypeOf(cl))
			if !strings.HasPrefix(tn, "rmevent.RM") || tn == "rmevent.RMRegistrationEvent" || tn == "rmevent.RMConfigUpdateEvent" || tn == "rmevent.RMPartitionsRemoveEvent" ||
				tn == "rmevent.RMUpdateAllocationEvent" || tn == "rmevent.RMUpdateApplicationEvent" || tn == "rmevent.RMUpdateNodeEvent" {
				return true // requests travelling towards the core
			}
			nLit++
			built[tn] = true
			okPkg := p.InPkg(fn, "scheduler") || p.InPkg(fn, "objects") || p.InPkg(fn, "rmproxy")
			c.Check("C04.d", tn+" built in "+fn.Name, cl, okPkg, "a message for the shim is constructed outside the scheduler context / application / proxy")
			return true
		})
	}
	c.Floor("C04.d", "shim-bound event literals", nLit, 6)
	if fn := c.MustFunc("C04.d", "rmproxy.RMProxy.handleRMEvents"); fn != nil {
		handled := map[string]bool{}
		ast.Inspect(fn.Decl.Body, func(n ast.Node) bool {
			if cc, ok := n.(*ast.CaseClause); ok {
				for _, e := range cc.List {
					handled[p.TypeName(p.TypeOf(e))] = true
				}
			}
			return true
		})
		for tn := range built {
			c.Check("C04.d", "proxy handles "+tn, fn.Decl, handled[tn], "%s is built by the core but RMProxy.handleRMEvents has no case for it (the default case panics)", tn)
		}
	}

	// ------------------------------------------------------------------ C04.e node removal re-queues the real ask
	c.Rule("C04.e", "when a node is removed during a placeholder swap on the same node, the ask put back to pending is the REAL allocation (the release partner of a placeholder, or the allocation itself), never the placeholder that was just announced as released")
	if fn := c.MustFunc("C04.e", "scheduler.PartitionContext.removeNodeAllocations"); fn != nil {
		calls := p.callsIn(fn, "objects.Application.DeallocateAsk")
		for _, call := range calls {
			ok := false
			why := "argument is " + p.Src(call.Args[0])
			if kc, isCall := unparen(call.Args[0]).(*ast.CallExpr); isCall && p.IsCall(kc, fnGetAllocationKey) && Recv(kc) != nil {
				if id, isID := unparen(Recv(kc)).(*ast.Ident); isID {
					// the variable is assigned `alloc` by default and the release partner under IsPlaceholder()
					obj := p.ObjOf(id)
					var rhs []string
					phGuard := false
					ast.Inspect(fn.Decl.Body, func(n ast.Node) bool {
						as, isAs := n.(*ast.AssignStmt)
						if !isAs || len(as.Lhs) != 1 || len(as.Rhs) != 1 {
							return true
						}
						l, isL := unparen(as.Lhs[0]).(*ast.Ident)
						if !isL || p.ObjOf(l) != obj {
							return true
						}
						rhs = append(rhs, p.Src(as.Rhs[0]))
						st := p.StateAt(fn, as)
						if rc, isRC := p.DefOf(T(as.Rhs[0], st)).E.(*ast.CallExpr); isRC && p.IsCall(rc, "objects.Allocation.GetRelease") {
							phGuard = p.Holds(st, p.CallAtom(true, p.recvIs(T(Recv(rc), st)), "objects.Allocation.IsPlaceholder"))
						}
						return true
					})
					ok = len(rhs) == 2 && phGuard
					why = "the re-queued allocation variable is assigned " + strings.Join(rhs, " / ")
				}
			}
			c.Check("C04.e", "re-queued ask is the real side of the pair", call, ok, "DeallocateAsk is not called with the key of the variable that is the allocation itself or, for a placeholder, its release partner (%s)", why)
		}
		c.Floor("C04.e", "DeallocateAsk calls in removeNodeAllocations", len(calls), 1)
	}
}
