package main

import (
	"go/ast"
	"strings"
)

// C01 — the scheduler never over-commits a node.

var nodeLedgerFields = []string{"totalResource", "occupiedResource", "allocatedResource", "availableResource", "allocations", "reservations", "schedulable"}

var schedulingRoots = []string{
	"scheduler.ClusterContext.schedule",
	"objects.Queue.TryQuotaPreemption",
	"objects.Application.timeoutPlaceholderProcessing",
	"objects.Application.timeoutStateTimer",
}

func init() { register("C01", rulesC01) }

func rulesC01(c *Ctx) {
	p := c.p
	c.NotDecided("numeric equality of allocated/available with the sum of allocations at run time",
		"that the shim's predicate implementation accepts the node (only that its verdict is consulted)")
	c.Assume("a condition computed from a locked getter still holds at the guarded statement (same critical section is checked separately for the node fit test)")

	// ---- C01.a ownership of the node ledger
	c.Rule("C01.a", "fields Node.{total,occupied,allocated,available}Resource, allocations, reservations, schedulable are written only inside methods of objects.Node / NewNode; resource getters return clones")
	for _, f := range nodeLedgerFields {
		c.fieldWritersConfined("C01.a", "objects.Node."+f, 1, func(w FieldWrite) (bool, string) {
			if p.methodOf(w.Fn, "objects.Node") || w.Fn.Name == "objects.NewNode" {
				return true, ""
			}
			return false, "node ledger field written outside objects.Node methods (in " + w.Fn.Name + ")"
		})
	}
	nAlias := 0
	for _, fn := range p.funcs {
		if fn.Decl.Body == nil {
			continue
		}
		ast.Inspect(fn.Decl.Body, func(n ast.Node) bool {
			rs, ok := n.(*ast.ReturnStmt)
			if !ok {
				return true
			}
			for _, r := range rs.Results {
				if f := p.SelField(r); f != nil {
					fname := p.FieldName(f)
					for _, lf := range nodeLedgerFields[:4] {
						if fname == "objects.Node."+lf {
							c.Check("C01.a", "alias leak "+fname+" returned by "+fn.Name, rs, false, "live ledger resource returned without Clone()")
						}
					}
				}
				if call, ok := unparen(r).(*ast.CallExpr); ok && p.IsCall(call, "resources.Resource.Clone") {
					if f := p.SelField(Recv(call)); f != nil && strings.HasPrefix(p.FieldName(f), "objects.Node.") {
						nAlias++
						c.Check("C01.a", "getter "+fn.Name+" clones "+p.FieldName(f), rs, true, "")
					}
				}
			}
			return true
		})
	}
	c.Floor("C01.a", "cloning node resource getters", nAlias, 4)

	// ---- C01.b available coherence
	c.Rule("C01.b", "in every Node method each mutation of total/occupied/allocated is followed on every path by refreshAvailableResource() or the mirrored update of availableResource with the same operand; each insert/delete on Node.allocations is paired with the resource update")
	nMut := checkAvailableCoherence(c, "C01.b", "")
	c.Floor("C01.b", "mutations of total/occupied/allocated", nMut, 9)
	// allocations map ↔ resource booking
	if f := p.Field("objects.Node.allocations"); f != nil {
		n := 0
		for _, w := range p.FieldWrites(f) {
			if w.Kind != "elem" && w.Kind != "delete" {
				continue
			}
			n++
			key := "allocations " + w.Kind + " in " + w.Fn.Name
			isB := func(nn ast.Node) bool {
				// any mutation of allocated/occupied that executes unconditionally, or on both branches
				switch x := nn.(type) {
				case *ast.CallExpr:
					if rc := Recv(x); rc != nil {
						if _, ok := p.fieldSel(rc, "objects.Node.allocatedResource"); ok && p.isMutating(p.Callee(x)) && !p.IsCall(x, "resources.Resource.Prune") {
							return true
						}
						if _, ok := p.fieldSel(rc, "objects.Node.occupiedResource"); ok && p.isMutating(p.Callee(x)) && !p.IsCall(x, "resources.Resource.Prune") {
							return true
						}
					}
				case *ast.AssignStmt:
					for _, l := range x.Lhs {
						if _, ok := p.fieldSel(l, "objects.Node.occupiedResource"); ok {
							return true
						}
						if _, ok := p.fieldSel(l, "objects.Node.allocatedResource"); ok {
							return true
						}
					}
				}
				return false
			}
			b, why := p.FollowedBy(w.Fn, w.Node, isB)
			c.Check("C01.b", key, w.Node, b != nil, "change of Node.allocations is not followed on every path by a booking on allocatedResource/occupiedResource (%s)", why)
		}
		c.Floor("C01.b", "insert/delete on Node.allocations", n, 5)
	}

	// ---- C01.c fit gate inside addAllocationInternal
	c.Rule("C01.c", "in addAllocationInternal the store into allocations and the ledger updates are guarded by force || availableResource.FitIn(res) on the value that is booked, with the node lock held from test to update")
	if fn := c.MustFunc("C01.c", "objects.Node.addAllocationInternal"); fn != nil {
		forceObj := paramObj(p, fn, 1)
		n := 0
		for _, fld := range []string{"allocations", "allocatedResource", "occupiedResource", "availableResource"} {
			f := p.Field("objects.Node." + fld)
			for _, w := range p.FieldWrites(f) {
				if !p.inFn(w.Fn, fn) || w.Kind == "mutcall:Prune" {
					continue
				}
				n++
				st := p.StateAt(fn, w.Node)
				allocT := T(fn.Decl.Type.Params.List[0].Names[0], st)
				gate := anyReq(
					p.BoolAtom(true, func(t Term) bool {
						id, ok := unparen(t.E).(*ast.Ident)
						return ok && forceObj != nil && p.ObjOf(id) == forceObj
					}),
					p.CallAtom(true, func(call *ast.CallExpr, a Atom) bool {
						if _, isAvail := p.fieldSel(Recv(call), "objects.Node.availableResource"); !isAvail {
							return false
						}
						return len(call.Args) >= 1 && p.IsResOf(a.term(call.Args[0]), allocT)
					}, "resources.Resource.FitIn"),
				)
				ok := p.Holds(st, gate)
				c.Check("C01.c", "gate for "+fld+" "+w.Kind, w.Node, ok, "update of Node.%s in addAllocationInternal is not guarded by (force || availableResource.FitIn(res(alloc))); facts: %v", fld, p.FactStrings(st))
				held := p.lockHeld(fn, w.Node, func(e ast.Expr) bool { return p.isRecvExpr(fn, e) }, true)
				c.Check("C01.c", "lock for "+fld+" "+w.Kind, w.Node, held, "node write lock is not held continuously at the update of Node.%s", fld)
			}
		}
		c.Floor("C01.c", "ledger updates in addAllocationInternal", n, 4)
		// the FitIn test itself must be evaluated under the lock
		for _, call := range p.callsIn(fn, "resources.Resource.FitIn") {
			held := p.lockHeld(fn, call, func(e ast.Expr) bool { return p.isRecvExpr(fn, e) }, true)
			c.Check("C01.c", "fit test under lock", call, held, "availableResource.FitIn is evaluated without the node write lock")
		}
	}

	// ---- C01.d force confinement
	c.Rule("C01.d", "addAllocationInternal(_, true) only in Node.AddAllocation; Node.AddAllocation only from UpdateAllocation / handleForeignAllocation; forced ledger changes unreachable from the scheduling roots")
	if fn := c.MustFunc("C01.d", "objects.Node.addAllocationInternal"); fn != nil {
		sites := p.CallSites(fn.Obj)
		for _, cs := range sites {
			if len(cs.Call.Args) < 2 {
				continue
			}
			isFalse := p.isConstBool(cs.Call.Args[1], false)
			isTrue := p.isConstBool(cs.Call.Args[1], true)
			switch {
			case isFalse:
				c.Check("C01.d", "unforced call from "+cs.Caller.Name, cs.Call, true, "")
			case isTrue:
				c.Check("C01.d", "forced call from "+cs.Caller.Name, cs.Call, cs.Caller.Name == "objects.Node.AddAllocation", "addAllocationInternal(force=true) outside Node.AddAllocation")
			default:
				c.Check("C01.d", "non-constant force from "+cs.Caller.Name, cs.Call, false, "force argument is not a constant: %s", p.Src(cs.Call.Args[1]))
			}
		}
		c.Floor("C01.d", "call sites of addAllocationInternal", len(sites), 2)
	}
	c.whoMayCall("C01.d", "objects.Node.AddAllocation", 3, map[string]string{
		"scheduler.PartitionContext.UpdateAllocation":        "RM reports an allocation that is already bound (recovery / external placement)",
		"scheduler.PartitionContext.handleForeignAllocation": "foreign pod reported by the RM",
	})
	for _, target := range []string{"objects.Node.AddAllocation", "objects.Node.UpdateAllocatedResource", "objects.Node.SetCapacity", "objects.Node.SetOccupiedResource", "objects.Node.UpdateForeignAllocation"} {
		c.notReachable("C01.d", schedulingRoots, target)
	}

	// ---- C01.e bind preconditions
	c.Rule("C01.e", "every Node.TryAddAllocation(x) carries (locally or at all callers) preAllocateCheck(res(x), key(x)), preAllocateConditions(x)==nil and IsSchedulable() on the same node; preAllocateCheck returns true only under StrictlyGreaterThanZero, the reservation gate and availableResource.FitIn under the read lock")
	if fn := c.MustFunc("C01.e", "objects.Node.TryAddAllocation"); fn != nil {
		sites := p.CallSites(fn.Obj)
		for _, cs := range sites {
			node, x := Recv(cs.Call), cs.Call.Args[0]
			subj := []ast.Expr{node, x}
			depth := 3
			if c.thorough() {
				depth = 8
			}
			type cond struct {
				name string
				req  SiteReq
			}
			conds := []cond{
				{"preAllocateCheck", func(st *State, s []Term) bool {
					return p.Holds(st, p.CallAtom(true, allOf(p.recvIs(s[0]),
						p.argIs(0, func(t Term) bool { return p.IsResOf(t, s[1]) }),
						p.argIs(1, func(t Term) bool { return p.IsKeyOf(t, s[1]) })), "objects.Node.preAllocateCheck"))
				}},
				{"preAllocateConditions", func(st *State, s []Term) bool {
					return p.Holds(st, p.ResultNilAtom(true, allOf(p.recvIs(s[0]),
						p.argIs(0, func(t Term) bool { return p.Same(t, s[1]) })), "objects.Node.preAllocateConditions"))
				}},
				{"IsSchedulable", func(st *State, s []Term) bool {
					return p.Holds(st, p.CallAtom(true, p.recvIs(s[0]), "objects.Node.IsSchedulable"))
				}},
			}
			for _, cd := range conds {
				for _, lf := range p.RequireAt(cs.Caller, cs.Call, subj, cd.req, depth) {
					c.Check("C01.e", cd.name+" before bind "+shortFn(cs.Caller.Name)+" via "+shortFn(lf.Fn.Name), lf.Node, lf.OK, "bind through %s without established %s on the same node/ask: %s", cs.Caller.Name, cd.name, lf.Why)
				}
			}
		}
		c.Floor("C01.e", "call sites of Node.TryAddAllocation", len(sites), 2)
	}
	if fn := c.MustFunc("C01.e", "objects.Node.preAllocateCheck"); fn != nil {
		resT := func(st *State) Term { return T(fn.Decl.Type.Params.List[0].Names[0], st) }
		keyObj := paramObj(p, fn, 1)
		n := 0
		for _, ex := range p.returnsOf(fn) {
			rs, ok := ex.Node.(*ast.ReturnStmt)
			if !ok || len(rs.Results) != 1 {
				c.Check("C01.e", "preAllocateCheck exit shape", ex.Node, false, "unexpected exit of preAllocateCheck")
				continue
			}
			if p.isConstBool(rs.Results[0], false) {
				continue
			}
			n++
			st := ex.State
			gz := p.Holds(st, p.CallAtom(true, p.argIs(0, func(t Term) bool { return p.Same(t, resT(st)) }), "resources.StrictlyGreaterThanZero"))
			c.Check("C01.e", "preAllocateCheck: positive resource", rs, gz, "preAllocateCheck can return true without StrictlyGreaterThanZero(res); facts: %v", p.FactStrings(st))
			resv := p.Holds(st, anyReq(
				p.CallAtom(false, func(call *ast.CallExpr, a Atom) bool { return p.isRecvExpr(fn, Recv(call)) }, "objects.Node.IsReserved"),
				p.CallAtom(true, func(call *ast.CallExpr, a Atom) bool {
					if !p.isRecvExpr(fn, Recv(call)) || len(call.Args) < 1 {
						return false
					}
					id, ok := unparen(call.Args[0]).(*ast.Ident)
					return ok && p.ObjOf(id) == keyObj
				}, "objects.Node.isReservedForAllocation")))
			c.Check("C01.e", "preAllocateCheck: reservation gate", rs, resv, "preAllocateCheck can return true for a node reserved for a different ask; facts: %v", p.FactStrings(st))
			fit := false
			for _, t := range p.chain(T(rs.Results[0], st)) {
				call, ok := unparen(t.E).(*ast.CallExpr)
				if !ok || !p.IsCall(call, "resources.Resource.FitIn") {
					continue
				}
				if _, isAvail := p.fieldSel(Recv(call), "objects.Node.availableResource"); isAvail && len(call.Args) >= 1 && p.Same(Term{E: call.Args[0], Env: t.Env, Idx: -1}, resT(st)) {
					fit = true
				}
				owner := p.EnclosingFunc(call.Pos())
				held := owner != nil && p.lockHeld(owner, call, func(e ast.Expr) bool { return p.isRecvExpr(owner, e) }, false)
				c.Check("C01.e", "preAllocateCheck: fit under lock", call, held, "availableResource read without the node lock")
			}
			c.Check("C01.e", "preAllocateCheck: fit test", rs, fit, "preAllocateCheck true-return is not availableResource.FitIn(res)")
		}
		c.Floor("C01.e", "non-false returns of preAllocateCheck", n, 1)
	}
	// same-node placeholder swap
	if fn := c.MustFunc("C01.e", "objects.Application.tryPlaceholderAllocate"); fn != nil {
		n := 0
		for _, call := range p.callsIn(fn, "objects.newReplacedAllocationResult") {
			st := p.StateAt(fn, call)
			if len(call.Args) < 2 {
				continue
			}
			// node id argument: <node>.NodeID
			sel, ok := unparen(call.Args[0]).(*ast.SelectorExpr)
			if !ok {
				c.Check("C01.e", "replaced result node id shape", call, false, "node id argument is not <node>.NodeID")
				continue
			}
			n++
			nodeT, reqT := T(sel.X, st), T(call.Args[1], st)
			viaTry := p.DoneCall(st, func(cl *ast.CallExpr) bool {
				return Recv(cl) != nil && p.Same(T(Recv(cl), p.StateAt(fn, cl)), nodeT)
			}, "objects.Node.TryAddAllocation") != nil
			if viaTry {
				c.Check("C01.e", "replacement on another node goes through TryAddAllocation", call, true, "")
				continue
			}
			nonNil := p.Holds(st, p.NilAtom(false, func(t Term) bool { return p.Same(t, nodeT) }))
			cond := p.Holds(st, p.ResultNilAtom(true, allOf(p.recvIs(nodeT), p.argIs(0, func(t Term) bool { return p.Same(t, reqT) })), "objects.Node.preReserveConditions"))
			// node provenance: getNodeFn(ph.GetNodeID())
			prov := false
			d := p.DefOf(nodeT)
			if cl, ok := unparen(d.E).(*ast.CallExpr); ok && len(cl.Args) >= 1 {
				if id, ok := unparen(cl.Fun).(*ast.Ident); ok && p.ObjOf(id) == paramObj(p, fn, 1) {
					if ac, ok := unparen(cl.Args[0]).(*ast.CallExpr); ok && p.IsCall(ac, "objects.Allocation.GetNodeID") {
						prov = true
					}
				}
			}
			c.Check("C01.e", "same-node swap: node registered", call, nonNil && prov, "same-node placeholder swap without node != nil from getNodeFn(ph.GetNodeID())")
			c.Check("C01.e", "same-node swap: predicate", call, cond, "same-node placeholder swap without preReserveConditions(request) == nil")
		}
		c.Floor("C01.e", "replaced results in tryPlaceholderAllocate", n, 2)
	}

	// ---- C01.f required node routing
	c.Rule("C01.f", "tryNodes / tryNodesNoReserve are only reached for asks without a required node; tryRequiredNode binds on getNodeFn(request.GetRequiredNode())")
	reqNodeEmpty := func(x func(st *State) Term) func(st *State) bool {
		return func(st *State) bool {
			return p.Holds(st, p.CmpAtom(func(op tokenT, a, b Term) bool {
				if op != tokEQL || !p.IsEmptyString(b.E) {
					return false
				}
				for _, cc := range p.chain(a) {
					if call, ok := unparen(cc.E).(*ast.CallExpr); ok && p.IsCall(call, "objects.Allocation.GetRequiredNode") && Recv(call) != nil {
						if p.Same(Term{E: Recv(call), Env: cc.Env, Idx: -1}, x(st)) {
							return true
						}
					}
				}
				return false
			}))
		}
	}
	for _, pair := range [][2]string{{"objects.Application.tryAllocate", "objects.Application.tryNodes"}, {"objects.Application.tryReservedAllocate", "objects.Application.tryNodesNoReserve"}} {
		fn := c.MustFunc("C01.f", pair[0])
		if fn == nil {
			continue
		}
		calls := p.callsIn(fn, pair[1])
		for _, call := range calls {
			st := p.StateAt(fn, call)
			ok := reqNodeEmpty(func(s *State) Term { return T(call.Args[0], st) })(st)
			c.Check("C01.f", shortFn(pair[1])+" only without required node in "+shortFn(pair[0]), call, ok, "%s reached without the fact GetRequiredNode() == \"\"; facts: %v", pair[1], p.FactStrings(st))
		}
		c.Floor("C01.f", "calls of "+pair[1]+" in "+pair[0], len(calls), 1)
	}
	if sites := p.CallSitesByName("objects.Application.tryNodes"); true {
		for _, cs := range sites {
			c.Check("C01.f", "tryNodes caller "+cs.Caller.Name, cs.Call, cs.Caller.Name == "objects.Application.tryAllocate" || cs.Caller.Name == "objects.Preemptor.TryPreemption" || cs.Caller.Name == "objects.Preemptor.tryNodes", "unexpected caller of tryNodes")
		}
	}
	if fn := c.MustFunc("C01.f", "objects.Application.tryRequiredNode"); fn != nil {
		calls := p.callsIn(fn, "objects.Application.tryNode")
		for _, call := range calls {
			st := p.StateAt(fn, call)
			d := p.DefOf(T(call.Args[0], st))
			ok := false
			if cl, isCall := unparen(d.E).(*ast.CallExpr); isCall && len(cl.Args) >= 1 {
				if id, isId := unparen(cl.Fun).(*ast.Ident); isId && p.ObjOf(id) == paramObj(p, fn, 1) {
					ad := p.DefOf(Term{E: cl.Args[0], Env: d.Env, Idx: -1})
					if ac, isC := unparen(ad.E).(*ast.CallExpr); isC && p.IsCall(ac, "objects.Allocation.GetRequiredNode") && p.Same(Term{E: Recv(ac), Env: ad.Env, Idx: -1}, T(call.Args[1], st)) {
						ok = true
					}
				}
			}
			nonNil := p.Holds(st, p.NilAtom(false, func(t Term) bool { return p.Same(t, T(call.Args[0], st)) }))
			c.Check("C01.f", "tryRequiredNode binds on the required node", call, ok && nonNil, "tryRequiredNode does not bind on non-nil getNodeFn(request.GetRequiredNode())")
		}
		c.Floor("C01.f", "tryNode calls in tryRequiredNode", len(calls), 1)
	}

	// ---- C01.g registered node and application
	c.Rule("C01.g", "PartitionContext.allocate hands back a result only when the application and the target node are still registered")
	if fn := c.MustFunc("C01.g", "scheduler.PartitionContext.allocate"); fn != nil {
		n := 0
		for _, ex := range p.returnsOf(fn) {
			rs, ok := ex.Node.(*ast.ReturnStmt)
			if !ok || len(rs.Results) != 1 || p.isNilLit(rs.Results[0]) {
				continue
			}
			n++
			st := ex.State
			app := p.Holds(st, p.ResultNilAtom(false, nil, "scheduler.PartitionContext.getApplication"))
			node := p.Holds(st, p.ResultNilAtom(false, func(call *ast.CallExpr, a Atom) bool {
				d := p.DefOf(a.term(call.Args[0]))
				f := p.SelField(d.E)
				return f != nil && p.FieldName(f) == "objects.AllocationResult.NodeID"
			}, "scheduler.PartitionContext.GetNode"))
			c.Check("C01.g", "allocate: application still registered", rs, app, "result returned without getApplication(...) != nil; facts: %v", p.FactStrings(st))
			c.Check("C01.g", "allocate: target node still registered", rs, node, "result returned without GetNode(result.NodeID) != nil; facts: %v", p.FactStrings(st))
		}
		c.Floor("C01.g", "non-nil returns of PartitionContext.allocate", n, 1)
	}
}

// checkAvailableCoherence implements C01.b (every mutation of total/occupied/allocated is followed
// by the matching update of available); onlyFn restricts it to one function (used by C12 for the
// forced add of the recovery path).
func checkAvailableCoherence(c *Ctx, rule string, onlyFn string) int {
	p := c.p
	nMut := 0
	for _, fld := range []string{"totalResource", "occupiedResource", "allocatedResource"} {
		f := p.Field("objects.Node." + fld)
		if f == nil {
			continue
		}
		for _, w := range p.FieldWrites(f) {
			if w.Kind == "compositelit" || w.Kind == "mutcall:Prune" || (onlyFn != "" && w.Fn.Name != onlyFn) {
				continue
			}
			nMut++
			key := "ledger " + fld + " " + w.Kind + " in " + w.Fn.Name
			// operand and sign of the mutation
			var operand ast.Expr
			sign := 0 // +1 usage grows, -1 usage shrinks, 0 unknown (needs full refresh)
			switch {
			case w.Kind == "mutcall:AddTo":
				operand, sign = w.Arg, +1
			case w.Kind == "mutcall:SubFrom":
				operand, sign = w.Arg, -1
			case w.Kind == "assign":
				if call, ok := unparen(w.Arg).(*ast.CallExpr); ok && len(call.Args) >= 2 {
					if base, isF := p.fieldSel(call.Args[0], "objects.Node."+fld); isF && base != nil {
						if p.IsCall(call, "resources.Add") {
							operand, sign = call.Args[1], +1
						} else if p.IsCall(call, "resources.Sub") {
							operand, sign = call.Args[1], -1
						}
					}
				}
			}
			if fld == "totalResource" {
				sign = 0 // capacity changes always need the full refresh
			}
			st := p.StateAt(w.Fn, w.Node)
			isB := func(n ast.Node) bool {
				call, ok := n.(*ast.CallExpr)
				if ok && p.IsCall(call, "objects.Node.refreshAvailableResource") {
					return true
				}
				if ok && sign != 0 && operand != nil {
					want := "resources.Resource.SubFrom"
					if sign < 0 {
						want = "resources.Resource.AddTo"
					}
					if p.IsCall(call, want) && len(call.Args) >= 1 {
						if _, isAvail := p.fieldSel(Recv(call), "objects.Node.availableResource"); isAvail {
							st2 := p.StateAt(w.Fn, call)
							if p.Same(T(call.Args[0], st2), T(operand, st)) {
								return true
							}
						}
					}
				}
				if as, ok := n.(*ast.AssignStmt); ok && w.Fn.Name == "objects.NewNode" {
					for _, l := range as.Lhs {
						if _, isAvail := p.fieldSel(l, "objects.Node.availableResource"); isAvail {
							return true
						}
					}
				}
				return false
			}
			b, why := p.FollowedBy(w.Fn, w.Node, isB)
			c.Check(rule, key, w.Node, b != nil, "mutation of Node.%s is not followed on every path by refreshAvailableResource() or the mirrored availableResource update (%s)", fld, why)
		}
	}
	return nMut
}
