package main

import (
	"go/ast"
	"go/token"
	"go/types"
	"strings"
)

// C19 — deterministic scheduling order: comparator hygiene, the two node views, iterator wiring.

func init() { register("C19", rulesC19) }

// ---------------------------------------------------------------- E7: comparators

type lessSite struct {
	Fn    *Func
	Call  *ast.CallExpr // sort.Slice*(slice, less) (nil for methods)
	Lit   *ast.FuncLit  // the less literal (nil for methods)
	Slice ast.Expr
	A, B  types.Object // the two "element selectors": index parameters, or receiver + parameter
	Body  *ast.BlockStmt
	Name  string
}

func (p *Prog) lessSites() []lessSite {
	var out []lessSite
	for _, fn := range p.funcs {
		if fn.Decl.Body == nil {
			continue
		}
		ast.Inspect(fn.Decl.Body, func(n ast.Node) bool {
			call, ok := n.(*ast.CallExpr)
			if !ok || len(call.Args) < 2 {
				return true
			}
			switch p.CalleeName(call) {
			case "sort.Slice", "sort.SliceStable":
			default:
				return true
			}
			lit, ok := unparen(call.Args[1]).(*ast.FuncLit)
			if !ok || lit.Type.Params == nil {
				return true
			}
			var objs []types.Object
			for _, f := range lit.Type.Params.List {
				for _, nm := range f.Names {
					objs = append(objs, p.ObjOf(nm))
				}
			}
			if len(objs) != 2 {
				return true
			}
			out = append(out, lessSite{Fn: fn, Call: call, Lit: lit, Slice: call.Args[0], A: objs[0], B: objs[1], Body: lit.Body, Name: fn.Name})
			return true
		})
	}
	return out
}

type diag struct {
	p     *Prog
	a, b  types.Object
	defs  map[types.Object]ast.Expr
	rel   map[string]int // assumed outcome per sort key: -1 first element smaller, 0 equal, +1 greater
	keys  []string       // sort keys met while evaluating (in order of first use)
	depth int            // nesting of helper evaluations
}

// sideOf: which element an expression reads (1 first, 2 second, 3 both, 0 neither), through definitions.
func (d *diag) sideOf(e ast.Expr) int {
	side := 0
	seen := map[types.Object]bool{}
	var walk func(e ast.Node)
	walk = func(e ast.Node) {
		ast.Inspect(e, func(n ast.Node) bool {
			id, ok := n.(*ast.Ident)
			if !ok {
				return true
			}
			o := d.p.ObjOf(id)
			if o == nil {
				return true
			}
			if o == d.a {
				side |= 1
			} else if o == d.b {
				side |= 2
			} else if def, ok := d.defs[o]; ok && def != nil && !seen[o] {
				seen[o] = true
				walk(def)
			}
			return true
		})
	}
	if e != nil {
		walk(e)
	}
	return side
}

// relOf returns the assumed relation of a sort key (first element vs second) and remembers the key.
func (d *diag) relOf(key string) int {
	if d.rel == nil {
		d.rel = map[string]int{}
	}
	if _, ok := d.rel[key]; !ok {
		d.rel[key] = 0
		d.keys = append(d.keys, key)
	}
	return d.rel[key]
}

// keyRel: X and Y are the same key expression read from the two different elements; returns the
// relation of X to Y under the current assumption.
func (d *diag) keyRel(x, y ast.Expr) (int, bool) {
	if d.norm(x) != d.norm(y) {
		return 0, false
	}
	sx, sy := d.sideOf(x), d.sideOf(y)
	if !((sx == 1 && sy == 2) || (sx == 2 && sy == 1)) {
		return 0, false
	}
	r := d.relOf(d.norm(x))
	if sx == 2 {
		r = -r
	}
	return r, true
}

// callSign: sign of a three-way comparison function applied to the two elements.
func (d *diag) callSign(e ast.Expr) (int, bool) {
	e = unparen(e)
	if id, ok := e.(*ast.Ident); ok {
		if def, ok := d.defs[d.p.ObjOf(id)]; ok && def != nil {
			return d.callSign(def)
		}
		return 0, false
	}
	call, ok := e.(*ast.CallExpr)
	if !ok {
		return 0, false
	}
	k, ok := diagZeroFuncs[d.p.CalleeName(call)]
	if !ok {
		// a three-way helper of the module (compareX(l, r) int): evaluated on its own body
		return d.helperSign(call)
	}
	if len(call.Args) < 2*k {
		return 0, false
	}
	key := d.p.CalleeName(call) + ":"
	s1, s2 := 0, 0
	for i := 0; i < k; i++ {
		if d.norm(call.Args[i]) != d.norm(call.Args[k+i]) {
			return 0, false
		}
		key += d.norm(call.Args[i]) + ","
		s1 |= d.sideOf(call.Args[i])
		s2 |= d.sideOf(call.Args[k+i])
	}
	if s1 == s2 {
		return 0, true // both halves read the same element
	}
	if !((s1 == 1 && s2 == 2) || (s1 == 2 && s2 == 1)) {
		return 0, false
	}
	r := d.relOf(key)
	if s1 == 2 {
		r = -r
	}
	return r, true
}

func relHolds(op token.Token, r int) int {
	ok := false
	switch op {
	case token.EQL:
		ok = r == 0
	case token.NEQ:
		ok = r != 0
	case token.LSS:
		ok = r < 0
	case token.LEQ:
		ok = r <= 0
	case token.GTR:
		ok = r > 0
	case token.GEQ:
		ok = r >= 0
	}
	if ok {
		return triT
	}
	return triF
}

// norm renders e with both element selectors replaced by the same symbol and locals replaced by
// their definitions: two expressions with the same rendering are equal when both elements are the same.
func (d *diag) norm(e ast.Expr) string {
	switch x := unparen(e).(type) {
	case nil:
		return ""
	case *ast.Ident:
		o := d.p.ObjOf(x)
		if o != nil && (o == d.a || o == d.b) {
			return "§"
		}
		if def, ok := d.defs[o]; ok && def != nil {
			return d.norm(def)
		}
		return x.Name
	case *ast.BasicLit:
		return x.Value
	case *ast.SelectorExpr:
		if _, isPkg := d.p.ObjOf(identOf(x.X)).(*types.PkgName); isPkg {
			return d.p.Src(x)
		}
		return d.norm(x.X) + "." + x.Sel.Name
	case *ast.CallExpr:
		var args []string
		for _, a := range x.Args {
			args = append(args, d.norm(a))
		}
		return d.norm(x.Fun) + "(" + strings.Join(args, ",") + ")"
	case *ast.IndexExpr:
		return d.norm(x.X) + "[" + d.norm(x.Index) + "]"
	case *ast.StarExpr:
		return "*" + d.norm(x.X)
	case *ast.UnaryExpr:
		return x.Op.String() + d.norm(x.X)
	case *ast.BinaryExpr:
		return "(" + d.norm(x.X) + x.Op.String() + d.norm(x.Y) + ")"
	case *ast.TypeAssertExpr:
		return d.norm(x.X)
	}
	return types.ExprString(e)
}

const (
	triF = 0
	triT = 1
	triU = 2
)

// comparison functions whose result is 0 when the two halves of their arguments are equal
var diagZeroFuncs = map[string]int{
	"resources.CompUsageRatio":           1, // (a, b, total): a ~ b
	"resources.CompUsageRatioSeparately": 3, // (a, g1, f1, b, g2, f2): first three ~ last three
}

func (d *diag) intZero(e ast.Expr) bool {
	e = unparen(e)
	if id, ok := e.(*ast.Ident); ok {
		if def, ok := d.defs[d.p.ObjOf(id)]; ok && def != nil {
			return d.intZero(def)
		}
		return false
	}
	call, ok := e.(*ast.CallExpr)
	if !ok {
		return false
	}
	k, ok := diagZeroFuncs[d.p.CalleeName(call)]
	if !ok || len(call.Args) < 2*k {
		return false
	}
	for i := 0; i < k; i++ {
		if d.norm(call.Args[i]) != d.norm(call.Args[k+i]) {
			return false
		}
	}
	return true
}

func (d *diag) eval(e ast.Expr) int {
	e = unparen(e)
	switch x := e.(type) {
	case *ast.Ident:
		if x.Name == "true" {
			return triT
		}
		if x.Name == "false" {
			return triF
		}
		if def, ok := d.defs[d.p.ObjOf(x)]; ok && def != nil {
			return d.eval(def)
		}
		return triU
	case *ast.UnaryExpr:
		if x.Op == token.NOT {
			switch d.eval(x.X) {
			case triT:
				return triF
			case triF:
				return triT
			}
		}
		return triU
	case *ast.BinaryExpr:
		switch x.Op {
		case token.LAND:
			l, r := d.eval(x.X), d.eval(x.Y)
			if l == triF || r == triF {
				return triF
			}
			if l == triT && r == triT {
				return triT
			}
			return triU
		case token.LOR:
			l, r := d.eval(x.X), d.eval(x.Y)
			if l == triT || r == triT {
				return triT
			}
			if l == triF && r == triF {
				return triF
			}
			return triU
		case token.EQL, token.NEQ, token.LSS, token.GTR, token.LEQ, token.GEQ:
			// the same key read from the two elements: use the assumed outcome
			if r, ok := d.keyRel(x.X, x.Y); ok {
				return relHolds(x.Op, r)
			}
			// three-way comparison result against 0
			if v, isC := d.p.ConstInt(x.Y); isC && v == 0 {
				if r, ok := d.callSign(x.X); ok {
					return relHolds(x.Op, r)
				}
			}
			same := d.norm(x.X) == d.norm(x.Y) && d.sideOf(x.X) == d.sideOf(x.Y)
			if !same {
				return triU
			}
			switch x.Op {
			case token.EQL, token.LEQ, token.GEQ:
				return triT
			default:
				return triF
			}
		}
	case *ast.CallExpr:
		if sel, ok := unparen(x.Fun).(*ast.SelectorExpr); ok && len(x.Args) >= 1 {
			if _, isPkg := d.p.ObjOf(identOf(sel.X)).(*types.PkgName); !isPkg && d.norm(sel.X) == d.norm(x.Args[0]) {
				r, ok := d.keyRel(sel.X, x.Args[0])
				if !ok && d.sideOf(sel.X) == d.sideOf(x.Args[0]) {
					r, ok = 0, true
				}
				if ok {
					switch d.p.CalleeName(x) {
					case "time.Time.Before":
						return relHolds(token.LSS, r)
					case "time.Time.After":
						return relHolds(token.GTR, r)
					case "time.Time.Equal":
						return relHolds(token.EQL, r)
					}
				}
			}
		}
		switch d.p.CalleeName(x) {
		case "resources.StrictlyGreaterThan":
			// StrictlyGreaterThan(Sub(a, a), Zero) == false
			if len(x.Args) >= 2 {
				if sub, ok := unparen(x.Args[0]).(*ast.CallExpr); ok && d.p.IsCall(sub, "resources.Sub") && len(sub.Args) >= 2 && strings.HasSuffix(types.ExprString(x.Args[1]), "Zero") {
					// Sub(a, b) strictly greater than zero  <=>  a greater than b (as one key)
					if r, ok := d.keyRel(sub.Args[0], sub.Args[1]); ok {
						return relHolds(token.GTR, r)
					}
					if d.norm(sub.Args[0]) == d.norm(sub.Args[1]) && d.sideOf(sub.Args[0]) == d.sideOf(sub.Args[1]) {
						return triF
					}
				}
				if r, ok := d.keyRel(x.Args[0], x.Args[1]); ok {
					return relHolds(token.GTR, r)
				}
			}
		}
	}
	if call, isCall := e.(*ast.CallExpr); isCall {
		// a boolean helper of the comparator's own package, evaluated on its body
		if callee := d.p.Callee(call); callee != nil && callee.Pkg() != nil && d.p.PkgShort(callee.Pkg().Path()) == "objects" {
			if v, ok := d.helperBool(call); ok && v != triU {
				return v
			}
		}
	}
	return triU
}

// run executes the statement list on the diagonal; it returns the set of possible results
// (triF / triT / triU per reachable return) and whether control can fall off the end.
func (d *diag) run(list []ast.Stmt, results *[]int, where *[]ast.Node) bool {
	for _, s := range list {
		switch x := s.(type) {
		case *ast.AssignStmt:
			if len(x.Lhs) == len(x.Rhs) {
				for i, l := range x.Lhs {
					if id, ok := l.(*ast.Ident); ok {
						d.defs[d.p.ObjOf(id)] = x.Rhs[i]
					}
				}
			} else if len(x.Rhs) == 1 {
				for i, l := range x.Lhs {
					if id, ok := l.(*ast.Ident); ok {
						if i == 0 {
							d.defs[d.p.ObjOf(id)] = x.Rhs[0]
						} else {
							d.defs[d.p.ObjOf(id)] = nil
						}
					}
				}
			}
		case *ast.DeclStmt, *ast.ExprStmt, *ast.EmptyStmt:
		case *ast.ReturnStmt:
			if len(x.Results) == 1 {
				*results = append(*results, d.eval(x.Results[0]))
			} else {
				*results = append(*results, triU)
			}
			*where = append(*where, x)
			return false
		case *ast.BlockStmt:
			if !d.run(x.List, results, where) {
				return false
			}
		case *ast.IfStmt:
			if x.Init != nil {
				d.run([]ast.Stmt{x.Init}, results, where)
			}
			c := d.eval(x.Cond)
			fall := false
			if c != triF {
				if d.run(x.Body.List, results, where) {
					fall = true
				}
			}
			if c != triT {
				switch e := x.Else.(type) {
				case nil:
					fall = true
				case *ast.BlockStmt:
					if d.run(e.List, results, where) {
						fall = true
					}
				case *ast.IfStmt:
					if d.run([]ast.Stmt{e}, results, where) {
						fall = true
					}
				}
			}
			if !fall {
				return false
			}
		case *ast.SwitchStmt:
			// desugared into the equivalent if / else-if chain (no fallthrough, no break inside)
			chain, okc := d.switchAsIf(x)
			if !okc {
				*results = append(*results, triU)
				*where = append(*where, s)
				return false
			}
			if x.Init != nil {
				d.run([]ast.Stmt{x.Init}, results, where)
			}
			if chain != nil && !d.run([]ast.Stmt{chain}, results, where) {
				return false
			}
		default:
			*results = append(*results, triU)
			*where = append(*where, s)
			return false
		}
	}
	return true
}

// switchAsIf rewrites a switch without fallthrough / break into nested if statements.
func (d *diag) switchAsIf(x *ast.SwitchStmt) (ast.Stmt, bool) {
	bad := false
	ast.Inspect(x.Body, func(n ast.Node) bool {
		if b, ok := n.(*ast.BranchStmt); ok && (b.Tok == token.FALLTHROUGH || b.Tok == token.BREAK) {
			bad = true
		}
		return !bad
	})
	if bad {
		return nil, false
	}
	var def *ast.CaseClause
	var clauses []*ast.CaseClause
	for _, c := range x.Body.List {
		cc := c.(*ast.CaseClause)
		if cc.List == nil {
			def = cc
		} else {
			clauses = append(clauses, cc)
		}
	}
	var tail ast.Stmt
	if def != nil {
		tail = &ast.BlockStmt{List: def.Body, Lbrace: def.Pos()}
	}
	for i := len(clauses) - 1; i >= 0; i-- {
		cc := clauses[i]
		var cond ast.Expr
		for _, e := range cc.List {
			var one ast.Expr = e
			if x.Tag != nil {
				one = &ast.BinaryExpr{X: x.Tag, Op: token.EQL, Y: e, OpPos: e.Pos()}
			}
			if cond == nil {
				cond = one
			} else {
				cond = &ast.BinaryExpr{X: cond, Op: token.LOR, Y: one, OpPos: e.Pos()}
			}
		}
		tail = &ast.IfStmt{If: cc.Pos(), Cond: cond, Body: &ast.BlockStmt{List: cc.Body, Lbrace: cc.Pos()}, Else: tail}
	}
	return tail, true
}

func rulesC19(c *Ctx) {
	p := c.p
	c.NotDecided("the numeric fair-share formulas (CompUsageRatio*, getFairShare) and floating point rounding / summation order",
		"transitivity of the comparators (only index confinement and irreflexivity on equal elements are decided)",
		"that a node's cached score equals its current utilisation between listener callbacks")
	c.Assume("comparator axioms: CompUsageRatio(a,a,_) == 0, CompUsageRatioSeparately(a,g,f,a,g,f) == 0, StrictlyGreaterThan(Sub(a,a), Zero) == false, t.Before(t) == t.After(t) == false, t.Equal(t) == true; getters are deterministic functions of their receiver")

	// ---- C19.a index confinement
	c.Rule("C19.a", "inside every less function passed to sort.Slice/SliceStable the index parameters index only the slice being sorted (a parallel slice is not permuted by the sort)")
	sites := p.lessSites()
	for _, s := range sites {
		bad := ""
		ast.Inspect(s.Body, func(n ast.Node) bool {
			ix, ok := n.(*ast.IndexExpr)
			if !ok {
				return true
			}
			uses := false
			ast.Inspect(ix.Index, func(m ast.Node) bool {
				if id, ok := m.(*ast.Ident); ok {
					if o := p.ObjOf(id); o != nil && (o == s.A || o == s.B) {
						uses = true
					}
				}
				return true
			})
			if !uses {
				return true
			}
			if p.Src(ix.X) != p.Src(s.Slice) {
				bad = p.Src(ix)
			}
			return true
		})
		c.Check("C19.a", "less function in "+s.Name, s.Lit, bad == "", "the comparator indexes %s with a sort position: only %s is permuted by the sort, so this reads another element's data and the order depends on how the candidates were stored", bad, p.Src(s.Slice))
	}
	c.Floor("C19.a", "less functions passed to sort.Slice*", len(sites), 12)

	// ---- C19.b irreflexivity on the diagonal
	c.Rule("C19.b", "comparators of sibling queues, applications and nodes are strict: the body is evaluated over EVERY combination of outcomes (<, =, >) of the sort keys it compares (a finite set: the comparator touches its elements only through comparisons); less(a,a) is false and less(a,b), less(b,a) are never both true; a comparison the evaluator does not understand is reported, never assumed")
	inScope := map[string]bool{
		"objects.sortQueuesByPriority": true, "objects.sortQueuesByPriorityAndFairness": true, "objects.sortQueuesByFairnessAndPriority": true,
		"objects.sortApplicationsByFairnessAndPriority": true, "objects.sortApplicationsByPriorityAndFairness": true,
		"objects.sortApplicationsBySubmissionTimeAndPriority": true, "objects.sortApplicationsByPriorityAndSubmissionTime": true,
	}
	nDiag := 0
	// evalUnder runs the comparator under one assumed outcome per sort key; returns T/F/U and the keys met
	evalUnder := func(a, b types.Object, body *ast.BlockStmt, rel map[string]int) (int, []string, string) {
		d := &diag{p: p, a: a, b: b, defs: map[types.Object]ast.Expr{}, rel: map[string]int{}}
		for k, v := range rel {
			d.rel[k] = v
			d.keys = append(d.keys, k)
		}
		var res []int
		var where []ast.Node
		fell := d.run(body.List, &res, &where)
		if fell {
			return triU, d.keys, "control can reach the end of the comparator without a decision"
		}
		out, msg := triF, ""
		for i, r := range res {
			if r == triU {
				return triU, d.keys, "unknown comparison at " + p.Pos(where[i])
			}
			if r == triT {
				out, msg = triT, p.Pos(where[i])
			}
		}
		return out, d.keys, msg
	}
	check := func(name string, at ast.Node, a, b types.Object, body *ast.BlockStmt) {
		nDiag++
		// discover the sort keys: start with none (all equal), add keys as they are met
		keys := []string{}
		known := map[string]bool{}
		for iter := 0; iter < 6; iter++ {
			grew := false
			n := 1
			for range keys {
				n *= 3
			}
			for code := 0; code < n; code++ {
				rel := map[string]int{}
				cc := code
				for _, k := range keys {
					rel[k] = cc%3 - 1
					cc /= 3
				}
				_, met, _ := evalUnder(a, b, body, rel)
				for _, k := range met {
					if !known[k] {
						known[k] = true
						keys = append(keys, k)
						grew = true
					}
				}
			}
			if !grew || len(keys) > 5 {
				break
			}
		}
		okIrr, okAsym, okDec := true, true, true
		msg := ""
		n := 1
		for range keys {
			n *= 3
		}
		for code := 0; code < n; code++ {
			rel, neg := map[string]int{}, map[string]int{}
			cc := code
			allEq := true
			desc := ""
			for _, k := range keys {
				v := cc%3 - 1
				cc /= 3
				rel[k], neg[k] = v, -v
				if v != 0 {
					allEq = false
				}
				desc += map[int]string{-1: "<", 0: "=", 1: ">"}[v]
			}
			x, _, wx := evalUnder(a, b, body, rel)
			y, _, _ := evalUnder(a, b, body, neg)
			if x == triU {
				okDec, msg = false, "cannot decide the result ("+wx+") for key outcomes "+desc+" over keys "+strings.Join(keys, " | ")
				break
			}
			if allEq && x == triT {
				okIrr, msg = false, "returns true for two equal elements (at "+wx+"): not a strict ordering"
			}
			if x == triT && y == triT {
				okAsym, msg = false, "less(a,b) and less(b,a) are both true when the key outcomes are "+desc+" over keys "+strings.Join(keys, " | ")+": not a strict weak ordering, the result depends on the input order"
			}
		}
		c.Check("C19.b", "irreflexive: "+name, at, okIrr && okDec, "%s", msg)
		c.Check("C19.b", "asymmetric: "+name, at, okAsym && okDec, "%s", msg)
	}
	for _, s := range sites {
		if inScope[s.Name] {
			check(s.Name, s.Lit, s.A, s.B, s.Body)
		}
	}
	if fn := c.MustFunc("C19.b", "objects.nodeRef.Less"); fn != nil {
		check(fn.Name, fn.Decl, p.recvObj(fn), paramObj(p, fn, 0), fn.Decl.Body)
	}
	c.Floor("C19.b", "comparators evaluated on the diagonal", nDiag, 8)
	for name := range inScope {
		c.MustFunc("C19.b", name)
	}

	// ---- C19.c comparators read only their elements
	c.Rule("C19.c", "scheduling comparators do not range over maps and do not read package-level variables (other than constants and resources.Zero)")
	for _, s := range sites {
		if !inScope[s.Name] {
			continue
		}
		bad := ""
		ast.Inspect(s.Body, func(n ast.Node) bool {
			switch x := n.(type) {
			case *ast.RangeStmt:
				if _, isMap := p.TypeOf(x.X).Underlying().(*types.Map); isMap {
					bad = "ranges over map " + p.Src(x.X)
				}
			case *ast.Ident:
				if v, ok := p.ObjOf(x).(*types.Var); ok && v.Pkg() != nil && v.Parent() == v.Pkg().Scope() && x.Name != "Zero" {
					bad = "reads package variable " + x.Name
				}
			}
			return true
		})
		c.Check("C19.c", "comparator purity in "+s.Name, s.Lit, bad == "", "comparator %s", bad)
	}

	// ---- C19.f parallel slices in sortQueues
	c.Rule("C19.f", "Queue.sortQueues appends a child and its fair max to the two parallel slices in the same block and for the same child; the comparators look the fair max up by queue (fairMaxByQueue pairs position i with position i)")
	if fn := c.MustFunc("C19.f", "objects.Queue.sortQueues"); fn != nil {
		type app struct {
			as  *ast.AssignStmt
			arg ast.Expr
		}
		var qs, ms []app
		ast.Inspect(fn.Decl.Body, func(n ast.Node) bool {
			as, ok := n.(*ast.AssignStmt)
			if !ok || len(as.Lhs) != 1 || len(as.Rhs) != 1 {
				return true
			}
			call, ok := unparen(as.Rhs[0]).(*ast.CallExpr)
			if !ok || len(call.Args) < 2 {
				return true
			}
			if id, ok := unparen(call.Fun).(*ast.Ident); !ok || id.Name != "append" {
				return true
			}
			switch p.TypeName(p.TypeOf(call.Args[1])) {
			case "objects.Queue":
				qs = append(qs, app{as, call.Args[1]})
			case "resources.Resource":
				ms = append(ms, app{as, call.Args[1]})
			}
			return true
		})
		ok := len(qs) == 1 && len(ms) == 1
		why := "expected exactly one append to each of the two slices"
		if ok {
			if p.Parent(qs[0].as) != p.Parent(ms[0].as) {
				ok, why = false, "the two appends are in different blocks (different guards): the slices can get different lengths"
			}
			call, isCall := unparen(ms[0].arg).(*ast.CallExpr)
			if ok && !(isCall && p.IsCall(call, "objects.Queue.GetFairMaxResource") && p.Src(Recv(call)) == p.Src(qs[0].arg)) {
				ok, why = false, "the fair max appended is "+p.Src(ms[0].arg)+", not "+p.Src(qs[0].arg)+".GetFairMaxResource()"
			}
		}
		c.Check("C19.f", "parallel appends in sortQueues", fn.Decl, ok, "%s", why)
		calls := p.callsIn(fn, "objects.sortQueue")
		okArgs := len(calls) == 1 && ok && len(calls[0].Args) >= 2 && p.Src(calls[0].Args[0]) == p.Src(qs[0].as.Lhs[0]) && p.Src(calls[0].Args[1]) == p.Src(ms[0].as.Lhs[0])
		c.Check("C19.f", "sortQueue receives the two parallel slices in order", fn.Decl, okArgs, "sortQueue is not called with (queues, fairMax) built above")
	}
	// the filter on applications keeps every app with pending resources (no positional dependence)
	c.mustContainCalls("C19.f", "objects.sortApplications", "objects.filterOnPendingResources")

	// ---- C19.d two node views
	c.Rule("C19.d", "baseNodeCollection keeps the node map and the score-ordered tree in step: insert/delete are paired, a node's score is only changed between Delete and ReplaceOrInsert of its tree entry, the collection listens to exactly the nodes it holds")
	const nc = "objects.baseNodeCollection"
	nodesF, scoreF := p.Field(nc+".nodes"), p.Field("objects.nodeRef.nodeScore")
	isTreeOp := func(n ast.Node, names ...string) bool {
		call, ok := n.(*ast.CallExpr)
		if !ok {
			return false
		}
		sel, ok := unparen(call.Fun).(*ast.SelectorExpr)
		if !ok {
			return false
		}
		if _, isTree := p.fieldSel(sel.X, nc+".sortedNodes"); !isTree {
			return false
		}
		for _, nm := range names {
			if sel.Sel.Name == nm {
				return true
			}
		}
		return false
	}
	if nodesF != nil {
		n := 0
		for _, w := range p.FieldWrites(nodesF) {
			switch w.Kind {
			case "elem":
				n++
				m, why := p.PairedWith(w.Fn, w.Node, func(b ast.Node) bool { return isTreeOp(b, "ReplaceOrInsert") })
				c.Check("C19.d", "map insert paired with tree insert in "+w.Fn.Name, w.Node, m != nil, "a node is stored in the map without sortedNodes.ReplaceOrInsert on every path: the iterators would never visit it (%s)", why)
				m2 := p.PrecededBy(w.Fn, w.Node, func(b ast.Node) bool {
					call, ok := b.(*ast.CallExpr)
					return ok && p.IsCall(call, "objects.Node.AddListener")
				})
				c.Check("C19.d", "listener registered on insert in "+w.Fn.Name, w.Node, m2 != nil, "the collection does not register itself as listener of the node it stores: utilisation changes would not re-key the tree")
			case "delete":
				n++
				m, why := p.PairedWith(w.Fn, w.Node, func(b ast.Node) bool { return isTreeOp(b, "Delete") })
				c.Check("C19.d", "map delete paired with tree delete in "+w.Fn.Name, w.Node, m != nil, "a node is removed from the map but not from the tree: the iterators keep visiting a removed node (%s)", why)
				m2, why2 := p.PairedWith(w.Fn, w.Node, func(b ast.Node) bool {
					call, ok := b.(*ast.CallExpr)
					return ok && p.IsCall(call, "objects.Node.RemoveListener")
				})
				c.Check("C19.d", "listener removed on delete in "+w.Fn.Name, w.Node, m2 != nil, "the collection stays registered as listener of a node it no longer holds: updates of the removed object re-key the entry of a node registered later under the same id (%s)", why2)
			}
		}
		c.Floor("C19.d", "inserts/deletes on baseNodeCollection.nodes", n, 2)
	}
	if scoreF != nil {
		n := 0
		for _, w := range p.FieldWrites(scoreF) {
			if w.Kind == "compositelit" {
				continue
			}
			n++
			before := p.PrecededBy(w.Fn, w.Node, func(b ast.Node) bool { return isTreeOp(b, "Delete", "Clear") })
			after, why := p.FollowedBy(w.Fn, w.Node, func(b ast.Node) bool { return isTreeOp(b, "ReplaceOrInsert") })
			c.Check("C19.d", "re-key protocol around nodeScore write in "+w.Fn.Name, w.Node, before != nil && after != nil, "nodeScore (the tree key) is changed without Delete before and ReplaceOrInsert after on every path: the tree is corrupted or keeps a stale position (%s)", why)
			// the new score is the policy's score of the node
			arg, isCall := unparen(w.Arg).(*ast.CallExpr)
			c.Check("C19.d", "nodeScore comes from scoreNode in "+w.Fn.Name, w.Node, isCall && p.IsCall(arg, nc+".scoreNode"), "nodeScore is assigned %s, not nc.scoreNode(node)", p.Src(w.Arg))
		}
		c.Floor("C19.d", "writes of nodeRef.nodeScore", n, 2)
	}
	// every Node mutator that changes what the score depends on notifies the listeners (after unlocking: C14.d)
	for _, m := range []string{"objects.Node.SetCapacity", "objects.Node.SetOccupiedResource", "objects.Node.UpdateAllocatedResource", "objects.Node.RemoveAllocation",
		"objects.Node.addAllocationInternal", "objects.Node.ReplaceAllocation", "objects.Node.UpdateForeignAllocation", "objects.Node.SetSchedulable"} {
		c.mustContainCalls("C19.d", m, "objects.Node.notifyListeners")
	}
	c.mustContainCalls("C19.d", "objects.Node.notifyListeners", "objects.NodeListener.NodeUpdated")

	// ---- C19.e iterator
	c.Rule("C19.e", "treeIterator.ForEachNode visits the tree in ascending order, hands a node to the callback only when accept(node) holds, stops exactly when the callback returns false, and works on a clone taken under the collection lock; the unreserved view filters with acceptUnreserved, the full view with acceptAll")
	if fn := c.MustFunc("C19.e", "objects.treeIterator.ForEachNode"); fn != nil {
		n := 0
		ast.Inspect(fn.Decl.Body, func(nd ast.Node) bool {
			rs, ok := nd.(*ast.ReturnStmt)
			if !ok || len(rs.Results) != 1 {
				return true
			}
			call, ok := unparen(rs.Results[0]).(*ast.CallExpr)
			if !ok || !p.isParam(fn, call.Fun, 0) {
				return true
			}
			n++
			st := p.StateAt(fn, rs)
			acc := p.Holds(st, func(a Atom) bool {
				ac, ok := unparen(a.E).(*ast.CallExpr)
				if !ok || !a.Val || len(ac.Args) < 1 {
					return false
				}
				_, isAccept := p.fieldSel(ac.Fun, "objects.treeIterator.accept")
				return isAccept && p.Same(a.term(ac.Args[0]), T(call.Args[0], st))
			})
			c.Check("C19.e", "callback only for accepted nodes", rs, acc, "the callback is invoked without the fact ti.accept(node): the unreserved view would hand out reserved nodes")
			return true
		})
		c.Floor("C19.e", "callback invocations in ForEachNode", n, 1)
		asc := false
		ast.Inspect(fn.Decl.Body, func(nd ast.Node) bool {
			if call, ok := nd.(*ast.CallExpr); ok {
				if sel, ok := unparen(call.Fun).(*ast.SelectorExpr); ok && sel.Sel.Name == "Ascend" {
					if inner, ok := unparen(sel.X).(*ast.CallExpr); ok {
						if _, isGet := p.fieldSel(inner.Fun, "objects.treeIterator.getTree"); isGet {
							asc = true
						}
					}
				}
			}
			return true
		})
		c.Check("C19.e", "ascending walk over getTree()", fn.Decl, asc, "ForEachNode no longer walks ti.getTree().Ascend(...)")
		// non-accepted nodes continue the walk: the literal's last statement is `return true`
		ast.Inspect(fn.Decl.Body, func(nd ast.Node) bool {
			if lit, ok := nd.(*ast.FuncLit); ok && len(lit.Body.List) > 0 {
				// every way out of the visitor that does not answer `true` (continue) is taken for an accepted node only
				okAll, nRet := true, 0
				ast.Inspect(lit.Body, func(m ast.Node) bool {
					rs, isRet := m.(*ast.ReturnStmt)
					if !isRet || len(rs.Results) != 1 {
						return true
					}
					nRet++
					if p.isConstBool(rs.Results[0], true) {
						return true
					}
					st := p.StateAt(fn, rs)
					acc := st != nil && p.Holds(st, func(a Atom) bool {
						ac, isCall := unparen(a.E).(*ast.CallExpr)
						if !isCall || !a.Val {
							return false
						}
						_, isAccept := p.fieldSel(ac.Fun, "objects.treeIterator.accept")
						return isAccept
					})
					if !acc {
						okAll = false
					}
					return true
				})
				last, endsRet := lit.Body.List[len(lit.Body.List)-1].(*ast.ReturnStmt)
				_ = last
				c.Check("C19.e", "walk continues past rejected nodes", lit, okAll && nRet > 0 && endsRet, "the walk does not continue after a node that is not accepted: nodes behind a reserved node would never be visited")
				return false
			}
			return true
		})
	}
	if fn := c.MustFunc("C19.e", "objects.NewNodeCollection"); fn != nil {
		got := map[string]string{}
		ast.Inspect(fn.Decl.Body, func(nd ast.Node) bool {
			as, ok := nd.(*ast.AssignStmt)
			if !ok || len(as.Lhs) != 1 || len(as.Rhs) != 1 {
				return true
			}
			call, ok := unparen(as.Rhs[0]).(*ast.CallExpr)
			if ok && p.IsCall(call, "objects.NewTreeIterator") && len(call.Args) >= 2 {
				got[p.Src(as.Lhs[0])] = p.Src(call.Args[0]) + "|" + p.Src(call.Args[1])
			}
			return true
		})
		c.Check("C19.e", "iterator wiring", fn.Decl, got["unreservedIterator"] == "acceptUnreserved|bsc.cloneSortedNodes" && got["fullIterator"] == "acceptAll|bsc.cloneSortedNodes", "iterators are not built as NewTreeIterator(acceptUnreserved|acceptAll, bsc.cloneSortedNodes): %v", got)
	}
	if fn := c.MustFunc("C19.e", nc+".cloneSortedNodes"); fn != nil {
		n := 0
		for _, ex := range p.returnsOf(fn) {
			rs, ok := ex.Node.(*ast.ReturnStmt)
			if !ok || len(rs.Results) != 1 {
				continue
			}
			n++
			call, isCall := unparen(rs.Results[0]).(*ast.CallExpr)
			isClone := false
			if isCall {
				if sel, ok := unparen(call.Fun).(*ast.SelectorExpr); ok && sel.Sel.Name == "Clone" {
					_, isClone = p.fieldSel(sel.X, nc+".sortedNodes")
				}
			}
			c.Check("C19.e", "iterators walk a clone of the tree", rs, isClone, "cloneSortedNodes returns %s: the live tree would be walked while listeners re-key it", p.Src(rs.Results[0]))
		}
		c.Floor("C19.e", "returns of cloneSortedNodes", n, 1)
	}

	// ---- C19.g sorted asks
	c.Rule("C19.g", "sortedRequests keeps asks ordered through Allocation.LessThan only: insert uses it for both the fast path and the binary search, remove matches by allocation key; LessThan compares priority first and creation time second")
	c.mustContainCalls("C19.g", "objects.sortedRequests.insert", "objects.Allocation.LessThan", "sort.Search", "objects.sortedRequests.insertAt")
	if fn := c.MustFunc("C19.g", "objects.Allocation.LessThan"); fn != nil {
		prio, ctime := false, false
		ast.Inspect(fn.Decl.Body, func(nd ast.Node) bool {
			if sel, ok := nd.(*ast.SelectorExpr); ok {
				if f := p.SelField(sel); f != nil {
					switch p.FieldName(f) {
					case "objects.Allocation.priority":
						prio = true
					case "objects.Allocation.createTime":
						ctime = true
					}
				}
			}
			return true
		})
		c.Check("C19.g", "LessThan keys", fn.Decl, prio && ctime, "Allocation.LessThan no longer compares priority and createTime")
	}
	for _, w := range []string{"objects.Application.sortedRequests"} {
		c.fieldWritersConfined("C19.g", w, 2, func(fw FieldWrite) (bool, string) {
			switch fw.Kind {
			case "mutcall:insert", "mutcall:remove", "assign", "compositelit", "addr":
				return true, ""
			}
			return false, "Application.sortedRequests changed by " + fw.Kind + " in " + fw.Fn.Name + " instead of insert/remove"
		})
	}
}

// bindHelper prepares the evaluation of a private helper of the comparator: its parameters (and receiver) stand for
// the argument expressions.  Returns the body and a restore function.
func (d *diag) bindHelper(call *ast.CallExpr) (*ast.BlockStmt, func(), bool) {
	callee := d.p.Callee(call)
	if callee == nil {
		return nil, nil, false
	}
	fn := d.p.FuncOf[callee]
	if fn == nil || fn.Decl.Body == nil || call.Ellipsis != 0 || d.depth > 3 {
		return nil, nil, false
	}
	saved := map[types.Object]ast.Expr{}
	had := map[types.Object]bool{}
	bind := func(id *ast.Ident, arg ast.Expr) {
		if id == nil || arg == nil || id.Name == "_" {
			return
		}
		o := d.p.ObjOf(id)
		if o == nil {
			return
		}
		if old, ok := d.defs[o]; ok {
			saved[o], had[o] = old, true
		} else {
			had[o] = false
		}
		d.defs[o] = arg
	}
	fd := fn.Decl
	if fd.Recv != nil && len(fd.Recv.List) > 0 && len(fd.Recv.List[0].Names) > 0 {
		bind(fd.Recv.List[0].Names[0], Recv(call))
	}
	i := 0
	if fd.Type.Params != nil {
		for _, f := range fd.Type.Params.List {
			if _, variadic := f.Type.(*ast.Ellipsis); variadic {
				return nil, nil, false
			}
			for _, nm := range f.Names {
				if i < len(call.Args) {
					bind(nm, call.Args[i])
				}
				i++
			}
			if len(f.Names) == 0 {
				i++
			}
		}
	}
	d.depth++
	restore := func() {
		d.depth--
		for o, h := range had {
			if h {
				d.defs[o] = saved[o]
			} else {
				delete(d.defs, o)
			}
		}
	}
	return fn.Decl.Body, restore, true
}

// helperBool evaluates a boolean helper of the module on the diagonal.
func (d *diag) helperBool(call *ast.CallExpr) (int, bool) {
	sig, ok := d.p.TypeOf(call.Fun).(*types.Signature)
	if !ok || sig.Results().Len() != 1 {
		return triU, false
	}
	if b, isB := sig.Results().At(0).Type().Underlying().(*types.Basic); !isB || b.Info()&types.IsBoolean == 0 {
		return triU, false
	}
	body, restore, ok := d.bindHelper(call)
	if !ok {
		return triU, false
	}
	defer restore()
	var results []int
	var where []ast.Node
	if d.run(body.List, &results, &where) {
		return triU, false // falls off the end
	}
	if len(results) == 0 {
		return triU, false
	}
	v := results[0]
	for _, r := range results[1:] {
		if r != v {
			return triU, true
		}
	}
	return v, true
}

// helperSign evaluates a three-way helper (negative / zero / positive int) of the module: every reachable return
// must yield the same sign.
func (d *diag) helperSign(call *ast.CallExpr) (int, bool) {
	sig, ok := d.p.TypeOf(call.Fun).(*types.Signature)
	if !ok || sig.Results().Len() != 1 {
		return 0, false
	}
	if b, isB := sig.Results().At(0).Type().Underlying().(*types.Basic); !isB || b.Info()&types.IsInteger == 0 {
		return 0, false
	}
	body, restore, ok := d.bindHelper(call)
	if !ok {
		return 0, false
	}
	defer restore()
	signs := map[int]bool{}
	okAll := true
	var walk func(list []ast.Stmt) bool // returns whether control can fall through
	walk = func(list []ast.Stmt) bool {
		for _, s := range list {
			switch x := s.(type) {
			case *ast.AssignStmt:
				if len(x.Lhs) == len(x.Rhs) {
					for i, l := range x.Lhs {
						if id, isID := l.(*ast.Ident); isID {
							d.defs[d.p.ObjOf(id)] = x.Rhs[i]
						}
					}
				}
			case *ast.DeclStmt, *ast.ExprStmt, *ast.EmptyStmt:
			case *ast.ReturnStmt:
				if len(x.Results) != 1 {
					okAll = false
					return false
				}
				if v, isC := d.p.ConstInt(x.Results[0]); isC {
					switch {
					case v < 0:
						signs[-1] = true
					case v > 0:
						signs[1] = true
					default:
						signs[0] = true
					}
				} else if r, has := d.callSign(x.Results[0]); has {
					signs[r] = true
				} else {
					okAll = false
				}
				return false
			case *ast.BlockStmt:
				if !walk(x.List) {
					return false
				}
			case *ast.IfStmt:
				if x.Init != nil {
					walk([]ast.Stmt{x.Init})
				}
				c := d.eval(x.Cond)
				fall := false
				if c != triF {
					if walk(x.Body.List) {
						fall = true
					}
				}
				if c != triT {
					switch e := x.Else.(type) {
					case nil:
						fall = true
					case *ast.BlockStmt:
						if walk(e.List) {
							fall = true
						}
					case *ast.IfStmt:
						if walk([]ast.Stmt{e}) {
							fall = true
						}
					}
				}
				if !fall {
					return false
				}
			case *ast.SwitchStmt:
				chain, okc := d.switchAsIf(x)
				if !okc {
					okAll = false
					return false
				}
				if chain != nil && !walk([]ast.Stmt{chain}) {
					return false
				}
			default:
				okAll = false
				return false
			}
		}
		return true
	}
	if walk(body.List) {
		okAll = false // no return on some path
	}
	if !okAll || len(signs) != 1 {
		return 0, false
	}
	for r := range signs {
		return r, true
	}
	return 0, false
}
