package main

// E1: lock discipline.
//
// Per function body (declared body and every function literal) a forward MUST dataflow over go/cfg
// computes which locks are certainly held before every CFG node.  A lock is named by the source
// text of its owner expression ("sq", "sq.parent", "ec.streaming"); owners whose root variable is
// reassigned in the function are not trusted.  On top of that:
//   - guarded-field accesses need the owner's lock (exclusive for writes); when the owner is the
//     receiver or a parameter the obligation becomes a "requires-lock" summary of the function and
//     moves to every static call site (fixpoint);
//   - lock/unlock pairing, upgrade and re-entrancy checks;
//   - a type-level "acquired while held" graph.

import (
	"fmt"
	"go/ast"
	"go/token"
	"go/types"
	"sort"
	"strings"

	"golang.org/x/tools/go/cfg"
)

type lockState map[string]int // owner key -> 0 none, 1 shared, 2 exclusive

func (s lockState) clone() lockState {
	n := lockState{}
	for k, v := range s {
		n[k] = v
	}
	return n
}

func meet(a, b lockState) lockState {
	n := lockState{}
	for k, v := range a {
		if w := b[k]; w > 0 {
			if w < v {
				v = w
			}
			n[k] = v
		}
	}
	return n
}

func sameState(a, b lockState) bool {
	if len(a) != len(b) {
		return false
	}
	for k, v := range a {
		if b[k] != v {
			return false
		}
	}
	return true
}

type lkBody struct {
	lit      *ast.FuncLit
	body     *ast.BlockStmt
	g        *cfg.CFG
	before   map[ast.Node]lockState
	nodes    []ast.Node
	exits    []lkExit
	entry    lockState
	async    bool
	deferred map[string]bool // owner keys with a deferred unlock somewhere in this body
}

type lkExit struct {
	node  ast.Node
	state lockState
}

type lkEvent struct {
	Kind  string // unlock-not-held | upgrade | held-at-exit | relock
	Node  ast.Node
	Owner string
	Fn    *Func
}

type lkReq struct {
	Level int
	Why   string // first access / callee that needs it
	Node  ast.Node
	Roots map[*lockAccess]bool // the field accesses this requirement stems from
}

type lkFunc struct {
	fn       *Func
	bodies   []*lkBody
	requires map[int]*lkReq // parameter index (-1 receiver) -> requirement
	acquires map[int]int    // parameter index -> level the function itself takes on it (transitively)
	acqTypes map[string]bool
	events   []lkEvent
}

type lockStruct struct {
	Name       string
	Named      *types.Named
	Lock       *types.Var
	Guarded    map[*types.Var]bool   // written in any way outside construction
	Reassigned map[*types.Var]bool   // the field itself is assigned outside construction
	ContentMut map[*types.Var]string // map/slice field whose elements are changed in place outside construction (example site)
	PtrMutated map[*types.Var]bool   // pointer field whose pointee is mutated in place (or driven through a state machine) outside construction
	Fields     []*types.Var
}

type lockAccess struct {
	Failed []string // call sites at which the moved obligation could not be discharged
	Fn     *Func
	Node   *ast.SelectorExpr
	Field  *types.Var
	Struct *lockStruct
	Write  bool
	Owner  ast.Expr
	Held   int
	Status string // held | fresh | requires | violation
	Why    string
}

type lockAnalysis struct {
	anyFresh bool
	p        *Prog
	structs  map[string]*lockStruct
	byField  map[*types.Var]*lockStruct
	funcs    map[*Func]*lkFunc
	accesses []*lockAccess
	// call-site violations: a requires-lock callee invoked without the lock
	callViol []lockCallViolation
	edges    map[string]map[string]string // held type -> acquired type -> example
	ctor     map[*Func]map[int]bool       // construction-phase functions: parameter k is always a fresh, unpublished object
}

// lockTestOnly: setters that exist for tests only (no non-test caller may exist: checked by the
// C14 rules).  Their writes do not make a field "guarded" and they are not analysed.
var lockTestOnly = map[string]string{
	"objects.Allocation.SetRequiredNode": "test-only setter (comment in source: 'only used in tests'); requiredNode is otherwise immutable after NewAllocationFromSI",
	"objects.Application.SetState":       "test-only: forces the FSM state without an event (C10.b also forbids production callers)",
}

// lockAssumedHeld: functions whose function literals run with a lock that the literal cannot see:
// the FSM callbacks run synchronously inside stateMachine.Event, which is only called with the
// application lock held (discharged by rule C14.a-fsm at the Event call sites).
var lockAssumedHeld = map[string]string{
	"objects.callbacks": "objects.Application",
}

func (la *lockAnalysis) assumed(fn *Func, owner ast.Expr) int {
	if t, ok := lockAssumedHeld[fn.Name]; ok {
		if la.p.TypeName(la.p.TypeOf(owner)) == t {
			return 2
		}
	}
	return 0
}

type lockCallViolation struct {
	Caller *Func
	Call   *ast.CallExpr
	Callee *Func
	Param  int
	Level  int
	Held   int
	Why    string
}

var lockAn *lockAnalysis

func isMutexType(t types.Type) bool {
	if pt, ok := t.(*types.Pointer); ok {
		t = pt.Elem()
	}
	n, ok := t.(*types.Named)
	if !ok || n.Obj().Pkg() == nil {
		return false
	}
	path := n.Obj().Pkg().Path()
	name := n.Obj().Name()
	if name != "Mutex" && name != "RWMutex" {
		return false
	}
	return path == "sync" || strings.HasSuffix(path, "go-deadlock") || strings.HasSuffix(path, "pkg/locking")
}

// lockOp classifies a call as a mutex operation and returns the owner expression.
func (p *Prog) lockOp(call *ast.CallExpr) (op string, owner ast.Expr) {
	sel, ok := unparen(call.Fun).(*ast.SelectorExpr)
	if !ok {
		return "", nil
	}
	switch sel.Sel.Name {
	case "Lock", "RLock", "Unlock", "RUnlock":
	default:
		return "", nil
	}
	callee := p.Callee(call)
	if callee == nil {
		return "", nil
	}
	sig, _ := callee.Type().(*types.Signature)
	if sig == nil || sig.Recv() == nil || !isMutexType(sig.Recv().Type()) {
		return "", nil
	}
	x := unparen(sel.X)
	if t := p.TypeOf(x); t != nil && isMutexType(t) {
		// named lock field or package-level lock variable
		if xs, ok := x.(*ast.SelectorExpr); ok {
			if _, isPkg := p.ObjOf(identOf(xs.X)).(*types.PkgName); !isPkg {
				return sel.Sel.Name, xs.X
			}
		}
		return sel.Sel.Name, x
	}
	return sel.Sel.Name, x
}

func ownerKey(e ast.Expr) string { return types.ExprString(unparen(e)) }

// Locks builds (once) the whole-module lock analysis.
func (p *Prog) Locks() *lockAnalysis {
	if lockAn != nil {
		return lockAn
	}
	la := &lockAnalysis{p: p, structs: map[string]*lockStruct{}, byField: map[*types.Var]*lockStruct{}, funcs: map[*Func]*lkFunc{},
		edges: map[string]map[string]string{}}
	lockAn = la
	la.findStructs()
	for _, fn := range p.funcs {
		if fn.Decl.Body == nil {
			continue
		}
		la.funcs[fn] = la.analyseFunc(fn)
	}
	la.inferCtor()
	la.inferGuarded()
	la.solve()
	return la
}

func (la *lockAnalysis) findStructs() {
	p := la.p
	for _, pk := range p.Pkgs {
		sc := pk.Types.Scope()
		for _, nm := range sc.Names() {
			tn, ok := sc.Lookup(nm).(*types.TypeName)
			if !ok {
				continue
			}
			named, ok := tn.Type().(*types.Named)
			if !ok {
				continue
			}
			st, ok := named.Underlying().(*types.Struct)
			if !ok {
				continue
			}
			var lock *types.Var
			for i := 0; i < st.NumFields(); i++ {
				if isMutexType(st.Field(i).Type()) {
					lock = st.Field(i)
					break
				}
			}
			if lock == nil {
				continue
			}
			ls := &lockStruct{Name: p.pkgName[pk.PkgPath] + "." + nm, Named: named, Lock: lock, Guarded: map[*types.Var]bool{}, Reassigned: map[*types.Var]bool{}, PtrMutated: map[*types.Var]bool{}, ContentMut: map[*types.Var]string{}}
			for i := 0; i < st.NumFields(); i++ {
				f := st.Field(i)
				if f != lock {
					ls.Fields = append(ls.Fields, f)
					la.byField[f] = ls
				}
			}
			la.structs[ls.Name] = ls
		}
	}
}

// ------------------------------------------------------------------ per-function dataflow

func (la *lockAnalysis) analyseFunc(fn *Func) *lkFunc {
	p := la.p
	lf := &lkFunc{fn: fn, requires: map[int]*lkReq{}, acquires: map[int]int{}, acqTypes: map[string]bool{}}
	// collect bodies: the declared body first, then literals in source order (parents before children)
	type pending struct {
		lit  *ast.FuncLit
		body *ast.BlockStmt
	}
	var order []pending
	order = append(order, pending{nil, fn.Decl.Body})
	ast.Inspect(fn.Decl.Body, func(n ast.Node) bool {
		if l, ok := n.(*ast.FuncLit); ok {
			order = append(order, pending{l, l.Body})
		}
		return true
	})
	byLit := map[*ast.FuncLit]*lkBody{}
	for _, pb := range order {
		b := &lkBody{lit: pb.lit, body: pb.body, before: map[ast.Node]lockState{}, deferred: map[string]bool{}}
		b.entry = lockState{}
		if pb.lit != nil {
			b.entry, b.async = la.litEntry(fn, lf, pb.lit, byLit)
			if par := lf.enclosingBody(pb.lit); par != nil && par.async {
				b.async = true
			}
		}
		la.flow(fn, lf, b)
		lf.bodies = append(lf.bodies, b)
		if pb.lit != nil {
			byLit[pb.lit] = b
		}
	}
	_ = p
	return lf
}

// enclosingBody finds the analysed body that directly contains node n.
func (lf *lkFunc) enclosingBody(n ast.Node) *lkBody {
	var best *lkBody
	for _, b := range lf.bodies {
		if b.body.Pos() <= n.Pos() && n.End() <= b.body.End() {
			if best == nil || (b.body.Pos() >= best.body.Pos() && b.body.End() <= best.body.End()) {
				best = b
			}
		}
	}
	return best
}

// stateAt returns the lock state before the CFG node that contains n (innermost body).
func (lf *lkFunc) stateAt(n ast.Node) lockState {
	b := lf.enclosingBody(n)
	if b == nil {
		return nil
	}
	// innermost cfg node containing n
	var best ast.Node
	for _, cn := range b.nodes {
		if cn.Pos() <= n.Pos() && n.End() <= cn.End() {
			if best == nil || (cn.Pos() >= best.Pos() && cn.End() <= best.End()) {
				best = cn
			}
		}
	}
	if best == nil {
		return nil
	}
	st := b.before[best]
	// refine inside the node: lock operations that precede n within the same node
	st = st.clone()
	la := lockAn
	la.applyNode(best, st, n.Pos(), nil, nil, nil)
	return st
}

var asyncCallees = map[string]bool{"time.AfterFunc": true}

// pointee types that are plain unsynchronised data mutated in place by their owner
var lockUnsyncPointees = map[string]bool{
	"resources.Resource":            true,
	"ugm.QueueTracker":              true,
	"github.com/google/btree.BTree": true,
}

// methods of external types that change the object they are called on
var lockExternalMutators = map[string]bool{
	"github.com/looplab/fsm.FSM.Event":    true,
	"github.com/looplab/fsm.FSM.SetState": true,
}

// litEntry decides which locks are held when a function literal starts executing.
func (la *lockAnalysis) litEntry(fn *Func, lf *lkFunc, lit *ast.FuncLit, byLit map[*ast.FuncLit]*lkBody) (lockState, bool) {
	p := la.p
	par := p.Parent(lit)
	for {
		if pe, ok := par.(*ast.ParenExpr); ok {
			par = p.Parent(pe)
			continue
		}
		break
	}
	call, isCall := par.(*ast.CallExpr)
	if !isCall {
		return lockState{}, true // stored in a variable / field / returned: unknown caller context
	}
	gp := p.Parent(call)
	if _, isGo := gp.(*ast.GoStmt); isGo {
		return lockState{}, true
	}
	if ds, isDefer := gp.(*ast.DeferStmt); isDefer && unparen(call.Fun) == ast.Expr(lit) {
		// runs at function exit: locks with a deferred unlock registered earlier are still held
		st := lf.stateAtOuter(ds, byLit)
		out := lockState{}
		body := lf.enclosingBodyFor(ds, byLit)
		for k, v := range st {
			if body != nil && la.deferredUnlockBefore(body, k, ds.Pos()) {
				out[k] = v
			}
		}
		return out, false
	}
	if unparen(call.Fun) != ast.Expr(lit) {
		// passed as an argument
		if asyncCallees[p.CalleeName(call)] {
			return lockState{}, true
		}
		if _, isGoArg := gp.(*ast.GoStmt); isGoArg {
			return lockState{}, true
		}
	}
	// immediately invoked or synchronous callback: inherits the state at the call
	return lf.stateAtOuter(call, byLit).clone(), false
}

func (lf *lkFunc) enclosingBodyFor(n ast.Node, byLit map[*ast.FuncLit]*lkBody) *lkBody {
	return lf.enclosingBody(n)
}

func (lf *lkFunc) stateAtOuter(n ast.Node, byLit map[*ast.FuncLit]*lkBody) lockState {
	st := lf.stateAt(n)
	if st == nil {
		return lockState{}
	}
	return st
}

func (la *lockAnalysis) deferredUnlockBefore(b *lkBody, key string, pos token.Pos) bool {
	found := false
	ast.Inspect(b.body, func(n ast.Node) bool {
		if _, isLit := n.(*ast.FuncLit); isLit {
			return false
		}
		if ds, ok := n.(*ast.DeferStmt); ok && ds.Pos() < pos {
			if op, owner := la.p.lockOp(ds.Call); (op == "Unlock" || op == "RUnlock") && ownerKey(owner) == key {
				found = true
			}
		}
		return true
	})
	return found
}

// applyNode applies the lock operations of one CFG node (in source order, not entering function
// literals, defer or go statements) to st.  Only operations positioned before `until` are applied
// when until is valid.
func (la *lockAnalysis) applyNode(n ast.Node, st lockState, until token.Pos, fn *Func, lf *lkFunc, b *lkBody) {
	p := la.p
	ast.Inspect(n, func(m ast.Node) bool {
		switch x := m.(type) {
		case *ast.FuncLit:
			return false
		case *ast.DeferStmt:
			if b != nil {
				if op, owner := p.lockOp(x.Call); op == "Unlock" || op == "RUnlock" {
					b.deferred[ownerKey(owner)] = true
				}
				// deferred closure that unlocks
				if lit, ok := unparen(x.Call.Fun).(*ast.FuncLit); ok {
					ast.Inspect(lit.Body, func(k ast.Node) bool {
						if c, ok := k.(*ast.CallExpr); ok {
							if op, owner := p.lockOp(c); op == "Unlock" || op == "RUnlock" {
								b.deferred[ownerKey(owner)] = true
							}
						}
						return true
					})
				}
			}
			return false
		case *ast.GoStmt:
			return false
		case *ast.CallExpr:
			if until.IsValid() && x.End() > until {
				return true
			}
			op, owner := p.lockOp(x)
			if op == "" {
				return true
			}
			key := ownerKey(owner)
			cur := st[key]
			switch op {
			case "Lock":
				if lf != nil && cur > 0 {
					kind := "relock"
					if cur == 1 {
						kind = "upgrade"
					}
					lf.events = append(lf.events, lkEvent{kind, x, key, fn})
				}
				st[key] = 2
			case "RLock":
				if lf != nil && cur > 0 {
					lf.events = append(lf.events, lkEvent{"relock", x, key, fn})
				}
				if cur < 1 {
					st[key] = 1
				}
			case "Unlock", "RUnlock":
				if lf != nil && cur == 0 {
					lf.events = append(lf.events, lkEvent{"unlock-not-held", x, key, fn})
				}
				delete(st, key)
			}
		}
		return true
	})
}

func (la *lockAnalysis) flow(fn *Func, lf *lkFunc, b *lkBody) {
	p := la.p
	g := cfg.New(b.body, func(call *ast.CallExpr) bool {
		if id, ok := unparen(call.Fun).(*ast.Ident); ok && id.Name == "panic" {
			return false
		}
		switch p.CalleeName(call) {
		case "os.Exit", "log.Fatal", "log.Fatalf":
			return false
		}
		return true
	})
	b.g = g
	if len(g.Blocks) == 0 {
		return
	}
	in := make([]lockState, len(g.Blocks))
	out := make([]lockState, len(g.Blocks))
	visited := make([]bool, len(g.Blocks))
	preds := make([][]int32, len(g.Blocks))
	for _, blk := range g.Blocks {
		for _, s := range blk.Succs {
			preds[s.Index] = append(preds[s.Index], blk.Index)
		}
	}
	in[0] = b.entry.clone()
	work := []int32{0}
	inWork := map[int32]bool{0: true}
	for len(work) > 0 {
		i := work[0]
		work = work[1:]
		inWork[i] = false
		blk := g.Blocks[i]
		var st lockState
		if i == 0 {
			st = b.entry.clone()
			for _, pr := range preds[i] {
				if visited[pr] {
					st = meet(st, out[pr])
				}
			}
		} else {
			first := true
			for _, pr := range preds[i] {
				if !visited[pr] {
					continue
				}
				if first {
					st = out[pr].clone()
					first = false
				} else {
					st = meet(st, out[pr])
				}
			}
			if first {
				continue
			}
		}
		in[i] = st.clone()
		for _, n := range blk.Nodes {
			la.applyNode(n, st, token.NoPos, nil, nil, nil)
		}
		if !visited[i] || !sameState(out[i], st) {
			visited[i] = true
			out[i] = st
			for _, s := range blk.Succs {
				if !inWork[s.Index] {
					inWork[s.Index] = true
					work = append(work, s.Index)
				}
			}
		}
	}
	// final pass: record per-node states and events
	for _, blk := range g.Blocks {
		if !visited[blk.Index] && blk.Index != 0 {
			continue
		}
		st := in[blk.Index].clone()
		for _, n := range blk.Nodes {
			b.before[n] = st.clone()
			b.nodes = append(b.nodes, n)
			la.applyNode(n, st, token.NoPos, fn, lf, b)
			if rs, ok := n.(*ast.ReturnStmt); ok {
				b.exits = append(b.exits, lkExit{rs, st.clone()})
			}
		}
		if len(blk.Succs) == 0 {
			// falling off the end of the body (no return statement as last node)
			isRet := false
			if len(blk.Nodes) > 0 {
				_, isRet = blk.Nodes[len(blk.Nodes)-1].(*ast.ReturnStmt)
			}
			if !isRet && blk.Live && !endsInNoReturn(p, blk) {
				b.exits = append(b.exits, lkExit{b.body, st.clone()})
			}
		}
	}
	// held-at-exit events
	for _, ex := range b.exits {
		for k, v := range ex.state {
			if v > 0 && !b.deferred[k] && b.entry[k] == 0 {
				lf.events = append(lf.events, lkEvent{"held-at-exit", ex.node, k, fn})
			}
		}
	}
}

func endsInNoReturn(p *Prog, blk *cfg.Block) bool {
	if len(blk.Nodes) == 0 {
		return false
	}
	es, ok := blk.Nodes[len(blk.Nodes)-1].(*ast.ExprStmt)
	if !ok {
		return false
	}
	call, ok := unparen(es.X).(*ast.CallExpr)
	if !ok {
		return false
	}
	if id, ok := unparen(call.Fun).(*ast.Ident); ok && id.Name == "panic" {
		return true
	}
	return false
}

// ------------------------------------------------------------------ guarded fields

// freshLocal: the root variable of e is a local of fn that is initialised with a new object
// (composite literal, new, or a constructor call) in this function: unpublished during construction.
func (la *lockAnalysis) freshLocal(fn *Func, e ast.Expr) bool {
	p := la.p
	id := p.rootIdent(e)
	if id == nil {
		return false
	}
	o, ok := p.ObjOf(id).(*types.Var)
	if !ok || o.IsField() || o.Parent() == nil || o.Pkg() == nil || o.Parent() == o.Pkg().Scope() {
		return false
	}
	if p.recvObj(fn) == types.Object(o) {
		return false
	}
	for i := 0; ; i++ {
		po := paramObj(p, fn, i)
		if po == nil {
			break
		}
		if po == types.Object(o) {
			return false
		}
	}
	fresh, notOnlyFresh := false, false
	ast.Inspect(fn.Decl.Body, func(n ast.Node) bool {
		var lhs []ast.Expr
		var rhs []ast.Expr
		switch x := n.(type) {
		case *ast.AssignStmt:
			lhs, rhs = x.Lhs, x.Rhs
		case *ast.ValueSpec:
			for _, nm := range x.Names {
				lhs = append(lhs, nm)
			}
			rhs = x.Values
		default:
			return true
		}
		for i, l := range lhs {
			lid, ok := unparen(l).(*ast.Ident)
			if !ok || p.ObjOf(lid) != types.Object(o) {
				continue
			}
			var r ast.Expr
			if len(rhs) == len(lhs) {
				r = rhs[i]
			} else if len(rhs) == 1 {
				r = rhs[0]
			}
			if r != nil && la.isFreshExpr(r) {
				fresh = true
			} else if r != nil && !p.isNilExpr(r) {
				// also assigned something that already exists (a map entry, a field): not only a new object
				notOnlyFresh = true
			}
		}
		return true
	})
	if la.anyFresh {
		return fresh
	}
	return fresh && !notOnlyFresh
}

// freshLocalAny: some assignment of the local is a newly created object (get-or-create shapes).
func (la *lockAnalysis) freshLocalAny(fn *Func, e ast.Expr) bool {
	la.anyFresh = true
	defer func() { la.anyFresh = false }()
	return la.freshLocal(fn, e)
}

func (la *lockAnalysis) isFreshExpr(r ast.Expr) bool {
	p := la.p
	switch x := unparen(r).(type) {
	case *ast.UnaryExpr:
		if x.Op == token.AND {
			_, isLit := unparen(x.X).(*ast.CompositeLit)
			return isLit
		}
	case *ast.CompositeLit:
		return true
	case *ast.CallExpr:
		if id, ok := unparen(x.Fun).(*ast.Ident); ok && id.Name == "new" {
			return true
		}
		name := ""
		if c := p.Callee(x); c != nil {
			name = c.Name()
		}
		ln := strings.ToLower(name)
		return strings.HasPrefix(ln, "new") || strings.HasPrefix(ln, "create")
	}
	return false
}

// isWriteContext: selector sel (x.f) is written through (assignment target, element store,
// inc/dec, delete, address taken, mutating method receiver).
func (la *lockAnalysis) isWriteContext(sel *ast.SelectorExpr) bool { return la.writeKind(sel) != "" }

// readsContent: the selector is used to look inside a container held in the field (index, range,
// len/cap, slicing) rather than just copying the field's value.
func (la *lockAnalysis) readsContent(sel *ast.SelectorExpr) bool {
	p := la.p
	var child ast.Node = sel
	for {
		par := p.Parent(child)
		switch x := par.(type) {
		case *ast.ParenExpr:
			child = x
			continue
		case *ast.IndexExpr:
			return x.X == child
		case *ast.SliceExpr:
			return x.X == child
		case *ast.RangeStmt:
			return x.X == child
		case *ast.CallExpr:
			if id, ok := unparen(x.Fun).(*ast.Ident); ok {
				switch id.Name {
				case "len", "cap", "append", "copy":
					if _, isB := p.ObjOf(id).(*types.Builtin); isB {
						return true
					}
				}
			}
			return false
		case *ast.SelectorExpr:
			// method call / field of a struct VALUE stored in the field (not through a pointer)
			if x.X == child {
				if _, isPtr := p.TypeOf(sel).Underlying().(*types.Pointer); !isPtr {
					if _, isIface := p.TypeOf(sel).Underlying().(*types.Interface); !isIface {
						return true
					}
				}
			}
			return false
		default:
			return false
		}
	}
}

// writeKind: "" (read), "assign" (the field itself is replaced) or "content" (an element of the
// container held in the field is changed).
func (la *lockAnalysis) writeKind(sel *ast.SelectorExpr) string {
	if la.writeKindRaw(sel) {
		if la.isContentWrite(sel) {
			return "content"
		}
		return "assign"
	}
	return ""
}

func (la *lockAnalysis) isContentWrite(sel *ast.SelectorExpr) bool {
	p := la.p
	par := p.Parent(sel)
	for {
		if pe, ok := par.(*ast.ParenExpr); ok {
			par = p.Parent(pe)
			continue
		}
		break
	}
	switch x := par.(type) {
	case *ast.IndexExpr:
		return x.X == ast.Expr(sel)
	case *ast.CallExpr:
		return true // delete(x.f, k)
	case *ast.SelectorExpr:
		return true // x.f.Mutate()
	}
	return false
}

func (la *lockAnalysis) writeKindRaw(sel *ast.SelectorExpr) bool {
	p := la.p
	var child ast.Node = sel
	for {
		par := p.Parent(child)
		switch x := par.(type) {
		case *ast.ParenExpr:
			child = x
			continue
		case *ast.IndexExpr:
			if x.X == child {
				child = x
				continue
			}
			return false
		case *ast.SliceExpr:
			return false
		case *ast.StarExpr:
			child = x
			continue
		case *ast.AssignStmt:
			for _, l := range x.Lhs {
				if l == child {
					return true
				}
			}
			return false
		case *ast.IncDecStmt:
			return x.X == child
		case *ast.UnaryExpr:
			return x.Op == token.AND
		case *ast.RangeStmt:
			return (x.Key == child || x.Value == child) && x.Tok == token.ASSIGN
		case *ast.CallExpr:
			if id, ok := unparen(x.Fun).(*ast.Ident); ok && id.Name == "delete" && len(x.Args) == 2 && x.Args[0] == child {
				return true
			}
			return false
		case *ast.SelectorExpr:
			// x.f.Method(): mutating method on the field value
			if x.X == child {
				if call, ok := p.Parent(x).(*ast.CallExpr); ok && unparen(call.Fun) == ast.Expr(x) {
					if callee := p.Callee(call); callee != nil && (p.isMutating(callee) || lockExternalMutators[p.FuncName(callee)]) {
						// through a pointer only pointees known to be unsynchronised data count
						// (a pointee with its own lock protects itself; service objects are not ledgers)
						if _, isPtr := p.TypeOf(sel).Underlying().(*types.Pointer); isPtr {
							return lockUnsyncPointees[p.TypeName(p.TypeOf(sel))] || lockExternalMutators[p.FuncName(callee)]
						}
						return true
					}
				}
			}
			return false
		default:
			return false
		}
	}
}

// inferCtor: parameter k of F is "under construction" when F has at least one static call site and
// at every call site the argument is a fresh local of the caller or itself an under-construction
// parameter of the caller (greatest fixpoint).
func (la *lockAnalysis) inferCtor() {
	p := la.p
	la.ctor = map[*Func]map[int]bool{}
	// start optimistic for every method/function parameter of a lock-struct pointer type
	for _, fn := range p.funcs {
		if fn.Decl.Body == nil || len(p.CallSites(fn.Obj)) == 0 {
			continue
		}
		m := map[int]bool{}
		if r := p.recvObj(fn); r != nil && la.structs[p.TypeName(r.Type())] != nil {
			m[-1] = true
		}
		for i := 0; ; i++ {
			po := paramObj(p, fn, i)
			if po == nil {
				if paramIdent(fn, i) == nil {
					break
				}
				continue
			}
			if la.structs[p.TypeName(po.Type())] != nil {
				m[i] = true
			}
		}
		if len(m) > 0 {
			la.ctor[fn] = m
		}
	}
	for changed := true; changed; {
		changed = false
		for fn, m := range la.ctor {
			for k := range m {
				ok := true
				for _, cs := range p.CallSites(fn.Obj) {
					var arg ast.Expr
					if k == -1 {
						arg = Recv(cs.Call)
					} else if k < len(cs.Call.Args) {
						arg = cs.Call.Args[k]
					}
					if arg == nil {
						ok = false
						break
					}
					if la.freshLocal(cs.Caller, arg) {
						continue
					}
					if pk, isP := la.paramIndexOf(cs.Caller, arg); isP && la.ctor[cs.Caller][pk] {
						continue
					}
					ok = false
					break
				}
				if !ok {
					delete(m, k)
					changed = true
				}
			}
		}
	}
}

// underConstruction: the owner expression denotes an object that no other goroutine can see yet.
func (la *lockAnalysis) underConstruction(fn *Func, owner ast.Expr) bool {
	if la.freshLocal(fn, owner) {
		return true
	}
	if k, ok := la.paramIndexOf(fn, owner); ok && la.ctor[fn][k] {
		return true
	}
	return false
}

// inferGuarded: a field is guarded when it is written by at least one function outside
// construction (owner not a fresh local, not a composite literal).
func (la *lockAnalysis) inferGuarded() {
	p := la.p
	for _, fn := range p.funcs {
		if fn.Decl.Body == nil {
			continue
		}
		ast.Inspect(fn.Decl.Body, func(n ast.Node) bool {
			sel, ok := n.(*ast.SelectorExpr)
			if !ok {
				return true
			}
			f := p.SelField(sel)
			if f == nil {
				return true
			}
			ls := la.byField[f]
			if ls == nil || !la.isWriteContext(sel) {
				return true
			}
			if la.underConstruction(fn, sel.X) {
				return true
			}
			if _, testOnly := lockTestOnly[fn.Name]; testOnly {
				return true
			}
			ls.Guarded[f] = true
			if la.writeKind(sel) == "assign" {
				ls.Reassigned[f] = true
			} else if _, isPtr := p.TypeOf(sel).Underlying().(*types.Pointer); isPtr && lockUnsyncPointees[p.TypeName(p.TypeOf(sel))] {
				// Prune() is only applied to the object that was stored into the field in the same
				// critical section (replace-then-prune idiom): readers holding the previous object are unaffected
				if ps, isSel := p.Parent(sel).(*ast.SelectorExpr); !isSel || ps.Sel.Name != "Prune" {
					ls.PtrMutated[f] = true
				}
			} else {
				switch p.TypeOf(sel).Underlying().(type) {
				case *types.Map, *types.Slice:
					if _, has := ls.ContentMut[f]; !has {
						ls.ContentMut[f] = p.Pos(sel) + " in " + fn.Name
					}
				}
			}
			return true
		})
	}
}

// paramIndexOf: e is a plain identifier denoting the receiver (-1) or a parameter of fn.
func (la *lockAnalysis) paramIndexOf(fn *Func, e ast.Expr) (int, bool) {
	p := la.p
	id, ok := unparen(e).(*ast.Ident)
	if !ok {
		return 0, false
	}
	o := p.ObjOf(id)
	if o == nil {
		return 0, false
	}
	if p.recvObj(fn) == o {
		return -1, true
	}
	for i := 0; ; i++ {
		po := paramObj(p, fn, i)
		if po == nil {
			break
		}
		if po == o {
			if p.Walk(fn).assignCount[o] > 0 {
				return 0, false
			}
			return i, true
		}
	}
	return 0, false
}

func (la *lockAnalysis) rootReassigned(fn *Func, e ast.Expr) bool {
	p := la.p
	id := p.rootIdent(e)
	if id == nil {
		return false
	}
	o := p.ObjOf(id)
	if o == nil {
		return false
	}
	if p.recvObj(fn) == o {
		return p.Walk(fn).assignCount[o] > 0
	}
	return p.Walk(fn).assignCount[o] > 1
}

// solve: collect accesses, compute requires/acquires summaries to a fixpoint, discharge at call sites.
func (la *lockAnalysis) solve() {
	p := la.p
	// 1. direct accesses
	for _, fn := range p.funcs {
		lf := la.funcs[fn]
		if lf == nil {
			continue
		}
		ast.Inspect(fn.Decl.Body, func(n ast.Node) bool {
			sel, ok := n.(*ast.SelectorExpr)
			if !ok {
				return true
			}
			f := p.SelField(sel)
			if f == nil {
				return true
			}
			ls := la.byField[f]
			if ls == nil || !ls.Guarded[f] {
				return true
			}
			acc := &lockAccess{Fn: fn, Node: sel, Field: f, Struct: ls, Write: la.isWriteContext(sel), Owner: sel.X}
			if !acc.Write && !ls.Reassigned[f] && !ls.PtrMutated[f] && !la.readsContent(sel) {
				return true // copying the value of a field that is never replaced after construction
			}
			la.accesses = append(la.accesses, acc)
			need := 1
			if acc.Write {
				need = 2
			}
			if la.underConstruction(fn, sel.X) {
				acc.Status = "fresh"
				return true
			}
			if _, testOnly := lockTestOnly[fn.Name]; testOnly {
				acc.Status = "fresh"
				return true
			}
			st := lf.stateAt(sel)
			held := 0
			if st != nil && !la.rootReassigned(fn, sel.X) {
				held = st[ownerKey(sel.X)]
			}
			if a := la.assumed(fn, sel.X); a > held {
				held = a
			}
			acc.Held = held
			if held >= need {
				acc.Status = "held"
				return true
			}
			b := lf.enclosingBody(sel)
			if k, ok := la.paramIndexOf(fn, sel.X); ok && b != nil && !b.async {
				acc.Status = "requires"
				la.addReq(lf, k, need, fmt.Sprintf("access to %s.%s at %s", ls.Name, f.Name(), p.Pos(sel)), sel, map[*lockAccess]bool{acc: true})
				return true
			}
			acc.Status = "violation"
			if b != nil && b.async {
				acc.Why = "inside a goroutine / stored closure that starts without the lock"
			}
			return true
		})
	}
	// 2. direct acquires
	for _, fn := range p.funcs {
		lf := la.funcs[fn]
		if lf == nil {
			continue
		}
		ast.Inspect(fn.Decl.Body, func(n ast.Node) bool {
			switch x := n.(type) {
			case *ast.FuncLit:
				// locks taken inside goroutines / stored closures are not taken by the caller
				if b := lf.enclosingBody(x.Body); b != nil && b.async {
					return false
				}
			case *ast.GoStmt:
				return false
			case *ast.CallExpr:
				op, owner := p.lockOp(x)
				if op != "Lock" && op != "RLock" {
					return true
				}
				lvl := 2
				if op == "RLock" {
					lvl = 1
				}
				if k, ok := la.paramIndexOf(fn, owner); ok {
					if lf.acquires[k] < lvl {
						lf.acquires[k] = lvl
					}
				}
				if t := p.TypeOf(owner); t != nil {
					lf.acqTypes[p.TypeName(t)] = true
				}
			}
			return true
		})
	}
	// 3. fixpoint over call sites
	for iter := 0; iter < 30; iter++ {
		changed := false
		la.callViol = nil
		for _, fn := range p.funcs {
			lf := la.funcs[fn]
			if lf == nil {
				continue
			}
			ast.Inspect(fn.Decl.Body, func(n ast.Node) bool {
				call, ok := n.(*ast.CallExpr)
				if !ok {
					return true
				}
				callee := p.Callee(call)
				if callee == nil {
					return true
				}
				cf := p.FuncOf[callee]
				if cf == nil {
					// interface method: the lock types any module implementation may take
					if _, isGo := p.Parent(call).(*ast.GoStmt); !isGo {
						if _, isDefer := p.Parent(call).(*ast.DeferStmt); !isDefer {
							for _, impl := range p.Implementations(callee) {
								if ilf := la.funcs[impl]; ilf != nil {
									for t := range ilf.acqTypes {
										if !lf.acqTypes[t] {
											lf.acqTypes[t] = true
											changed = true
										}
									}
								}
							}
						}
					}
					return true
				}
				clf := la.funcs[cf]
				if clf == nil {
					return true
				}
				b := lf.enclosingBody(call)
				if _, isGo := p.Parent(call).(*ast.GoStmt); isGo {
					// the callee runs in a new goroutine: requirements cannot be discharged by the spawner
					for k, rq := range clf.requires {
						la.callViol = append(la.callViol, lockCallViolation{fn, call, cf, k, rq.Level, 0, "started with `go`: " + rq.Why})
					}
					return true
				}
				argOf := func(k int) ast.Expr {
					if k == -1 {
						return Recv(call)
					}
					if k < len(call.Args) {
						return call.Args[k]
					}
					return nil
				}
				for k, rq := range clf.requires {
					arg := argOf(k)
					if arg == nil {
						continue
					}
					if la.underConstruction(fn, arg) {
						continue
					}
					st := lf.stateAt(call)
					held := 0
					if st != nil && !la.rootReassigned(fn, arg) {
						held = st[ownerKey(arg)]
					}
					if a := la.assumed(fn, arg); a > held {
						held = a
					}
					if held >= rq.Level {
						continue
					}
					if pk, ok := la.paramIndexOf(fn, arg); ok && b != nil && !b.async {
						if la.addReq(lf, pk, rq.Level, "call of "+cf.Name+" ("+rq.Why+")", call, rq.Roots) {
							changed = true
						}
						continue
					}
					la.callViol = append(la.callViol, lockCallViolation{fn, call, cf, k, rq.Level, held, rq.Why})
				}
				inAsync := b != nil && b.async
				if _, isDefer := p.Parent(call).(*ast.DeferStmt); !inAsync && !isDefer {
					for k, lvl := range clf.acquires {
						arg := argOf(k)
						if arg == nil {
							continue
						}
						if pk, ok := la.paramIndexOf(fn, arg); ok {
							if lf.acquires[pk] < lvl {
								lf.acquires[pk] = lvl
								changed = true
							}
						}
					}
					for t := range clf.acqTypes {
						if !lf.acqTypes[t] {
							lf.acqTypes[t] = true
							changed = true
						}
					}
				}
				return true
			})
		}
		if !changed {
			break
		}
	}
	// attribute every undischarged call site to the accesses it stems from
	for _, v := range la.callViol {
		rq := la.funcs[v.Callee].requires[v.Param]
		if rq == nil {
			continue
		}
		for r := range rq.Roots {
			r.Failed = append(r.Failed, fmt.Sprintf("%s (%s calls %s without the lock, held level %d, needed %d)", p.Pos(v.Call), v.Caller.Name, v.Callee.Name, v.Held, v.Level))
		}
	}
	// requirements that end at a function nobody calls statically (exported API, Stringer, dead code)
	for _, fn := range p.funcs {
		lf := la.funcs[fn]
		if lf == nil || len(lf.requires) == 0 || len(p.CallSites(fn.Obj)) > 0 {
			continue
		}
		for _, rq := range lf.requires {
			for r := range rq.Roots {
				r.Failed = append(r.Failed, "no static caller of "+fn.Name+" establishes the lock (exported entry point, Stringer or dead code)")
			}
		}
	}
}

func (la *lockAnalysis) addReq(lf *lkFunc, k, level int, why string, n ast.Node, roots map[*lockAccess]bool) bool {
	old, ok := lf.requires[k]
	if !ok {
		old = &lkReq{Level: level, Why: why, Node: n, Roots: map[*lockAccess]bool{}}
		lf.requires[k] = old
		for r := range roots {
			old.Roots[r] = true
		}
		return true
	}
	changed := false
	for r := range roots {
		if !old.Roots[r] {
			old.Roots[r] = true
			changed = true
		}
	}
	if old.Level < level {
		old.Level = level
		old.Why = why
		old.Node = n
		changed = true
	}
	return changed
}

// Reentrancy lists call sites where a function that acquires the lock of parameter k is called
// while the caller already holds that lock (self-deadlock with a non-reentrant RWMutex).
type lockReentry struct {
	Caller *Func
	Call   *ast.CallExpr
	Callee *Func
	Owner  string
	Held   int
	Takes  int
}

func (la *lockAnalysis) Reentrancy() []lockReentry {
	p := la.p
	var out []lockReentry
	for _, fn := range p.funcs {
		lf := la.funcs[fn]
		if lf == nil {
			continue
		}
		ast.Inspect(fn.Decl.Body, func(n ast.Node) bool {
			call, ok := n.(*ast.CallExpr)
			if !ok {
				return true
			}
			if par := p.Parent(call); par != nil {
				if _, isGo := par.(*ast.GoStmt); isGo {
					return true
				}
				if _, isDefer := par.(*ast.DeferStmt); isDefer {
					return true
				}
			}
			callee := p.Callee(call)
			if callee == nil {
				return true
			}
			cf := p.FuncOf[callee]
			if cf == nil || la.funcs[cf] == nil {
				return true
			}
			for k, lvl := range la.funcs[cf].acquires {
				var arg ast.Expr
				if k == -1 {
					arg = Recv(call)
				} else if k < len(call.Args) {
					arg = call.Args[k]
				}
				if arg == nil {
					continue
				}
				st := lf.stateAt(call)
				if st == nil {
					continue
				}
				if held := st[ownerKey(arg)]; held > 0 && lvl > 0 {
					out = append(out, lockReentry{fn, call, cf, ownerKey(arg), held, lvl})
				}
			}
			return true
		})
	}
	return out
}

// TypeEdges computes the type-level "acquired while held" relation: while a lock of an object of
// type A is certainly held, a function that (transitively) acquires a lock of type B is called, or
// a lock of type B is taken directly.
func (la *lockAnalysis) TypeEdges() map[string]map[string]string {
	p := la.p
	edges := map[string]map[string]string{}
	add := func(a, b, ex string) {
		if edges[a] == nil {
			edges[a] = map[string]string{}
		}
		if _, ok := edges[a][b]; !ok {
			edges[a][b] = ex
		}
	}
	for _, fn := range p.funcs {
		lf := la.funcs[fn]
		if lf == nil {
			continue
		}
		ownerTypes := func(st lockState, n ast.Node) map[string]string {
			out := map[string]string{}
			for k, v := range st {
				if v == 0 {
					continue
				}
				if t := la.ownerType(fn, k, n); t != "" {
					out[t] = k
				}
			}
			return out
		}
		ast.Inspect(fn.Decl.Body, func(n ast.Node) bool {
			call, ok := n.(*ast.CallExpr)
			if !ok {
				return true
			}
			if par := p.Parent(call); par != nil {
				if _, isGo := par.(*ast.GoStmt); isGo {
					return true
				}
				if _, isDefer := par.(*ast.DeferStmt); isDefer {
					return true
				}
			}
			st := lf.stateAt(call)
			if len(st) == 0 {
				return true
			}
			held := ownerTypes(st, call)
			if len(held) == 0 {
				return true
			}
			if op, owner := p.lockOp(call); op == "Lock" || op == "RLock" {
				bt := p.TypeName(p.TypeOf(owner))
				for a, hk := range held {
					if hk == ownerKey(owner) {
						continue
					}
					add(a, bt, fmt.Sprintf("%s: %s taken while holding %s (%s)", p.Pos(call), ownerKey(owner), hk, fn.Name))
				}
				return true
			}
			callee := p.Callee(call)
			if callee == nil {
				return true
			}
			cf := p.FuncOf[callee]
			if cf == nil {
				for _, impl := range p.Implementations(callee) {
					if ilf := la.funcs[impl]; ilf != nil {
						for bt := range ilf.acqTypes {
							for a, hk := range held {
								add(a, bt, fmt.Sprintf("%s: %s (interface call, implementation %s) called while holding %s (%s)", p.Pos(call), p.FuncName(callee), impl.Name, hk, fn.Name))
							}
						}
					}
				}
				return true
			}
			if la.funcs[cf] == nil {
				return true
			}
			for bt := range la.funcs[cf].acqTypes {
				for a, hk := range held {
					add(a, bt, fmt.Sprintf("%s: %s called while holding %s (%s)", p.Pos(call), cf.Name, hk, fn.Name))
				}
			}
			return true
		})
	}
	return edges
}

// ownerType resolves the type name of the owner expression named by key inside fn (best effort:
// the first expression in fn with that source text).
func (la *lockAnalysis) ownerType(fn *Func, key string, near ast.Node) string {
	p := la.p
	res := ""
	ast.Inspect(fn.Decl.Body, func(n ast.Node) bool {
		if res != "" {
			return false
		}
		if e, ok := n.(ast.Expr); ok {
			switch e.(type) {
			case *ast.Ident, *ast.SelectorExpr:
				if types.ExprString(e) == key {
					if t := p.TypeOf(e); t != nil {
						res = p.TypeName(t)
					}
				}
			}
		}
		return true
	})
	return res
}

// sortedStructNames lists the lock-bearing structs.
func (la *lockAnalysis) sortedStructNames() []string {
	var out []string
	for k := range la.structs {
		out = append(out, k)
	}
	sort.Strings(out)
	return out
}

// SameTypeSites lists the call sites where, while the lock of an object of type T is held, a
// function is called that takes the lock of ANOTHER expression of the same type T.
type sameTypeSite struct {
	Fn    *Func
	Call  *ast.CallExpr
	Held  string
	Other string
	Type  string
}

func (la *lockAnalysis) SameTypeSites() []sameTypeSite {
	p := la.p
	var out []sameTypeSite
	for _, fn := range p.funcs {
		lf := la.funcs[fn]
		if lf == nil {
			continue
		}
		ast.Inspect(fn.Decl.Body, func(n ast.Node) bool {
			call, ok := n.(*ast.CallExpr)
			if !ok {
				return true
			}
			if par := p.Parent(call); par != nil {
				if _, isGo := par.(*ast.GoStmt); isGo {
					return true
				}
				if _, isDefer := par.(*ast.DeferStmt); isDefer {
					return true
				}
			}
			st := lf.stateAt(call)
			if len(st) == 0 {
				return true
			}
			type cand struct {
				arg ast.Expr
			}
			var cands []ast.Expr
			if op, owner := p.lockOp(call); op == "Lock" || op == "RLock" {
				cands = append(cands, owner)
			} else if callee := p.Callee(call); callee != nil {
				if cf := p.FuncOf[callee]; cf != nil && la.funcs[cf] != nil {
					for k := range la.funcs[cf].acquires {
						if k == -1 {
							if r := Recv(call); r != nil {
								cands = append(cands, r)
							}
						} else if k < len(call.Args) {
							cands = append(cands, call.Args[k])
						}
					}
				}
			}
			for _, arg := range cands {
				at := p.TypeName(p.TypeOf(arg))
				for k, v := range st {
					if v == 0 || k == ownerKey(arg) {
						continue
					}
					if la.ownerType(fn, k, call) == at {
						out = append(out, sameTypeSite{fn, call, k, ownerKey(arg), at})
					}
				}
			}
			return true
		})
	}
	return out
}

var implCache = map[*types.Func][]*Func{}

// Implementations: the module methods that an interface-method call may dispatch to.
func (p *Prog) Implementations(m *types.Func) []*Func {
	if r, ok := implCache[m]; ok {
		return r
	}
	var out []*Func
	sig, _ := m.Type().(*types.Signature)
	if sig == nil || sig.Recv() == nil {
		implCache[m] = nil
		return nil
	}
	iface, _ := sig.Recv().Type().Underlying().(*types.Interface)
	if iface == nil {
		implCache[m] = nil
		return nil
	}
	for _, fn := range p.funcs {
		if fn.Obj.Name() != m.Name() || fn.Decl.Recv == nil {
			continue
		}
		fs, _ := fn.Obj.Type().(*types.Signature)
		if fs == nil || fs.Recv() == nil {
			continue
		}
		rt := fs.Recv().Type()
		if types.Implements(rt, iface) || types.Implements(types.NewPointer(rt), iface) {
			out = append(out, fn)
		}
	}
	implCache[m] = out
	return out
}
