package main

// E2: structured path-condition walker.
//
// For every function it computes, at every expression and statement, the set of
// branch conditions that are known to hold (facts), the reaching definition of
// every local (env) and the calls that have certainly been executed before (done).
// Everything is a MUST fact: joins intersect.  No labelled branches / goto are
// supported; their presence makes the function "undecided".

import (
	"go/ast"
	"go/token"
	"go/types"
)

type DefKind int

const (
	DefAssign DefKind = iota
	DefRangeKey
	DefRangeVal
	DefCommaOk // second value of v, ok := m[k] / x.(T) / <-c
	DefTypeSwitch
)

type Def struct {
	Rhs   ast.Expr // defining expression (for range: the ranged expression)
	Idx   int      // tuple index of a multi-value call, -1 otherwise
	Kind  DefKind
	Env   *Env // environment at the definition (to resolve Rhs further)
	Param bool // binding of a parameter of an extracted-block helper to the argument at its sole call site
}

type Env struct {
	m map[types.Object]*Def
}

func (e *Env) get(o types.Object) *Def {
	if e == nil {
		return nil
	}
	return e.m[o]
}

func (e *Env) with(o types.Object, d *Def) *Env {
	n := &Env{m: make(map[types.Object]*Def, len(e.m)+1)}
	for k, v := range e.m {
		n.m[k] = v
	}
	if d == nil {
		delete(n.m, o)
	} else {
		n.m[o] = d
	}
	return n
}

type Fact struct {
	E      ast.Expr
	Val    bool
	Alt    [][]*Fact // disjunction created at a join: one of the alternatives (each a conjunction) holds
	Env    *Env
	Frozen map[types.Object]bool // idents that were reassigned after the test: only valid through Env
	objs   map[types.Object]bool
	fields map[*types.Var]bool
}

type State struct {
	Facts []*Fact
	Env   *Env
	Done  []ast.Node // calls that have certainly executed before this point (ordered)
	Dead  bool
}

func (s *State) clone() *State {
	return &State{Facts: s.Facts[:len(s.Facts):len(s.Facts)], Env: s.Env, Done: s.Done[:len(s.Done):len(s.Done)], Dead: s.Dead}
}

type walkResult struct {
	at             map[ast.Node]*State
	undecided      []string
	deferred       map[ast.Node]bool // call nodes that are deferred
	inGo           map[ast.Node]bool
	exits          []exitPoint
	inheritedFacts map[*Fact]bool // facts taken over from the sole call site
	inherited      int            // number of Done entries inherited from the sole call site (extracted-block helper)
	mustDone       []ast.Node     // calls executed on every returning path (beyond the inherited ones)
	assignCount    map[types.Object]int
	endOf          map[ast.Node]*State // state at the fall-through end of an if/else/loop body block
}

type exitPoint struct {
	Node  ast.Node // ReturnStmt or the function body (fallthrough end)
	State *State
	Lit   *ast.FuncLit // non-nil if the exit belongs to a function literal
}

type walker struct {
	p       *Prog
	fn      *Func
	res     *walkResult
	nassign map[types.Object]int
	addrOf  map[types.Object]bool
	breaks  []*[]*State // innermost last: collectors for switch/select breaks (nil entry for loops)
	curLit  *ast.FuncLit
}

// Walk returns (cached) the per-node states of fn.
func (p *Prog) Walk(fn *Func) *walkResult {
	if r, ok := p.walks[fn]; ok {
		return r
	}
	if p.inWalk == nil {
		p.inWalk = map[*Func]bool{}
	}
	hs := p.HelperSite(fn)
	if hs != nil && !p.inWalk[hs.Caller] {
		// walk the caller first: it walks this helper in context when it reaches the call
		p.Walk(hs.Caller)
		if r, ok := p.walks[fn]; ok {
			return r
		}
	}
	p.inWalk[fn] = true
	defer delete(p.inWalk, fn)
	w := &walker{p: p, fn: fn, res: &walkResult{at: map[ast.Node]*State{}, deferred: map[ast.Node]bool{}, inGo: map[ast.Node]bool{}, endOf: map[ast.Node]*State{}},
		nassign: map[types.Object]int{}, addrOf: map[types.Object]bool{}}
	p.walks[fn] = w.res
	w.res.assignCount = w.nassign
	if fn.Decl.Body == nil {
		return w.res
	}
	ast.Inspect(fn.Decl.Body, func(n ast.Node) bool {
		switch x := n.(type) {
		case *ast.LabeledStmt:
			w.res.undecided = append(w.res.undecided, "labelled statement at "+p.Pos(x))
		case *ast.BranchStmt:
			if x.Label != nil || x.Tok == token.GOTO {
				w.res.undecided = append(w.res.undecided, "labelled branch/goto at "+p.Pos(x))
			}
		case *ast.AssignStmt:
			for _, l := range x.Lhs {
				if id, ok := unparen(l).(*ast.Ident); ok {
					if o := p.ObjOf(id); o != nil {
						w.nassign[o]++
					}
				}
			}
		case *ast.IncDecStmt:
			if id, ok := unparen(x.X).(*ast.Ident); ok {
				if o := p.ObjOf(id); o != nil {
					w.nassign[o] += 2
				}
			}
		case *ast.RangeStmt:
			for _, l := range []ast.Expr{x.Key, x.Value} {
				if id, ok := l.(*ast.Ident); ok && id != nil {
					if o := p.ObjOf(id); o != nil {
						w.nassign[o]++
					}
				}
			}
		case *ast.UnaryExpr:
			if x.Op == token.AND {
				if id, ok := unparen(x.X).(*ast.Ident); ok {
					if o := p.ObjOf(id); o != nil {
						w.addrOf[o] = true
					}
				}
			}
		case *ast.ValueSpec:
			for _, id := range x.Names {
				if o := p.ObjOf(id); o != nil && len(x.Values) > 0 {
					w.nassign[o]++
				}
			}
		}
		return true
	})
	st := &State{Env: &Env{m: map[types.Object]*Def{}}}
	if hs != nil && !hs.Recursive {
		if cr := p.walks[hs.Caller]; cr != nil {
			if cst := cr.at[hs.Call]; cst != nil && !cst.Dead {
				st = w.inheritState(hs, cst)
				w.res.inherited = len(st.Done)
				w.res.inheritedFacts = map[*Fact]bool{}
				for _, f := range st.Facts {
					w.res.inheritedFacts[f] = true
				}
			}
		}
	}
	end := w.block(fn.Decl.Body.List, st)
	if !end.Dead {
		w.res.exits = append(w.res.exits, exitPoint{Node: fn.Decl.Body, State: end})
	}
	// calls executed on every returning path
	first := true
	var must []ast.Node
	for _, ex := range w.res.exits {
		if ex.Lit != nil || ex.State == nil || ex.State.Dead {
			continue
		}
		own := ex.State.Done
		if len(own) >= w.res.inherited {
			own = own[w.res.inherited:]
		}
		if first {
			must = append(must, own...)
			first = false
			continue
		}
		in := map[ast.Node]bool{}
		for _, n := range own {
			in[n] = true
		}
		var keep []ast.Node
		for _, n := range must {
			if in[n] {
				keep = append(keep, n)
			}
		}
		must = keep
	}
	w.res.mustDone = must
	return w.res
}

// StateAt gives the state holding just before node n executes (n inside fn).
func (p *Prog) StateAt(fn *Func, n ast.Node) *State {
	r := p.Walk(fn)
	if st, ok := r.at[n]; ok {
		return st
	}
	// a node of an extracted-block helper of fn (callsInDeep)
	if n != nil {
		if owner := p.EnclosingFunc(n.Pos()); owner != nil && owner != fn {
			return p.Walk(owner).at[n]
		}
	}
	return nil
}

func (w *walker) record(n ast.Node, st *State) {
	if _, ok := w.res.at[n]; !ok {
		w.res.at[n] = st
	}
}

// ---------------------------------------------------------------- statements

func (w *walker) block(list []ast.Stmt, st *State) *State {
	for _, s := range list {
		if st.Dead {
			// still record unreachable statements with a dead state
			w.record(s, st)
			continue
		}
		st = w.stmt(s, st)
	}
	return st
}

func dead(st *State) *State {
	n := st.clone()
	n.Dead = true
	return n
}

func (w *walker) stmt(s ast.Stmt, st *State) *State {
	w.record(s, st)
	switch x := s.(type) {
	case *ast.BlockStmt:
		return w.block(x.List, st)
	case *ast.ExprStmt:
		st = w.expr(x.X, st)
		if call, ok := unparen(x.X).(*ast.CallExpr); ok && w.noReturn(call) {
			return dead(st)
		}
		return st
	case *ast.AssignStmt:
		return w.assign(x, st)
	case *ast.DeclStmt:
		gd, ok := x.Decl.(*ast.GenDecl)
		if !ok {
			return st
		}
		for _, sp := range gd.Specs {
			vs, ok := sp.(*ast.ValueSpec)
			if !ok {
				continue
			}
			for _, v := range vs.Values {
				st = w.expr(v, st)
			}
			for i, id := range vs.Names {
				o := w.p.ObjOf(id)
				if o == nil {
					continue
				}
				var d *Def
				if len(vs.Values) == len(vs.Names) {
					d = &Def{Rhs: vs.Values[i], Idx: -1, Env: st.Env}
				} else if len(vs.Values) == 1 {
					d = &Def{Rhs: vs.Values[0], Idx: i, Env: st.Env}
				} else if len(vs.Values) == 0 {
					d = &Def{Rhs: nil, Idx: -1, Env: st.Env} // zero value
				}
				st = w.setVar(st, o, d)
			}
		}
		return st
	case *ast.IncDecStmt:
		st = w.expr(x.X, st)
		{
			n := st.clone()
			n.Done = append(n.Done, x)
			st = n
		}
		return w.kill(st, x.X)
	case *ast.ReturnStmt:
		for _, r := range x.Results {
			st = w.expr(r, st)
		}
		w.res.at[x] = st // state after evaluating results
		w.res.exits = append(w.res.exits, exitPoint{Node: x, State: st, Lit: w.curLit})
		return dead(st)
	case *ast.BranchStmt:
		if x.Tok == token.BREAK && len(w.breaks) > 0 {
			if c := w.breaks[len(w.breaks)-1]; c != nil {
				*c = append(*c, st)
			}
		}
		if x.Tok == token.FALLTHROUGH {
			w.res.undecided = append(w.res.undecided, "fallthrough at "+w.p.Pos(x))
		}
		return dead(st)
	case *ast.IfStmt:
		if x.Init != nil {
			st = w.stmt(x.Init, st)
		}
		t, f := w.cond(x.Cond, st)
		tEnd := w.block(x.Body.List, t)
		w.res.endOf[x.Body] = tEnd
		var fEnd *State
		if x.Else != nil {
			fEnd = w.stmt(x.Else, f)
			w.res.endOf[x.Else] = fEnd
		} else {
			fEnd = f
		}
		return join(tEnd, fEnd)
	case *ast.ForStmt:
		if x.Init != nil {
			st = w.stmt(x.Init, st)
		}
		entry := w.killAssigned(st, x)
		body := entry
		if x.Cond != nil {
			body, _ = w.cond(x.Cond, entry)
		}
		w.breaks = append(w.breaks, nil)
		end := w.block(x.Body.List, body)
		w.res.endOf[x.Body] = end
		w.breaks = w.breaks[:len(w.breaks)-1]
		if x.Post != nil && !end.Dead {
			w.stmt(x.Post, end)
		}
		if x.Cond == nil && !hasBreak(x.Body) {
			return dead(entry) // for {} without break never falls out
		}
		return entry
	case *ast.RangeStmt:
		st = w.expr(x.X, st)
		entry := w.killAssigned(st, x)
		body := entry
		for i, l := range []ast.Expr{x.Key, x.Value} {
			if l == nil {
				continue
			}
			if id, ok := l.(*ast.Ident); ok {
				if o := w.p.ObjOf(id); o != nil {
					k := DefRangeKey
					if i == 1 {
						k = DefRangeVal
					}
					body = w.setVar(body, o, &Def{Rhs: x.X, Idx: -1, Kind: k, Env: st.Env})
				}
			} else {
				body = w.kill(body, l)
			}
		}
		w.breaks = append(w.breaks, nil)
		w.res.endOf[x.Body] = w.block(x.Body.List, body)
		w.breaks = w.breaks[:len(w.breaks)-1]
		return entry
	case *ast.SwitchStmt:
		if x.Init != nil {
			st = w.stmt(x.Init, st)
		}
		if x.Tag != nil {
			st = w.expr(x.Tag, st)
		}
		var ends []*State
		var collector []*State
		w.breaks = append(w.breaks, &collector)
		noMatch := st
		hasDefault := false
		for _, c := range x.Body.List {
			cc := c.(*ast.CaseClause)
			w.record(cc, noMatch)
			if cc.List == nil {
				hasDefault = true
				// default: none of the other cases matched (only sound when it is last; we
				// use the facts accumulated so far which is sound for clauses seen before it)
				ends = append(ends, w.block(cc.Body, noMatch))
				continue
			}
			var in *State
			if x.Tag == nil && len(cc.List) == 1 {
				t, f := w.cond(cc.List[0], noMatch)
				in, noMatch = t, f
			} else if x.Tag != nil && len(cc.List) == 1 {
				w.expr(cc.List[0], noMatch)
				eq := &ast.BinaryExpr{X: x.Tag, Op: token.EQL, Y: cc.List[0], OpPos: cc.Pos()}
				in = w.addFact(noMatch, eq, true)
				noMatch = w.addFact(noMatch, eq, false)
			} else {
				// multiple expressions: the disjunction holds on entry; negations on exit
				in = noMatch
				var or ast.Expr
				for _, e := range cc.List {
					w.expr(e, noMatch)
					var alt ast.Expr = e
					if x.Tag != nil {
						eq := &ast.BinaryExpr{X: x.Tag, Op: token.EQL, Y: e, OpPos: cc.Pos()}
						alt = eq
						noMatch = w.addFact(noMatch, eq, false)
					} else {
						_, noMatch = w.cond(e, noMatch)
					}
					if or == nil {
						or = alt
					} else {
						or = &ast.BinaryExpr{X: or, Op: token.LOR, Y: alt, OpPos: cc.Pos()}
					}
				}
				in = w.addFact(in, or, true)
			}
			ends = append(ends, w.block(cc.Body, in))
		}
		w.breaks = w.breaks[:len(w.breaks)-1]
		if !hasDefault {
			ends = append(ends, noMatch)
		}
		ends = append(ends, collector...)
		return joinAll(st, ends)
	case *ast.TypeSwitchStmt:
		if x.Init != nil {
			st = w.stmt(x.Init, st)
		}
		var subject ast.Expr
		var bound *ast.Ident
		switch a := x.Assign.(type) {
		case *ast.AssignStmt:
			if ta, ok := unparen(a.Rhs[0]).(*ast.TypeAssertExpr); ok {
				subject = ta.X
			}
			bound, _ = a.Lhs[0].(*ast.Ident)
		case *ast.ExprStmt:
			if ta, ok := unparen(a.X).(*ast.TypeAssertExpr); ok {
				subject = ta.X
			}
		}
		if subject != nil {
			st = w.expr(subject, st)
		}
		_ = bound
		var ends []*State
		var collector []*State
		w.breaks = append(w.breaks, &collector)
		hasDefault := false
		for _, c := range x.Body.List {
			cc := c.(*ast.CaseClause)
			w.record(cc, st)
			if cc.List == nil {
				hasDefault = true
			}
			in := st
			if o := w.p.Info.Implicits[cc]; o != nil && subject != nil {
				in = w.setVar(in, o, &Def{Rhs: subject, Idx: -1, Kind: DefTypeSwitch, Env: st.Env})
			}
			ends = append(ends, w.block(cc.Body, in))
		}
		w.breaks = w.breaks[:len(w.breaks)-1]
		if !hasDefault {
			ends = append(ends, st)
		}
		ends = append(ends, collector...)
		return joinAll(st, ends)
	case *ast.SelectStmt:
		var ends []*State
		var collector []*State
		w.breaks = append(w.breaks, &collector)
		for _, c := range x.Body.List {
			cc := c.(*ast.CommClause)
			in := st
			if cc.Comm != nil {
				in = w.stmt(cc.Comm, st)
			}
			ends = append(ends, w.block(cc.Body, in))
		}
		w.breaks = w.breaks[:len(w.breaks)-1]
		ends = append(ends, collector...)
		if len(x.Body.List) == 0 {
			return dead(st)
		}
		return joinAll(st, ends)
	case *ast.GoStmt:
		for _, a := range x.Call.Args {
			st = w.expr(a, st)
		}
		w.res.inGo[x.Call] = true
		if lit, ok := unparen(x.Call.Fun).(*ast.FuncLit); ok {
			w.funcLit(lit, st, false)
		} else {
			st = w.expr(x.Call.Fun, st)
		}
		w.record(x.Call, st)
		return st
	case *ast.DeferStmt:
		for _, a := range x.Call.Args {
			st = w.expr(a, st)
		}
		w.res.deferred[x.Call] = true
		if lit, ok := unparen(x.Call.Fun).(*ast.FuncLit); ok {
			w.funcLit(lit, st, false)
			st = w.killLitAssigned(st, lit)
		} else {
			st = w.expr(x.Call.Fun, st)
		}
		w.record(x.Call, st)
		{
			n := st.clone()
			n.Done = append(n.Done, x.Call) // registered deferred call (see walkResult.deferred)
			st = n
		}
		return st
	case *ast.SendStmt:
		st = w.expr(x.Chan, st)
		return w.expr(x.Value, st)
	case *ast.LabeledStmt:
		return w.stmt(x.Stmt, st)
	case *ast.EmptyStmt:
		return st
	}
	w.res.undecided = append(w.res.undecided, "unhandled statement at "+w.p.Pos(s))
	return st
}

func hasBreak(body *ast.BlockStmt) bool {
	found := false
	var visit func(n ast.Node, depth int)
	visit = func(n ast.Node, depth int) {
		ast.Inspect(n, func(m ast.Node) bool {
			if m == nil || found {
				return false
			}
			switch x := m.(type) {
			case *ast.FuncLit:
				return false
			case *ast.ForStmt, *ast.RangeStmt, *ast.SwitchStmt, *ast.TypeSwitchStmt, *ast.SelectStmt:
				if m != n {
					// break inside binds to the inner statement; but a return is not a break. skip
					return false
				}
			case *ast.BranchStmt:
				if x.Tok == token.BREAK {
					found = true
				}
			}
			return true
		})
	}
	visit(body, 0)
	return found
}

// noReturn: calls that never return.
func (w *walker) noReturn(call *ast.CallExpr) bool {
	if id, ok := unparen(call.Fun).(*ast.Ident); ok && id.Name == "panic" {
		if _, isBuiltin := w.p.ObjOf(id).(*types.Builtin); isBuiltin {
			return true
		}
	}
	switch w.p.CalleeName(call) {
	case "os.Exit", "log.Fatal", "log.Fatalf", "log.Panic", "log.Panicf", "runtime.Goexit":
		return true
	}
	if f := w.p.Callee(call); f != nil && f.Pkg() != nil && f.Pkg().Path() == "go.uber.org/zap" {
		if f.Name() == "Fatal" || f.Name() == "Panic" {
			return true
		}
	}
	return false
}

func (w *walker) assign(x *ast.AssignStmt, st *State) *State {
	for _, r := range x.Rhs {
		st = w.expr(r, st)
	}
	for _, l := range x.Lhs {
		// evaluate index / selector operands on the left
		switch le := unparen(l).(type) {
		case *ast.IndexExpr:
			st = w.expr(le.X, st)
			st = w.expr(le.Index, st)
		case *ast.SelectorExpr:
			st = w.expr(le.X, st)
		case *ast.StarExpr:
			st = w.expr(le.X, st)
		}
		w.record(l, st)
	}
	w.res.at[x] = st
	{
		n := st.clone()
		n.Done = append(n.Done, x)
		st = n
	}
	for i, l := range x.Lhs {
		id, isIdent := unparen(l).(*ast.Ident)
		if !isIdent {
			st = w.kill(st, l)
			continue
		}
		if id.Name == "_" {
			continue
		}
		o := w.p.ObjOf(id)
		if o == nil {
			continue
		}
		var d *Def
		if x.Tok == token.ASSIGN || x.Tok == token.DEFINE {
			if len(x.Lhs) == len(x.Rhs) {
				d = &Def{Rhs: x.Rhs[i], Idx: -1, Env: st.Env}
			} else if len(x.Rhs) == 1 {
				d = &Def{Rhs: x.Rhs[0], Idx: i, Env: st.Env}
				if i == 1 {
					switch unparen(x.Rhs[0]).(type) {
					case *ast.IndexExpr, *ast.TypeAssertExpr, *ast.UnaryExpr:
						d.Kind = DefCommaOk
					}
				}
			}
		}
		st = w.setVar(st, o, d)
	}
	return st
}

// setVar records a new definition of o and invalidates facts that mention it.
func (w *walker) setVar(st *State, o types.Object, d *Def) *State {
	n := st.clone()
	if w.addrOf[o] {
		d = nil
	}
	oldDef := st.Env.get(o)
	n.Env = st.Env.with(o, d)
	n.Facts = nil
	for _, f := range st.Facts {
		if !f.objs[o] {
			n.Facts = append(n.Facts, f)
			continue
		}
		// a fact that already reads o through its own environment is not affected by a later assignment
		if f.Alt == nil && f.Frozen[o] {
			n.Facts = append(n.Facts, f)
			continue
		}
		// keep the fact only if it can still be read through its own environment
		if f.Alt == nil && oldDef != nil && oldDef.Rhs != nil && f.Env.get(o) == oldDef {
			nf := *f
			nf.Frozen = map[types.Object]bool{o: true}
			for k := range f.Frozen {
				nf.Frozen[k] = true
			}
			n.Facts = append(n.Facts, &nf)
		}
	}
	// a variable assigned a value that is never nil carries the synthetic fact "v != nil"
	if d != nil && d.Rhs != nil && d.Idx == -1 && d.Kind == DefAssign && w.p.neverNil(d.Rhs) {
		if _, isPtr := o.Type().Underlying().(*types.Pointer); isPtr {
			id := &ast.Ident{Name: o.Name(), NamePos: d.Rhs.Pos()}
			w.p.Info.Uses[id] = o
			nilID := &ast.Ident{Name: "nil", NamePos: d.Rhs.Pos()}
			w.p.Info.Uses[nilID] = types.Universe.Lookup("nil")
			n = w.addFact(n, &ast.BinaryExpr{X: id, Op: token.NEQ, Y: nilID, OpPos: d.Rhs.Pos()}, true)
		}
	}
	return n
}

// neverNil: the expression certainly evaluates to a non-nil pointer: &T{...}, new(T), a call of a
// module function all of whose returns are never-nil, or a package-level variable initialised that
// way and never reassigned.
func (p *Prog) neverNil(e ast.Expr) bool {
	return p.neverNilDepth(e, 0)
}

func (p *Prog) neverNilDepth(e ast.Expr, depth int) bool {
	if depth > 4 {
		return false
	}
	switch x := unparen(e).(type) {
	case *ast.UnaryExpr:
		if x.Op == token.AND {
			_, isLit := unparen(x.X).(*ast.CompositeLit)
			return isLit
		}
	case *ast.CallExpr:
		if id, ok := unparen(x.Fun).(*ast.Ident); ok && id.Name == "new" {
			if _, isB := p.ObjOf(id).(*types.Builtin); isB {
				return true
			}
		}
		callee := p.Callee(x)
		if callee == nil {
			return false
		}
		fn := p.FuncOf[callee]
		if fn == nil || fn.Decl.Body == nil || fn.Decl.Recv != nil {
			return false
		}
		if v, ok := p.neverNilFn[fn]; ok {
			return v
		}
		if p.neverNilFn == nil {
			p.neverNilFn = map[*Func]bool{}
		}
		p.neverNilFn[fn] = false // recursion guard
		all, any := true, false
		ast.Inspect(fn.Decl.Body, func(n ast.Node) bool {
			switch r := n.(type) {
			case *ast.FuncLit:
				return false
			case *ast.ReturnStmt:
				any = true
				if len(r.Results) != 1 || !p.neverNilDepth(r.Results[0], depth+1) {
					all = false
				}
			}
			return true
		})
		p.neverNilFn[fn] = all && any
		return all && any
	case *ast.Ident:
		if v, ok := p.ObjOf(x).(*types.Var); ok && v.Pkg() != nil && v.Parent() == v.Pkg().Scope() {
			return p.pkgVarNeverNil(v, depth)
		}
	case *ast.SelectorExpr:
		if v, ok := p.ObjOf(x.Sel).(*types.Var); ok && !v.IsField() && v.Pkg() != nil && v.Parent() == v.Pkg().Scope() {
			return p.pkgVarNeverNil(v, depth)
		}
	}
	return false
}

// pkgVarNeverNil: package-level variable initialised with a never-nil expression and never assigned again.
func (p *Prog) pkgVarNeverNil(v *types.Var, depth int) bool {
	var init ast.Expr
	assigned := false
	for _, pk := range p.Pkgs {
		if pk.Types != v.Pkg() {
			continue
		}
		for _, f := range pk.Syntax {
			ast.Inspect(f, func(n ast.Node) bool {
				switch x := n.(type) {
				case *ast.ValueSpec:
					for i, nm := range x.Names {
						if pk.TypesInfo.Defs[nm] == types.Object(v) && i < len(x.Values) {
							init = x.Values[i]
						}
					}
				case *ast.AssignStmt:
					for _, l := range x.Lhs {
						if id, ok := unparen(l).(*ast.Ident); ok && pk.TypesInfo.Uses[id] == types.Object(v) {
							assigned = true
						}
					}
				}
				return true
			})
		}
	}
	// assignments from other packages (exported variable)
	for _, pk := range p.Pkgs {
		if pk.Types == v.Pkg() {
			continue
		}
		for id, o := range pk.TypesInfo.Uses {
			if o == types.Object(v) {
				if sel, ok := p.Parent(id).(*ast.SelectorExpr); ok {
					if as, ok := p.Parent(sel).(*ast.AssignStmt); ok {
						for _, l := range as.Lhs {
							if unparen(l) == ast.Expr(sel) {
								assigned = true
							}
						}
					}
				}
			}
		}
	}
	return init != nil && !assigned && p.neverNilDepth(init, depth+1)
}

// kill invalidates facts after a write through a non-identifier lvalue (field, index, deref).
func (w *walker) kill(st *State, lhs ast.Expr) *State {
	lhs = unparen(lhs)
	if id, ok := lhs.(*ast.Ident); ok {
		if o := w.p.ObjOf(id); o != nil {
			return w.setVar(st, o, nil)
		}
		return st
	}
	var fld *types.Var
	switch le := lhs.(type) {
	case *ast.SelectorExpr:
		fld = w.p.SelField(le)
	case *ast.IndexExpr:
		fld = w.p.SelField(le.X)
		if fld == nil {
			if id, ok := unparen(le.X).(*ast.Ident); ok {
				if o := w.p.ObjOf(id); o != nil {
					// element write: facts about the container are invalid
					n := st.clone()
					n.Facts = nil
					for _, f := range st.Facts {
						if !f.objs[o] {
							n.Facts = append(n.Facts, f)
						}
					}
					return n
				}
			}
		}
	}
	if fld == nil {
		return st
	}
	n := st.clone()
	n.Facts = nil
	for _, f := range st.Facts {
		if !f.fields[fld] {
			n.Facts = append(n.Facts, f)
		}
	}
	return n
}

// killAssigned invalidates, before a loop, everything the loop assigns.
func (w *walker) killAssigned(st *State, loop ast.Node) *State {
	objs := map[types.Object]bool{}
	var lhss []ast.Expr
	ast.Inspect(loop, func(n ast.Node) bool {
		switch x := n.(type) {
		case *ast.AssignStmt:
			if x == loopInit(loop) {
				return true
			}
			for _, l := range x.Lhs {
				if id, ok := unparen(l).(*ast.Ident); ok {
					if o := w.p.ObjOf(id); o != nil {
						objs[o] = true
					}
				} else {
					lhss = append(lhss, l)
				}
			}
		case *ast.IncDecStmt:
			if id, ok := unparen(x.X).(*ast.Ident); ok {
				if o := w.p.ObjOf(id); o != nil {
					objs[o] = true
				}
			} else {
				lhss = append(lhss, x.X)
			}
		case *ast.RangeStmt:
			for _, l := range []ast.Expr{x.Key, x.Value} {
				if id, ok := l.(*ast.Ident); ok && id != nil {
					if o := w.p.ObjOf(id); o != nil {
						objs[o] = true
					}
				}
			}
		}
		return true
	})
	for o := range objs {
		st = w.setVarNoFreeze(st, o)
	}
	for _, l := range lhss {
		st = w.kill(st, l)
	}
	return st
}

func loopInit(loop ast.Node) ast.Stmt {
	if f, ok := loop.(*ast.ForStmt); ok {
		return f.Init
	}
	return nil
}

func (w *walker) setVarNoFreeze(st *State, o types.Object) *State {
	n := st.clone()
	n.Env = st.Env.with(o, nil)
	n.Facts = nil
	for _, f := range st.Facts {
		if !f.objs[o] {
			n.Facts = append(n.Facts, f)
		}
	}
	return n
}

func (w *walker) killLitAssigned(st *State, lit *ast.FuncLit) *State {
	return w.killAssigned(st, lit.Body)
}

// ---------------------------------------------------------------- expressions

// expr visits e (sub-expressions first, in evaluation order) and returns the state after it.
func (w *walker) expr(e ast.Expr, st *State) *State {
	if e == nil {
		return st
	}
	switch x := e.(type) {
	case *ast.ParenExpr:
		st = w.expr(x.X, st)
		w.record(e, st)
		return st
	case *ast.FuncLit:
		w.record(e, st)
		w.funcLit(x, st, false)
		return w.killLitAssigned(st, x)
	case *ast.BinaryExpr:
		if x.Op == token.LAND || x.Op == token.LOR {
			t, f := w.cond(e, st)
			return join(t, f)
		}
		st = w.expr(x.X, st)
		st = w.expr(x.Y, st)
		w.record(e, st)
		return st
	case *ast.UnaryExpr:
		st = w.expr(x.X, st)
		w.record(e, st)
		return st
	case *ast.CallExpr:
		// receiver / function operand
		if _, isLit := unparen(x.Fun).(*ast.FuncLit); isLit {
			// immediately invoked literal
			for _, a := range x.Args {
				st = w.expr(a, st)
			}
			w.funcLit(unparen(x.Fun).(*ast.FuncLit), st, true)
			st = w.killLitAssigned(st, unparen(x.Fun).(*ast.FuncLit))
			w.record(e, st)
			return st
		}
		st = w.expr(x.Fun, st)
		for _, a := range x.Args {
			if lit, ok := unparen(a).(*ast.FuncLit); ok {
				// synchronous callback (ForEachNode, sort.Slice, Once.Do ...): inherits the facts
				w.record(a, st)
				w.funcLit(lit, st, true)
				st = w.killLitAssigned(st, lit)
				continue
			}
			st = w.expr(a, st)
		}
		w.record(e, st)
		n := st.clone()
		n.Done = append(n.Done, x)
		// an extracted-block helper: what it executes on every path has executed here
		if callee := w.p.Callee(x); callee != nil {
			if cf := w.p.FuncOf[callee]; cf != nil {
				if hs := w.p.HelperSite(cf); hs != nil && hs.Call == x {
					n.Done = append(n.Done, w.p.Walk(cf).mustDone...)
				}
			}
		}
		return n
	case *ast.SelectorExpr:
		st = w.expr(x.X, st)
		w.record(e, st)
		return st
	case *ast.IndexExpr:
		st = w.expr(x.X, st)
		st = w.expr(x.Index, st)
		w.record(e, st)
		return st
	case *ast.IndexListExpr:
		st = w.expr(x.X, st)
		w.record(e, st)
		return st
	case *ast.SliceExpr:
		st = w.expr(x.X, st)
		st = w.expr(x.Low, st)
		st = w.expr(x.High, st)
		st = w.expr(x.Max, st)
		w.record(e, st)
		return st
	case *ast.StarExpr:
		st = w.expr(x.X, st)
		w.record(e, st)
		return st
	case *ast.TypeAssertExpr:
		st = w.expr(x.X, st)
		w.record(e, st)
		return st
	case *ast.CompositeLit:
		for _, el := range x.Elts {
			if kv, ok := el.(*ast.KeyValueExpr); ok {
				if _, isIdent := kv.Key.(*ast.Ident); !isIdent {
					st = w.expr(kv.Key, st)
				}
				st = w.expr(kv.Value, st)
			} else {
				st = w.expr(el, st)
			}
		}
		w.record(e, st)
		return st
	case *ast.KeyValueExpr:
		st = w.expr(x.Value, st)
		return st
	case *ast.Ident, *ast.BasicLit:
		w.record(e, st)
		return st
	}
	// types and others
	w.record(e, st)
	return st
}

// cond evaluates a boolean expression and returns the states for true and false.
func (w *walker) cond(e ast.Expr, st *State) (*State, *State) {
	switch x := e.(type) {
	case *ast.ParenExpr:
		w.record(e, st)
		return w.cond(x.X, st)
	case *ast.UnaryExpr:
		if x.Op == token.NOT {
			w.record(e, st)
			t, f := w.cond(x.X, st)
			return f, t
		}
	case *ast.BinaryExpr:
		switch x.Op {
		case token.LAND:
			w.record(e, st)
			ta, fa := w.cond(x.X, st)
			tb, fb := w.cond(x.Y, ta)
			f := w.addFact(join(fa, fb), e, false)
			return tb, f
		case token.LOR:
			w.record(e, st)
			ta, fa := w.cond(x.X, st)
			tb, fb := w.cond(x.Y, fa)
			t := w.addFact(join(ta, tb), e, true)
			return t, fb
		}
	}
	after := w.expr(e, st)
	return w.addFact(after, e, true), w.addFact(after, e, false)
}

func (w *walker) addFact(st *State, e ast.Expr, val bool) *State {
	if st.Dead {
		return st
	}
	f := &Fact{E: e, Val: val, Env: st.Env, objs: map[types.Object]bool{}, fields: map[*types.Var]bool{}}
	w.mentions(e, st.Env, f, 0)
	n := st.clone()
	n.Facts = append(n.Facts, f)
	return n
}

// mentions collects the variables and fields a fact depends on (through definitions).
func (w *walker) mentions(e ast.Expr, env *Env, f *Fact, depth int) {
	if e == nil || depth > 4 {
		return
	}
	ast.Inspect(e, func(n ast.Node) bool {
		switch x := n.(type) {
		case *ast.FuncLit:
			return false
		case *ast.Ident:
			if o, ok := w.p.ObjOf(x).(*types.Var); ok && o != nil {
				if o.IsField() {
					f.fields[o] = true
				} else if !f.objs[o] {
					f.objs[o] = true
					if d := env.get(o); d != nil && d.Rhs != nil && d.Kind == DefAssign {
						w.mentions(d.Rhs, d.Env, f, depth+1)
					}
				}
			}
		}
		return true
	})
}

func (w *walker) funcLit(lit *ast.FuncLit, st *State, sync bool) {
	in := &State{Env: st.Env}
	if sync {
		in.Facts = st.Facts[:len(st.Facts):len(st.Facts)]
		in.Done = st.Done[:len(st.Done):len(st.Done)]
	} else {
		// deferred / asynchronous: only facts about never-reassigned variables survive
		for _, f := range st.Facts {
			stable := true
			for o := range f.objs {
				if w.nassign[o] > 1 || w.addrOf[o] {
					stable = false
				}
			}
			if len(f.fields) > 0 {
				stable = false
			}
			if stable {
				in.Facts = append(in.Facts, f)
			}
		}
		env := &Env{m: map[types.Object]*Def{}}
		for o, d := range st.Env.m {
			if w.nassign[o] <= 1 && !w.addrOf[o] {
				env.m[o] = d
			}
		}
		in.Env = env
	}
	// variables assigned inside the literal are unknown inside it on entry (loops / re-entry)
	in = w.killAssigned(in, lit.Body)
	savedBreaks := w.breaks
	savedLit := w.curLit
	w.breaks = nil
	w.curLit = lit
	end := w.block(lit.Body.List, in)
	if !end.Dead {
		w.res.exits = append(w.res.exits, exitPoint{Node: lit.Body, State: end, Lit: lit})
	}
	w.breaks = savedBreaks
	w.curLit = savedLit
}

// ---------------------------------------------------------------- joins

func join(a, b *State) *State {
	if a.Dead && b.Dead {
		return a
	}
	if a.Dead {
		return b
	}
	if b.Dead {
		return a
	}
	n := &State{}
	inB := map[*Fact]bool{}
	type key struct {
		e ast.Expr
		v bool
	}
	inBk := map[key]bool{}
	for _, f := range b.Facts {
		inB[f] = true
		if f.Alt == nil {
			inBk[key{f.E, f.Val}] = true
		}
	}
	var onlyA, onlyB []*Fact
	common := map[*Fact]bool{}
	commonK := map[key]bool{}
	for _, f := range a.Facts {
		if inB[f] || (f.Alt == nil && inBk[key{f.E, f.Val}] && len(f.Frozen) == 0) {
			n.Facts = append(n.Facts, f)
			common[f] = true
			if f.Alt == nil {
				commonK[key{f.E, f.Val}] = true
			}
		} else {
			onlyA = append(onlyA, f)
		}
	}
	for _, f := range b.Facts {
		if !common[f] && !(f.Alt == nil && commonK[key{f.E, f.Val}]) {
			onlyB = append(onlyB, f)
		}
	}
	if len(onlyA) > 0 && len(onlyB) > 0 && len(onlyA) <= 16 && len(onlyB) <= 16 {
		alt := &Fact{Alt: [][]*Fact{onlyA, onlyB}, objs: map[types.Object]bool{}, fields: map[*types.Var]bool{}}
		for _, l := range alt.Alt {
			for _, f := range l {
				for o := range f.objs {
					alt.objs[o] = true
				}
				for o := range f.Frozen {
					alt.objs[o] = true
				}
				for fl := range f.fields {
					alt.fields[fl] = true
				}
			}
		}
		n.Facts = append(n.Facts, alt)
	}
	if a.Env == b.Env {
		n.Env = a.Env
	} else {
		env := &Env{m: map[types.Object]*Def{}}
		for o, d := range a.Env.m {
			if b.Env.m[o] == d {
				env.m[o] = d
			}
		}
		n.Env = env
	}
	inBd := map[ast.Node]bool{}
	for _, d := range b.Done {
		inBd[d] = true
	}
	for _, d := range a.Done {
		if inBd[d] {
			n.Done = append(n.Done, d)
		}
	}
	return n
}

func joinAll(base *State, ends []*State) *State {
	var acc *State
	for _, e := range ends {
		if e.Dead {
			continue
		}
		if acc == nil {
			acc = e
		} else {
			acc = join(acc, e)
		}
	}
	if acc == nil {
		return dead(base)
	}
	return acc
}
