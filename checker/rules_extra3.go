package main

// Rules added after the second round of independently seeded changes (DESIGN.md section 6.3).

import (
	"go/ast"
	"go/token"
	"strings"
)

func init() {
	registerExtra("C08", ruleNoAbortAfterCommit)
	registerExtra("C10", ruleRequeueBeforeRemove)
	registerExtra("C06", ruleRequeueBeforeRemove)
	registerExtra("C10", ruleTerminatedAppAlwaysMoved)
	registerExtra("C16", ruleDrainingStillScheduled)
	registerExtra("C16", ruleRemovalMarksWholeSubtree)
	registerExtra("C18", ruleEqualsShape)
}

// enclosingLoop returns the innermost for/range statement around n inside fn (nil if none).
func (p *Prog) enclosingLoop(n ast.Node) ast.Node {
	for par := p.Parent(n); par != nil; par = p.Parent(par) {
		switch par.(type) {
		case *ast.ForStmt, *ast.RangeStmt:
			return par
		case *ast.FuncDecl, *ast.FuncLit:
			return nil
		}
	}
	return nil
}

// ruleNoAbortAfterCommit: in the all-or-nothing preemption commit, ledger bookings are not made
// inside a loop that can still abandon the attempt.
func ruleNoAbortAfterCommit(c *Ctx) {
	p := c.p
	c.Rule("C08.h", "TryPreemption books the preempting ledger (IncPreemptingResource) only after the marking loop can no longer abandon the attempt: no booking sits in a loop that contains an abort exit, and no failure return follows a booking (the abort path only un-marks, it does not un-book)")
	fn := c.MustFunc("C08.h", "objects.Preemptor.TryPreemption")
	if fn == nil {
		return
	}
	calls := p.callsIn(fn, "objects.Queue.IncPreemptingResource")
	for _, call := range calls {
		bad := ""
		if loop := p.enclosingLoop(call); loop != nil {
			ast.Inspect(loop, func(n ast.Node) bool {
				if _, isLit := n.(*ast.FuncLit); isLit {
					return false
				}
				if rs, ok := n.(*ast.ReturnStmt); ok {
					bad = "the loop that books the preempting resource contains an exit at " + p.Pos(rs)
				}
				return true
			})
		}
		if bad == "" {
			ast.Inspect(fn.Decl.Body, func(n ast.Node) bool {
				if _, isLit := n.(*ast.FuncLit); isLit {
					return false
				}
				rs, ok := n.(*ast.ReturnStmt)
				if !ok || rs.Pos() < call.End() || len(rs.Results) != 2 {
					return true
				}
				if p.isConstBool(rs.Results[1], false) {
					bad = "a failure return at " + p.Pos(rs) + " follows the booking"
				}
				return true
			})
		}
		c.Check("C08.h", "preempting ledger booked only after the point of no return", call, bad == "", "%s: an abandoned attempt leaves the preempting counter raised on the victim's queue and its ancestors", bad)
	}
	c.Floor("C08.h", "IncPreemptingResource calls in TryPreemption", len(calls), 1)
}

// ruleRequeueBeforeRemove: node removal during an in-flight swap puts the real ask back to
// pending before the placeholder leaves the application.
func ruleRequeueBeforeRemove(c *Ctx) {
	p := c.p
	rule := c.Prop + ".rq"
	c.Rule(rule, "in removeNodeAllocations the reversal of an in-flight swap (ClearRelease on both sides, DeallocateAsk of the real ask) happens before the allocation is removed from the application: removing the last placeholder while nothing is pending would complete the application with an ask outstanding")
	fn := c.MustFunc(rule, "scheduler.PartitionContext.removeNodeAllocations")
	if fn == nil {
		return
	}
	calls := p.callsIn(fn, "objects.Application.DeallocateAsk")
	for _, call := range calls {
		st := p.StateAt(fn, call)
		removed := p.DoneCall(st, nil, "objects.Application.RemoveAllocation")
		// Done is per path; the removal is in the same loop iteration only if it lexically precedes inside the loop body
		bad := removed != nil && p.enclosingLoop(removed) == p.enclosingLoop(call) && removed.Pos() < call.Pos()
		c.Check(rule, "real ask re-queued before the allocation is removed", call, !bad, "app.RemoveAllocation runs before DeallocateAsk on this path")
		// lexical order inside the loop body as well (the removal is conditional, Done may not list it)
		first := token.NoPos
		for _, rc := range p.callsIn(fn, "objects.Application.RemoveAllocation") {
			if p.enclosingLoop(rc) == p.enclosingLoop(call) && (first == token.NoPos || rc.Pos() < first) {
				first = rc.Pos()
			}
		}
		c.Check(rule, "re-queue precedes the removal in the per-allocation loop", call, first == token.NoPos || call.Pos() < first, "the per-allocation loop removes the allocation from the application before it re-queues the real ask of an in-flight swap")
	}
	c.Floor(rule, "DeallocateAsk calls in removeNodeAllocations", len(calls), 1)
}

// ruleTerminatedAppAlwaysMoved: the terminated callback moves every application it is called for.
func ruleTerminatedAppAlwaysMoved(c *Ctx) {
	p := c.p
	c.Rule("C10.f", "moveTerminatedApp (the callback of enter_Completed AND enter_Failed) unlinks the queue and moves the application off the active list whenever the application is still registered: the only condition is the lookup result, never the state")
	fn := c.MustFunc("C10.f", "scheduler.PartitionContext.moveTerminatedApp")
	if fn == nil {
		return
	}
	check := func(what string, n ast.Node) {
		st := p.StateAt(fn, n)
		bad := ""
		for _, a := range p.AllAtoms(st) {
			ok := false
			if _, x, y, isCmp := p.cmpParts(a); isCmp && (p.isNilExpr(x) || p.isNilExpr(y)) {
				ok = true
			}
			if !ok {
				bad = p.Src(a.E)
			}
		}
		c.Check("C10.f", what+" is unconditional for a registered application", n, st != nil && bad == "", "%s only happens under the extra condition %s: a terminated application in another state (Failed) stays registered, keeps its queue and keeps accepting asks", what, bad)
	}
	n := 0
	for _, call := range p.callsIn(fn, "objects.Application.UnSetQueue") {
		n++
		check("UnSetQueue", call)
	}
	for _, w := range p.FieldWrites(p.Field("scheduler.PartitionContext.applications")) {
		if p.inFn(w.Fn, fn) && w.Kind == "delete" {
			n++
			check("removal from the active application list", w.Node)
		}
	}
	for _, w := range p.FieldWrites(p.Field("scheduler.PartitionContext.completedApplications")) {
		if p.inFn(w.Fn, fn) && w.Kind == "elem" {
			n++
			check("registration in the completed list", w.Node)
		}
	}
	c.Floor("C10.f", "effects of moveTerminatedApp", n, 3)
	// both terminal states use the callback
	if cb := c.MustFunc("C10.f", "objects.callbacks"); cb != nil {
		lits, _ := p.fsmCallbacks(cb)
		for _, k := range []string{"enter_Completed", "enter_Failed"} {
			lit := lits[k]
			has := false
			if lit != nil {
				ast.Inspect(lit.Body, func(n ast.Node) bool {
					if call, ok := n.(*ast.CallExpr); ok && p.IsCall(call, "objects.Application.executeTerminatedCallback") {
						has = true
					}
					return true
				})
			}
			c.Check("C10.f", k+" runs the terminated callback", cb.Decl, has, "%s no longer calls executeTerminatedCallback", k)
		}
	}
}

// ruleDrainingStillScheduled: a draining queue keeps scheduling what it already has.
func ruleDrainingStillScheduled(c *Ctx) {
	p := c.p
	c.Rule("C16.g", "Queue.sortQueues leaves out only STOPPED children (and children without pending resources): a draining queue keeps getting its existing applications scheduled, otherwise it never empties and is never removed")
	fn := c.MustFunc("C16.g", "objects.Queue.sortQueues")
	if fn == nil {
		return
	}
	n := 0
	ast.Inspect(fn.Decl.Body, func(nd ast.Node) bool {
		br, ok := nd.(*ast.BranchStmt)
		if !ok || br.Tok != token.CONTINUE {
			return true
		}
		n++
		st := p.StateAt(fn, br)
		stopped := p.Holds(st, p.CallAtom(true, nil, "objects.Queue.IsStopped"))
		c.Check("C16.g", "child skipped only when stopped", br, stopped, "a child queue is skipped without the fact child.IsStopped(): draining (or other non-running) queues would starve; facts: %v", p.FactStrings(st))
		return true
	})
	c.Floor("C16.g", "skips in sortQueues", n, 1)
	// same for the application side: TryAllocate walks sortQueues/sortApplications without a state filter on draining
	c.mustContainCalls("C16.g", "objects.Queue.TryAllocate", "objects.Queue.sortQueues")
}

// ruleRemovalMarksWholeSubtree: marking a configured queue for removal marks every managed descendant.
func ruleRemovalMarksWholeSubtree(c *Ctx) {
	p := c.p
	c.Rule("C16.h", "MarkQueueForRemoval marks the queue itself and recurses into every child through MarkQueueForRemoval (updateQueues only marks the topmost removed queue and relies on this recursion)")
	fn := c.MustFunc("C16.h", "objects.Queue.MarkQueueForRemoval")
	if fn == nil {
		return
	}
	rec := false
	// the recursion: a call of MarkQueueForRemoval itself, or of the self-recursive private function it delegates to
	names := []string{"objects.Queue.MarkQueueForRemoval"}
	for _, h := range p.HelpersOf(fn) {
		if hs := p.HelperSite(h); hs != nil && hs.Recursive {
			names = append(names, h.Name)
		}
	}
	for _, call := range p.callsIn(fn, names...) {
		owner := p.EnclosingFunc(call.Pos())
		if owner == nil {
			continue
		}
		if src, _, isRange := p.RangeSource(T(Recv(call), p.StateAt(owner, call))); isRange {
			d := p.DefOf(src)
			if gc, ok := unparen(d.E).(*ast.CallExpr); ok && p.IsCall(gc, "objects.Queue.GetCopyOfChildren") && p.isRecvExpr(owner, Recv(gc)) {
				rec = true
			}
		}
	}
	c.Check("C16.h", "removal recurses over all children", fn.Decl, rec, "MarkQueueForRemoval does not call child.MarkQueueForRemoval() for every child of sq.GetCopyOfChildren(): grandchildren of a removed queue stay active")
	c.mustContainCalls("C16.h", "objects.Queue.MarkQueueForRemoval", "objects.Queue.doRemoveQueue")
}

// ruleEqualsShape: the sparse comparison looks at the keys of both sides before it says "equal".
func ruleEqualsShape(c *Ctx) {
	p := c.p
	c.Rule("C18.h", "resources.Equals only answers true from the identity shortcut before the first key loop or after BOTH key loops (left keys against right, right keys against left); EqualsOrEmpty defers to it")
	fn := c.MustFunc("C18.h", "resources.Equals")
	if fn == nil {
		return
	}
	var loops []*ast.RangeStmt
	for _, s := range fn.Decl.Body.List {
		if rs, ok := s.(*ast.RangeStmt); ok {
			loops = append(loops, rs)
		}
	}
	okLoops := len(loops) == 2
	if okLoops {
		a, b := p.Src(loops[0].X), p.Src(loops[1].X)
		okLoops = a != b && strings.HasSuffix(a, ".Resources") && strings.HasSuffix(b, ".Resources")
	}
	c.Check("C18.h", "Equals walks the keys of both operands", fn.Decl, okLoops, "Equals does not have two top-level key loops over left.Resources and right.Resources")
	if len(loops) == 2 {
		ast.Inspect(fn.Decl.Body, func(n ast.Node) bool {
			rs, ok := n.(*ast.ReturnStmt)
			if !ok || len(rs.Results) != 1 || !p.isConstBool(rs.Results[0], true) {
				return true
			}
			okPos := rs.Pos() < loops[0].Pos() || rs.Pos() > loops[1].End()
			c.Check("C18.h", "positive answer of Equals", rs, okPos, "Equals returns true between or inside the key loops: keys that only the other operand defines are not compared")
			return true
		})
	}
	c.mustContainCalls("C18.h", "resources.EqualsOrEmpty", "resources.Equals")
}

func init() {
	registerExtra("C04", ruleAsksBeforeReleases)
	registerExtra("C04", ruleNoLoopCarriedDecision)
	registerExtra("C13", ruleNoLoopCarriedDecision)
	registerExtra("C05", ruleUsageGuardsAgree)
	registerExtra("C05", ruleWildcardClearFlag)
	registerExtra("C06", rulePlaceholderReleaseOnce)
	registerExtra("C07", rulePerApplicationAnnouncement)
	registerExtra("C07", ruleOffsetOrientation)
}

// ruleAsksBeforeReleases: one allocation request is applied as "new/updated allocations first,
// releases second" so that an ask submitted and cancelled in the same request ends up cancelled.
func ruleAsksBeforeReleases(c *Ctx) {
	p := c.p
	c.Rule("C04.f", "handleRMUpdateAllocationEvent applies the allocations of a request before its releases (a key that is submitted and released in one request must end up released, not outstanding)")
	fn := c.MustFunc("C04.f", "scheduler.ClusterContext.handleRMUpdateAllocationEvent")
	if fn == nil {
		return
	}
	a := p.callsIn(fn, "scheduler.ClusterContext.processAllocations")
	r := p.callsIn(fn, "scheduler.ClusterContext.processAllocationReleases")
	ok := len(a) == 1 && len(r) == 1 && a[0].Pos() < r[0].Pos()
	c.Check("C04.f", "allocations processed before releases", fn.Decl, ok, "processAllocationReleases runs before processAllocations (or one of them is gone): an ask submitted and released in the same request stays registered and is later announced as a new allocation")
}

// ruleNoLoopCarriedDecision: in the per-item loops of the SI handlers, a boolean that decides how
// the current item is handled must be (re)initialised for every item.
func ruleNoLoopCarriedDecision(c *Ctx) {
	p := c.p
	rule := c.Prop + ".loop"
	c.Rule(rule, "in the per-item loops of the SI request handlers every boolean decision variable that is set inside the loop is declared inside the loop body (or assigned unconditionally at its top): a flag set for one item must not carry over to the next item of the same request")
	n := 0
	for _, name := range []string{"scheduler.ClusterContext.processNodes", "scheduler.ClusterContext.processAllocations", "scheduler.ClusterContext.processAllocationReleases",
		"scheduler.ClusterContext.handleRMUpdateApplicationEvent", "scheduler.ClusterContext.updateNode"} {
		fn := p.Funcs[name]
		if fn == nil || fn.Decl.Body == nil {
			continue
		}
		ast.Inspect(fn.Decl.Body, func(nd ast.Node) bool {
			loop, ok := nd.(*ast.RangeStmt)
			if !ok {
				return true
			}
			ast.Inspect(loop.Body, func(m ast.Node) bool {
				as, ok := m.(*ast.AssignStmt)
				if !ok || as.Tok != token.ASSIGN {
					return true
				}
				for _, l := range as.Lhs {
					id, ok := unparen(l).(*ast.Ident)
					if !ok {
						continue
					}
					o := p.ObjOf(id)
					if o == nil || o.Type().String() != "bool" {
						continue
					}
					if o.Pos() > loop.Body.Pos() && o.Pos() < loop.Body.End() {
						continue // declared per iteration
					}
					n++
					// declared outside: acceptable only if some assignment is a top-level statement of the loop body (unconditional reset)
					reset := false
					for _, s := range loop.Body.List {
						if ts, ok := s.(*ast.AssignStmt); ok {
							for _, tl := range ts.Lhs {
								if tid, ok := unparen(tl).(*ast.Ident); ok && p.ObjOf(tid) == o {
									reset = true
								}
							}
						}
					}
					c.Check(rule, "decision flag "+id.Name+" in "+shortFn(name), as, reset, "the flag %s is declared outside the per-item loop and only set conditionally inside it: once set for one item it stays set for all later items of the same request", id.Name)
				}
				return true
			})
			return true
		})
	}
	c.Check(rule, "per-item loops scanned", nil, true, "")
}

// ruleUsageGuardsAgree: the parameter guards of the two usage entry points reject the same inputs.
func ruleUsageGuardsAgree(c *Ctx) {
	p := c.p
	c.Rule("C05.f", "Manager.IncreaseTrackedResource and DecreaseTrackedResource refuse exactly the same inputs (empty queue path, empty application id, nil usage, empty user): a usage delta accepted by one and dropped by the other makes tracked usage drift from the allocations")
	want := []string{"applicationID == common.Empty", "queuePath == common.Empty", "usage == nil", "user.User == common.Empty"}
	var got [][]string
	for _, name := range []string{"ugm.Manager.IncreaseTrackedResource", "ugm.Manager.DecreaseTrackedResource"} {
		fn := c.MustFunc("C05.f", name)
		if fn == nil {
			continue
		}
		var guard *ast.IfStmt
		for _, s := range fn.Decl.Body.List {
			if ifs, ok := s.(*ast.IfStmt); ok && guard == nil && len(ifs.Body.List) > 0 {
				if _, isRet := ifs.Body.List[len(ifs.Body.List)-1].(*ast.ReturnStmt); isRet {
					guard = ifs
				}
			}
		}
		if guard == nil {
			c.Check("C05.f", "parameter guard of "+shortFn(name), fn.Decl, false, "no early-return parameter guard found")
			continue
		}
		var parts []string
		var walk func(e ast.Expr)
		walk = func(e ast.Expr) {
			if b, ok := unparen(e).(*ast.BinaryExpr); ok && b.Op == token.LOR {
				walk(b.X)
				walk(b.Y)
				return
			}
			parts = append(parts, p.Src(e))
		}
		walk(guard.Cond)
		sortStrings(parts)
		got = append(got, parts)
		c.Check("C05.f", "inputs refused by "+shortFn(name), guard, strings.Join(parts, " || ") == strings.Join(want, " || "), "the guard refuses %v, expected exactly %v", parts, want)
	}
	if len(got) == 2 {
		c.Check("C05.f", "increase and decrease refuse the same inputs", nil, strings.Join(got[0], "|") == strings.Join(got[1], "|"), "increase: %v vs decrease: %v", got[0], got[1])
	}
}

func sortStrings(s []string) {
	for i := 1; i < len(s); i++ {
		for j := i; j > 0 && s[j] < s[j-1]; j-- {
			s[j], s[j-1] = s[j-1], s[j]
		}
	}
}

// ruleWildcardClearFlag: the wildcard clean-up may only clear wildcard-derived limits.
func ruleWildcardClearFlag(c *Ctx) {
	p := c.p
	c.Rule("C05.g", "when a wildcard user limit disappears only limits that were DERIVED from the wildcard are cleared (clearLimits(path, true)); the clean-up of a removed named limit clears unconditionally (clearLimits(path, false)): the two callers must not exchange the flag, otherwise a named limit set in the same reload is wiped")
	for fnName, want := range map[string]bool{"ugm.Manager.clearEarlierSetUserWildCardLimits": true, "ugm.Manager.resetUserEarlierUsage": false} {
		fn := c.MustFunc("C05.g", fnName)
		if fn == nil {
			continue
		}
		calls := p.callsIn(fn, "ugm.UserTracker.clearLimits")
		for _, call := range calls {
			ok := len(call.Args) >= 2 && p.isConstBool(call.Args[1], want)
			c.Check("C05.g", "wildcard-only flag in "+shortFn(fnName), call, ok, "clearLimits is called with doWildCardCheck=%s, expected %v", p.Src(call.Args[1]), want)
		}
		c.Floor("C05.g", "clearLimits calls in "+shortFn(fnName), len(calls), 1)
	}
}

// rulePlaceholderReleaseOnce: a placeholder that is already marked released (its swap is in flight)
// is not released a second time by the timeout paths.
func rulePlaceholderReleaseOnce(c *Ctx) {
	p := c.p
	c.Rule("C06.h", "the timeout paths that walk the application's allocated placeholders (getPlaceholderAllocations) call SetReleased(true) only for a placeholder that is not released yet: one whose swap is in flight is skipped, never announced again as TIMEOUT")
	n := 0
	for _, fn := range p.funcs {
		if fn.Decl.Body == nil || !p.methodOf(fn, "objects.Application") {
			continue
		}
		for _, call := range p.callsInShallow(fn, "objects.Allocation.SetReleased") {
			if len(call.Args) < 1 || !p.isConstBool(call.Args[0], true) || Recv(call) == nil {
				continue
			}
			st := p.StateAt(fn, call)
			src, _, isRange := p.RangeSource(T(Recv(call), st))
			if !isRange || !strings.Contains(p.Src(src.E), "getPlaceholderAllocations()") {
				continue
			}
			n += p.Multiplicity(fn)
			notYet := p.Holds(st, p.CallAtom(false, p.recvIs(T(Recv(call), st)), "objects.Allocation.IsReleased"))
			c.Check("C06.h", "placeholder released once in "+fn.Name, call, notYet, "SetReleased(true) on a placeholder without the fact !IsReleased(): a placeholder whose replacement is in flight is released to the shim a second time (as TIMEOUT) and its real allocation is lost")
		}
	}
	c.Floor("C06.h", "SetReleased(true) on placeholders taken from getPlaceholderAllocations()", n, 2)
}

// rulePerApplicationAnnouncement: a release list announced inside a loop is built inside that loop.
func rulePerApplicationAnnouncement(c *Ctx) {
	p := c.p
	c.Rule("C07.h", "a victim list that is announced inside a loop (one announcement per application) is declared inside that loop: every announcement names only the victims of its own iteration, so no victim is announced twice or through another application")
	n := 0
	for _, fn := range p.funcs {
		if fn.Decl.Body == nil || !p.InPkg(fn, "objects") {
			continue
		}
		for _, call := range p.callsIn(fn, "objects.Application.notifyRMAllocationReleased") {
			loop := p.enclosingLoop(call)
			if loop == nil || len(call.Args) < 1 {
				continue
			}
			id, ok := unparen(call.Args[0]).(*ast.Ident)
			if !ok {
				continue
			}
			o := p.ObjOf(id)
			if o == nil {
				continue
			}
			n++
			inside := o.Pos() > loop.Pos() && o.Pos() < loop.End()
			c.Check("C07.h", "announced list "+id.Name+" in "+fn.Name+" is per iteration", call, inside, "the list %s announced inside the loop is declared outside it and keeps the victims of earlier iterations: they are announced again with every later application", id.Name)
		}
	}
	c.Floor("C07.h", "announcements inside loops", n, 1)
}

// ruleOffsetOrientation: queue priority offsets are added on the way up from the asking queue.
func ruleOffsetOrientation(c *Ctx) {
	p := c.p
	c.Rule("C07.i", "findPreemptionFenceRoot accumulates the ask's relative priority on the upward walk as `current += offset` (default policy) or `current = offset` (fence policy): the sign agrees with the downward walk of findEligiblePreemptionVictims, which subtracts the child's offset from the ask priority")
	fn := c.MustFunc("C07.i", "objects.Queue.findPreemptionFenceRoot")
	if fn == nil {
		return
	}
	cur := paramObj(p, fn, 1)
	n := 0
	ast.Inspect(fn.Decl.Body, func(nd ast.Node) bool {
		as, ok := nd.(*ast.AssignStmt)
		if !ok || len(as.Lhs) != 1 {
			return true
		}
		id, ok := unparen(as.Lhs[0]).(*ast.Ident)
		if !ok || p.ObjOf(id) != cur {
			return true
		}
		n++
		okOp := as.Tok == token.ADD_ASSIGN || as.Tok == token.ASSIGN
		c.Check("C07.i", "offset applied upwards with a plus", as, okOp && mentionsOffset(p, fn, as.Rhs[0]), "the ask's relative priority is updated with `%s %s %s`: a subtracted offset raises the ask's rank instead of lowering it, so allocations that outrank the ask become victims", p.Src(as.Lhs[0]), as.Tok, p.Src(as.Rhs[0]))
		return true
	})
	c.Floor("C07.i", "priority updates in findPreemptionFenceRoot", n, 2)
	if fn2 := c.MustFunc("C07.i", "objects.Queue.findEligiblePreemptionVictims"); fn2 != nil {
		minus := false
		ast.Inspect(fn2.Decl.Body, func(nd ast.Node) bool {
			if be, ok := nd.(*ast.BinaryExpr); ok && be.Op == token.SUB && p.isParam(fn2, be.X, p.paramOfType(fn2, "int64")) && mentionsOffset(p, fn2, be.Y) {
				minus = true
			}
			return true
		})
		c.Check("C07.i", "offset applied downwards with a minus", fn2.Decl, minus, "findEligiblePreemptionVictims no longer computes askPriority - offset for an unfenced child")
	}
}

// mentionsOffset: the expression uses the queue's configured priority offset: the second result of
// GetPriorityPolicyAndOffset (through a local) or the priorityOffset field.
func mentionsOffset(p *Prog, fn *Func, e ast.Expr) bool {
	found := false
	ast.Inspect(e, func(n ast.Node) bool {
		switch x := n.(type) {
		case *ast.Ident:
			st := p.StateAt(fn, x)
			if st == nil {
				return true
			}
			if d := st.Env.get(p.ObjOf(x)); d != nil && d.Rhs != nil {
				if call, ok := unparen(d.Rhs).(*ast.CallExpr); ok && p.IsCall(call, "objects.Queue.GetPriorityPolicyAndOffset") && d.Idx == 1 {
					found = true
				}
			}
		case *ast.SelectorExpr:
			if f := p.SelField(x); f != nil && f.Name() == "priorityOffset" {
				found = true
			}
		case *ast.CallExpr:
			if p.IsCall(x, "objects.Queue.GetPriorityPolicyAndOffset") {
				found = true
			}
		}
		return true
	})
	return found
}
