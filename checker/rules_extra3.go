package main

// Rules added after the second round of independently seeded changes (DESIGN.md section 6.3).

import (
	"go/ast"
	"go/token"
	"strings"
)

func init() {
	registerExtra("C08", ruleNoAbortAfterCommit)
	registerExtra("C10", ruleRequeueBeforeRemove)
	registerExtra("C06", ruleRequeueBeforeRemove)
	registerExtra("C10", ruleTerminatedAppAlwaysMoved)
	registerExtra("C16", ruleDrainingStillScheduled)
	registerExtra("C16", ruleRemovalMarksWholeSubtree)
	registerExtra("C18", ruleEqualsShape)
}

// enclosingLoop returns the innermost for/range statement around n inside fn (nil if none).
func (p *Prog) enclosingLoop(n ast.Node) ast.Node {
	for par := p.Parent(n); par != nil; par = p.Parent(par) {
		switch par.(type) {
		case *ast.ForStmt, *ast.RangeStmt:
			return par
		case *ast.FuncDecl, *ast.FuncLit:
			return nil
		}
	}
	return nil
}

// ruleNoAbortAfterCommit: in the all-or-nothing preemption commit, ledger bookings are not made
// inside a loop that can still abandon the attempt.
func ruleNoAbortAfterCommit(c *Ctx) {
	p := c.p
	c.Rule("C08.h", "TryPreemption books the preempting ledger (IncPreemptingResource) only after the marking loop can no longer abandon the attempt: no booking sits in a loop that contains an abort exit, and no failure return follows a booking (the abort path only un-marks, it does not un-book)")
	fn := c.MustFunc("C08.h", "objects.Preemptor.TryPreemption")
	if fn == nil {
		return
	}
	calls := p.callsIn(fn, "objects.Queue.IncPreemptingResource")
	for _, call := range calls {
		bad := ""
		if loop := p.enclosingLoop(call); loop != nil {
			ast.Inspect(loop, func(n ast.Node) bool {
				if _, isLit := n.(*ast.FuncLit); isLit {
					return false
				}
				if rs, ok := n.(*ast.ReturnStmt); ok {
					bad = "the loop that books the preempting resource contains an exit at " + p.Pos(rs)
				}
				return true
			})
		}
		if bad == "" {
			ast.Inspect(fn.Decl.Body, func(n ast.Node) bool {
				if _, isLit := n.(*ast.FuncLit); isLit {
					return false
				}
				rs, ok := n.(*ast.ReturnStmt)
				if !ok || rs.Pos() < call.End() || len(rs.Results) != 2 {
					return true
				}
				if p.isConstBool(rs.Results[1], false) {
					bad = "a failure return at " + p.Pos(rs) + " follows the booking"
				}
				return true
			})
		}
		c.Check("C08.h", "preempting ledger booked only after the point of no return", call, bad == "", "%s: an abandoned attempt leaves the preempting counter raised on the victim's queue and its ancestors", bad)
	}
	c.Floor("C08.h", "IncPreemptingResource calls in TryPreemption", len(calls), 1)
}

// ruleRequeueBeforeRemove: node removal during an in-flight swap puts the real ask back to
// pending before the placeholder leaves the application.
func ruleRequeueBeforeRemove(c *Ctx) {
	p := c.p
	rule := c.Prop + ".rq"
	c.Rule(rule, "in removeNodeAllocations the reversal of an in-flight swap (ClearRelease on both sides, DeallocateAsk of the real ask) happens before the allocation is removed from the application: removing the last placeholder while nothing is pending would complete the application with an ask outstanding")
	fn := c.MustFunc(rule, "scheduler.PartitionContext.removeNodeAllocations")
	if fn == nil {
		return
	}
	calls := p.callsIn(fn, "objects.Application.DeallocateAsk")
	for _, call := range calls {
		st := p.StateAt(fn, call)
		removed := p.DoneCall(st, nil, "objects.Application.RemoveAllocation")
		// Done is per path; the removal is in the same loop iteration only if it lexically precedes inside the loop body
		bad := removed != nil && p.enclosingLoop(removed) == p.enclosingLoop(call) && removed.Pos() < call.Pos()
		c.Check(rule, "real ask re-queued before the allocation is removed", call, !bad, "app.RemoveAllocation runs before DeallocateAsk on this path")
		// lexical order inside the loop body as well (the removal is conditional, Done may not list it)
		first := token.NoPos
		for _, rc := range p.callsIn(fn, "objects.Application.RemoveAllocation") {
			if p.enclosingLoop(rc) == p.enclosingLoop(call) && (first == token.NoPos || rc.Pos() < first) {
				first = rc.Pos()
			}
		}
		c.Check(rule, "re-queue precedes the removal in the per-allocation loop", call, first == token.NoPos || call.Pos() < first, "the per-allocation loop removes the allocation from the application before it re-queues the real ask of an in-flight swap")
	}
	c.Floor(rule, "DeallocateAsk calls in removeNodeAllocations", len(calls), 1)
}

// ruleTerminatedAppAlwaysMoved: the terminated callback moves every application it is called for.
func ruleTerminatedAppAlwaysMoved(c *Ctx) {
	p := c.p
	c.Rule("C10.f", "moveTerminatedApp (the callback of enter_Completed AND enter_Failed) unlinks the queue and moves the application off the active list whenever the application is still registered: the only condition is the lookup result, never the state")
	fn := c.MustFunc("C10.f", "scheduler.PartitionContext.moveTerminatedApp")
	if fn == nil {
		return
	}
	check := func(what string, n ast.Node) {
		st := p.StateAt(fn, n)
		bad := ""
		for _, a := range p.AllAtoms(st) {
			ok := false
			if _, x, y, isCmp := p.cmpParts(a); isCmp && (p.isNilExpr(x) || p.isNilExpr(y)) {
				ok = true
			}
			if !ok {
				bad = p.Src(a.E)
			}
		}
		c.Check("C10.f", what+" is unconditional for a registered application", n, st != nil && bad == "", "%s only happens under the extra condition %s: a terminated application in another state (Failed) stays registered, keeps its queue and keeps accepting asks", what, bad)
	}
	n := 0
	for _, call := range p.callsIn(fn, "objects.Application.UnSetQueue") {
		n++
		check("UnSetQueue", call)
	}
	for _, w := range p.FieldWrites(p.Field("scheduler.PartitionContext.applications")) {
		if w.Fn == fn && w.Kind == "delete" {
			n++
			check("removal from the active application list", w.Node)
		}
	}
	for _, w := range p.FieldWrites(p.Field("scheduler.PartitionContext.completedApplications")) {
		if w.Fn == fn && w.Kind == "elem" {
			n++
			check("registration in the completed list", w.Node)
		}
	}
	c.Floor("C10.f", "effects of moveTerminatedApp", n, 3)
	// both terminal states use the callback
	if cb := c.MustFunc("C10.f", "objects.callbacks"); cb != nil {
		lits, _ := p.fsmCallbacks(cb)
		for _, k := range []string{"enter_Completed", "enter_Failed"} {
			lit := lits[k]
			has := false
			if lit != nil {
				ast.Inspect(lit.Body, func(n ast.Node) bool {
					if call, ok := n.(*ast.CallExpr); ok && p.IsCall(call, "objects.Application.executeTerminatedCallback") {
						has = true
					}
					return true
				})
			}
			c.Check("C10.f", k+" runs the terminated callback", cb.Decl, has, "%s no longer calls executeTerminatedCallback", k)
		}
	}
}

// ruleDrainingStillScheduled: a draining queue keeps scheduling what it already has.
func ruleDrainingStillScheduled(c *Ctx) {
	p := c.p
	c.Rule("C16.g", "Queue.sortQueues leaves out only STOPPED children (and children without pending resources): a draining queue keeps getting its existing applications scheduled, otherwise it never empties and is never removed")
	fn := c.MustFunc("C16.g", "objects.Queue.sortQueues")
	if fn == nil {
		return
	}
	n := 0
	ast.Inspect(fn.Decl.Body, func(nd ast.Node) bool {
		br, ok := nd.(*ast.BranchStmt)
		if !ok || br.Tok != token.CONTINUE {
			return true
		}
		n++
		st := p.StateAt(fn, br)
		stopped := p.Holds(st, p.CallAtom(true, nil, "objects.Queue.IsStopped"))
		c.Check("C16.g", "child skipped only when stopped", br, stopped, "a child queue is skipped without the fact child.IsStopped(): draining (or other non-running) queues would starve; facts: %v", p.FactStrings(st))
		return true
	})
	c.Floor("C16.g", "skips in sortQueues", n, 1)
	// same for the application side: TryAllocate walks sortQueues/sortApplications without a state filter on draining
	c.mustContainCalls("C16.g", "objects.Queue.TryAllocate", "objects.Queue.sortQueues")
}

// ruleRemovalMarksWholeSubtree: marking a configured queue for removal marks every managed descendant.
func ruleRemovalMarksWholeSubtree(c *Ctx) {
	p := c.p
	c.Rule("C16.h", "MarkQueueForRemoval marks the queue itself and recurses into every child through MarkQueueForRemoval (updateQueues only marks the topmost removed queue and relies on this recursion)")
	fn := c.MustFunc("C16.h", "objects.Queue.MarkQueueForRemoval")
	if fn == nil {
		return
	}
	rec := false
	for _, call := range p.callsIn(fn, "objects.Queue.MarkQueueForRemoval") {
		if src, _, isRange := p.RangeSource(T(Recv(call), p.StateAt(fn, call))); isRange {
			d := p.DefOf(src)
			if gc, ok := unparen(d.E).(*ast.CallExpr); ok && p.IsCall(gc, "objects.Queue.GetCopyOfChildren") && p.isRecvExpr(fn, Recv(gc)) {
				rec = true
			}
		}
	}
	c.Check("C16.h", "removal recurses over all children", fn.Decl, rec, "MarkQueueForRemoval does not call child.MarkQueueForRemoval() for every child of sq.GetCopyOfChildren(): grandchildren of a removed queue stay active")
	c.mustContainCalls("C16.h", "objects.Queue.MarkQueueForRemoval", "objects.Queue.doRemoveQueue")
}

// ruleEqualsShape: the sparse comparison looks at the keys of both sides before it says "equal".
func ruleEqualsShape(c *Ctx) {
	p := c.p
	c.Rule("C18.h", "resources.Equals only answers true from the identity shortcut before the first key loop or after BOTH key loops (left keys against right, right keys against left); EqualsOrEmpty defers to it")
	fn := c.MustFunc("C18.h", "resources.Equals")
	if fn == nil {
		return
	}
	var loops []*ast.RangeStmt
	for _, s := range fn.Decl.Body.List {
		if rs, ok := s.(*ast.RangeStmt); ok {
			loops = append(loops, rs)
		}
	}
	okLoops := len(loops) == 2
	if okLoops {
		a, b := p.Src(loops[0].X), p.Src(loops[1].X)
		okLoops = a != b && strings.HasSuffix(a, ".Resources") && strings.HasSuffix(b, ".Resources")
	}
	c.Check("C18.h", "Equals walks the keys of both operands", fn.Decl, okLoops, "Equals does not have two top-level key loops over left.Resources and right.Resources")
	if len(loops) == 2 {
		ast.Inspect(fn.Decl.Body, func(n ast.Node) bool {
			rs, ok := n.(*ast.ReturnStmt)
			if !ok || len(rs.Results) != 1 || !p.isConstBool(rs.Results[0], true) {
				return true
			}
			okPos := rs.Pos() < loops[0].Pos() || rs.Pos() > loops[1].End()
			c.Check("C18.h", "positive answer of Equals", rs, okPos, "Equals returns true between or inside the key loops: keys that only the other operand defines are not compared")
			return true
		})
	}
	c.mustContainCalls("C18.h", "resources.EqualsOrEmpty", "resources.Equals")
}
