package main

import (
	"encoding/json"
	"flag"
	"fmt"
	"os"
	"path/filepath"
	"runtime/debug"
	"sort"
	"strconv"
	"time"
)

type propRule struct {
	id  string
	run func(c *Ctx)
}

var registry = map[string]func(c *Ctx){}

func register(id string, f func(c *Ctx)) { registry[id] = f }

// extras: additional rule groups per property (added when seeded changes showed a gap)
var extras = map[string][]func(c *Ctx){}

func registerExtra(id string, f func(c *Ctx)) { extras[id] = append(extras[id], f) }

func main() {
	prop := flag.String("property", "", "property id (C01..C20) or 'all'")
	tier := flag.String("tier", "quick", "quick|thorough")
	repo := flag.String("repo", "/repo", "repository to analyse")
	verif := flag.String("verif", "/verif", "verification directory (evidence, known findings)")
	replay := flag.String("replay", "", "replay file: re-evaluate a single obligation")
	list := flag.Bool("list", false, "list obligations")
	dump := flag.String("dump", "", "debug dump: locks")
	extra := flag.String("extra", "", "JSON file whose content is embedded in the evidence as coverage.seeded_replay")
	flag.Parse()
	start := time.Now()
	seed := 0
	if s := os.Getenv("VERIF_SEED"); s != "" {
		seed, _ = strconv.Atoi(s)
	}
	if t := os.Getenv("VERIF_TIER"); t != "" && *tier == "" {
		*tier = t
	}
	var want map[string]interface{}
	if *replay != "" {
		b, err := os.ReadFile(*replay)
		if err != nil {
			fmt.Fprintln(os.Stderr, err)
			os.Exit(2)
		}
		if err := json.Unmarshal(b, &want); err != nil {
			fmt.Fprintln(os.Stderr, err)
			os.Exit(2)
		}
		*prop, _ = want["property"].(string)
		if t, ok := want["tier"].(string); ok {
			*tier = t
		}
	}
	if *prop == "" && *dump == "" {
		fmt.Fprintln(os.Stderr, "usage: ykcheck -property Cxx [-tier quick|thorough]")
		os.Exit(2)
	}
	p, err := loadProg(*repo)
	if err != nil {
		fmt.Fprintf(os.Stderr, "UNDECIDED: cannot load %s: %v\n", *repo, err)
		os.Exit(2)
	}
	if *dump != "" {
		dumpDebug(p, *dump)
		os.Exit(0)
	}
	loadInfo := map[string]interface{}{"packages": len(p.Pkgs), "all_packages": len(p.All), "functions": len(p.funcs), "load_s": time.Since(start).Seconds()}
	props := []string{*prop}
	if *prop == "all" {
		props = nil
		for k := range registry {
			props = append(props, k)
		}
		sort.Strings(props)
	}
	exit := 0
	for _, id := range props {
		run := registry[id]
		if run == nil {
			fmt.Fprintf(os.Stderr, "no rules registered for %s\n", id)
			os.Exit(2)
		}
		c := newCtx(p, id, *tier)
		c.known = loadKnown(filepath.Join(*verif, "known_findings.json"))
		func() {
			defer func() {
				if r := recover(); r != nil {
					c.Undecided("internal", "panic", nil, "checker panic: %v\n%s", r, debug.Stack())
				}
			}()
			run(c)
			for _, ex := range extras[id] {
				ex(c)
			}
		}()
		if p.ssa != nil {
			loadInfo["ssa_functions"] = p.ssa.nfuncs
			loadInfo["callgraph_edges"] = p.ssa.nedges
		}
		if *replay != "" {
			rule, _ := want["rule"].(string)
			key, _ := want["construct"].(string)
			found := false
			for _, ob := range c.obs {
				if ob.Rule == rule && ob.Key == key {
					found = true
					fmt.Printf("replay %s %s at %s: status=%s %s\n", ob.Rule, ob.Key, ob.Pos, ob.Status, ob.Msg)
					if ob.Status == "violation" || ob.Status == "undecided" {
						fmt.Printf("VIOLATION property=%s replay=%s\n", id, *replay)
						os.Exit(1)
					}
				}
			}
			if !found {
				fmt.Printf("replay: obligation %s %s no longer exists\n", rule, key)
			}
			os.Exit(0)
		}
		if *list {
			for _, ob := range c.obs {
				fmt.Printf("%-12s %-9s %-70s %s %s\n", ob.Status, ob.Rule, ob.Key, ob.Pos, ob.Msg)
			}
		}
		if *extra != "" {
			if b, err := os.ReadFile(*extra); err == nil {
				var v interface{}
				if json.Unmarshal(b, &v) == nil {
					loadInfo["seeded_replay"] = v
				}
			}
		}
		if code := c.finish(*verif, seed, start, loadInfo); code > exit {
			exit = code
		}
	}
	os.Exit(exit)
}
