package main

import (
	"go/ast"
	"go/token"
	"go/types"
	"sort"
	"strings"
)

// C15 — configuration validation: every check runs, no error is dropped, the validator applies
// the parsers the loader applies, no order dependence.

func init() { register("C15", rulesC15) }

// confFieldChain returns the chain of configs.* struct fields selected by e (outermost first),
// e.g. queue.ChildTemplate.Resources.Max -> [QueueConfig.ChildTemplate ChildTemplate.Resources Resources.Max].
func (p *Prog) confFieldChain(e ast.Expr) []string {
	var out []string
	for {
		sel, ok := unparen(e).(*ast.SelectorExpr)
		if !ok {
			break
		}
		f := p.SelField(sel)
		if f == nil {
			break
		}
		name := p.FieldName(f)
		if !strings.HasPrefix(name, "configs.") {
			break
		}
		out = append([]string{strings.TrimPrefix(name, "configs.")}, out...)
		e = sel.X
	}
	return out
}

func isSuffix(short, long []string) bool {
	if len(short) > len(long) || len(short) == 0 {
		return false
	}
	off := len(long) - len(short)
	for i := range short {
		if short[i] != long[off+i] {
			return false
		}
	}
	return true
}

func returnsError(f *types.Func) int {
	sig, ok := f.Type().(*types.Signature)
	if !ok {
		return -1
	}
	for i := 0; i < sig.Results().Len(); i++ {
		if sig.Results().At(i).Type().String() == "error" {
			return i
		}
	}
	return -1
}

func rulesC15(c *Ctx) {
	p := c.p
	c.NotDecided("that the arithmetic of the hierarchy rules (max within parent, guaranteed sums, limits within ancestors) is the documented one",
		"that every load-time failure is covered: only the failing parsers listed in C15.c are compared",
		"YAML decoding itself")
	inConfigs := func(fn *Func) bool { return p.InPkg(fn, "configs") }

	// ------------------------------------------------------------------ C15.a every check runs
	c.Rule("C15.a", "Validate accepts a partition (writes it back and continues) only after each of the nine checks returned nil for that partition; the recursive checks descend into every child queue and propagate the child's error")
	checks := []string{"configs.checkQueuesStructure", "configs.checkLimitsStructure", "configs.checkQueues", "configs.checkQueueResource", "configs.checkPlacementRules",
		"configs.checkNodeSortingPolicy", "configs.checkQueueMaxApplications", "configs.checkLimitResource", "configs.checkLimitMaxApplications"}
	if fn := c.MustFunc("C15.a", "configs.Validate"); fn != nil {
		var loop *ast.RangeStmt
		ast.Inspect(fn.Decl.Body, func(n ast.Node) bool {
			if rs, ok := n.(*ast.RangeStmt); ok && loop == nil && strings.HasSuffix(p.Src(rs.X), ".Partitions") {
				loop = rs
			}
			return true
		})
		if loop == nil {
			c.Check("C15.a", "partition loop in Validate", fn.Decl, false, "Validate does not range over newConfig.Partitions")
		} else {
			end := p.EndState(fn, loop.Body)
			for _, chk := range checks {
				ok := end != nil && !end.Dead && p.Holds(end, p.ResultNilAtom(true, func(call *ast.CallExpr, a Atom) bool {
					if len(call.Args) < 1 {
						return false
					}
					// the argument is (an address / field of) the partition this iteration works on
					ok := false
					ast.Inspect(call.Args[0], func(m ast.Node) bool {
						if id, isID := m.(*ast.Ident); isID {
							if p.TypeName(p.TypeOf(id)) == "configs.PartitionConfig" {
								ok = true
							}
						}
						return true
					})
					return ok
				}, chk))
				c.Check("C15.a", "partition accepted only after "+shortFn(chk), loop, ok, "the end of the per-partition block can be reached without %s(partition...) == nil", chk)
			}
			// accepted partitions are written back
			wb := false
			for _, s := range loop.Body.List {
				if as, ok := s.(*ast.AssignStmt); ok && len(as.Lhs) == 1 && strings.Contains(p.Src(as.Lhs[0]), ".Partitions[") {
					wb = true
				}
			}
			c.Check("C15.a", "normalised partition written back", loop, wb, "the validated (normalised) partition is no longer written back into the configuration")
			// success return only after the loop
			for _, ex := range p.returnsOf(fn) {
				if rs, ok := ex.Node.(*ast.ReturnStmt); ok && len(rs.Results) == 1 && p.isNilExpr(rs.Results[0]) {
					c.Check("C15.a", "Validate accepts only after the partition loop", rs, rs.Pos() > loop.End(), "`return nil` inside or before the partition loop: later partitions are not validated")
				}
			}
		}
	}
	for _, rec := range []string{"configs.checkQueues", "configs.checkQueueResource", "configs.checkQueueMaxApplications", "configs.checkLimitResource", "configs.checkLimitMaxApplications"} {
		fn := c.MustFunc("C15.a", rec)
		if fn == nil {
			continue
		}
		n := 0
		for _, call := range p.callsIn(fn, rec) {
			// enclosing range over <x>.Queues
			var loop *ast.RangeStmt
			for par := p.Parent(call); par != nil; par = p.Parent(par) {
				if rs, ok := par.(*ast.RangeStmt); ok {
					loop = rs
					break
				}
			}
			okLoop := loop != nil && strings.HasSuffix(p.Src(loop.X), ".Queues")
			n++
			c.Check("C15.a", shortFn(rec)+" recurses over every child queue", call, okLoop, "the recursive call is not inside `for ... range <queue>.Queues`")
			if loop != nil {
				end := p.EndState(fn, loop.Body)
				prop := end != nil && p.Holds(end, p.ResultNilAtom(true, nil, rec))
				c.Check("C15.a", shortFn(rec)+" propagates a child's error", call, prop, "the loop body can complete although the recursive check returned an error")
			}
		}
		c.Floor("C15.a", "recursive calls in "+shortFn(rec), n, 1)
	}

	// ------------------------------------------------------------------ C15.b no dropped error
	c.Rule("C15.b", "in package configs no error result is discarded (call used as a statement or error assigned to _)")
	nErrCalls := 0
	for _, fn := range p.funcs {
		if !inConfigs(fn) || fn.Decl.Body == nil {
			continue
		}
		ast.Inspect(fn.Decl.Body, func(n ast.Node) bool {
			call, ok := n.(*ast.CallExpr)
			if !ok {
				return true
			}
			callee := p.Callee(call)
			if callee == nil {
				return true
			}
			idx := returnsError(callee)
			if idx < 0 {
				return true
			}
			if callee.Pkg() != nil && (callee.Pkg().Path() == "fmt" || strings.HasPrefix(callee.Pkg().Path(), "go.uber.org/zap")) {
				return true
			}
			nErrCalls++
			dropped := false
			switch par := p.Parent(call).(type) {
			case *ast.ExprStmt:
				dropped = true
			case *ast.AssignStmt:
				if len(par.Rhs) == 1 && idx < len(par.Lhs) {
					if id, ok := par.Lhs[idx].(*ast.Ident); ok && id.Name == "_" {
						dropped = true
					}
				}
			case *ast.DeferStmt, *ast.GoStmt:
				dropped = true
			}
			c.Check("C15.b", "error of "+p.FuncName(callee)+" used in "+fn.Name, call, !dropped, "the error returned by %s is discarded", p.FuncName(callee))
			return true
		})
	}
	c.Floor("C15.b", "error-returning calls in package configs", nErrCalls, 30)

	// ------------------------------------------------------------------ C15.c validator / loader agreement
	c.Rule("C15.c", "for every configuration field that the loading code hands to a parser which can fail (NewResourceFromConf, security.NewACL, SortingPolicyFromString, placement.newRule), the validator applies the same parser (or the listed equivalent) to the same field path")
	parsers := map[string]bool{"resources.NewResourceFromConf": true, "security.NewACL": true, "policies.SortingPolicyFromString": true}
	equiv := map[string]string{"configs.checkACL": "security.NewACL"}
	type use struct {
		parser string
		chain  []string
		pos    ast.Node
		fn     *Func
	}
	var loader, validator []use
	for _, fn := range p.funcs {
		if fn.Decl.Body == nil || p.InPkg(fn, "resources") || p.InPkg(fn, "security") || p.InPkg(fn, "policies") {
			continue
		}
		ast.Inspect(fn.Decl.Body, func(n ast.Node) bool {
			call, ok := n.(*ast.CallExpr)
			if !ok || len(call.Args) == 0 {
				return true
			}
			name := p.CalleeName(call)
			if e, isEq := equiv[name]; isEq && inConfigs(fn) {
				name = e
			} else if !parsers[name] {
				return true
			}
			chain := p.confFieldChain(call.Args[0])
			if len(chain) == 0 {
				// argument is a local / parameter: resolve through its definition or the callers
				st := p.StateAt(fn, call)
				if st != nil {
					for _, t := range p.chain(T(call.Args[0], st)) {
						if ch := p.confFieldChain(t.E); len(ch) > 0 {
							chain = ch
						}
					}
				}
			}
			if len(chain) == 0 {
				if k, isParam := p.paramRoot(fn, T(call.Args[0], p.StateAt(fn, call))); isParam && k >= 0 {
					for _, cs := range p.CallSites(fn.Obj) {
						if k < len(cs.Call.Args) {
							if ch := p.confFieldChain(cs.Call.Args[k]); len(ch) > 0 {
								u := use{name, ch, cs.Call, cs.Caller}
								if inConfigs(cs.Caller) {
									validator = append(validator, u)
								} else {
									loader = append(loader, u)
								}
							}
						}
					}
				}
				return true
			}
			u := use{name, chain, call, fn}
			if inConfigs(fn) {
				validator = append(validator, u)
			} else {
				loader = append(loader, u)
			}
			return true
		})
	}
	seen := map[string]bool{}
	for _, l := range loader {
		key := l.parser + " on " + strings.Join(l.chain, "/")
		if seen[key] {
			continue
		}
		seen[key] = true
		covered := false
		for _, v := range validator {
			if v.parser == l.parser && (isSuffix(l.chain, v.chain) || isSuffix(v.chain, l.chain)) {
				covered = true
			}
		}
		c.Check("C15.c", "validated like it is loaded: "+key, l.pos, covered, "%s applies %s to %s when the configuration is loaded (it can fail), but the validator never applies it to that field: a document is accepted and then fails, or is partly applied, at load", l.fn.Name, l.parser, strings.Join(l.chain, "/"))
	}
	c.Floor("C15.c", "parser applications on configuration fields in the loading code", len(seen), 6)
	c.Floor("C15.c", "parser applications in the validator", len(validator), 6)
	// checkACL really is the loader's rule
	if fn := c.MustFunc("C15.c", "configs.checkACL"); fn != nil {
		same := false
		ast.Inspect(fn.Decl.Body, func(n ast.Node) bool {
			if call, ok := n.(*ast.CallExpr); ok && p.IsCall(call, "strings.Split") && len(call.Args) >= 2 && p.isParam(fn, call.Args[0], 0) && strings.HasSuffix(p.Src(call.Args[1]), "Space") {
				same = true
			}
			return true
		})
		c.Check("C15.c", "checkACL splits like security.NewACL", fn.Decl, same, "checkACL does not split the unmodified ACL string on a single space as security.NewACL does: ACLs with repeated or trailing spaces are accepted and then fail when the queue is created")
	}
	if fn := c.MustFunc("C15.c", "security.NewACL"); fn != nil {
		same := false
		ast.Inspect(fn.Decl.Body, func(n ast.Node) bool {
			if call, ok := n.(*ast.CallExpr); ok && p.IsCall(call, "strings.Split") && len(call.Args) >= 2 && p.isParam(fn, call.Args[0], 0) && strings.HasSuffix(p.Src(call.Args[1]), "Space") {
				same = true
			}
			return true
		})
		c.Check("C15.c", "security.NewACL still splits on a single space", fn.Decl, same, "NewACL changed its splitting rule: re-establish the equivalence with configs.checkACL")
	}
	// placement rules: the loader builds them with placement.newRule (unknown name, missing value)
	if fn := c.MustFunc("C15.c", "configs.checkPlacementRule"); fn != nil {
		knows := false
		ast.Inspect(fn.Decl.Body, func(n ast.Node) bool {
			if sel, ok := n.(*ast.SelectorExpr); ok {
				if pk, isPkg := p.ObjOf(identOf(sel.X)).(*types.PkgName); isPkg && strings.HasSuffix(pk.Imported().Path(), "placement/types") {
					knows = true
				}
			}
			return true
		})
		c.Check("C15.c", "placement rule names and values validated like placement.newRule builds them", fn.Decl, knows, "checkPlacementRule only checks the syntax of the rule name: an unknown rule name, a tag/fixed rule without value or the recovery rule are accepted, and placement.newRule then fails when the partition is loaded (the placement manager stays without rules, or a reload fails half-way)")
	}

	// ------------------------------------------------------------------ C15.d order independence
	c.Rule("C15.d", "validator functions take no decision that depends on map iteration order: inside a range over a map only error returns, stores keyed by the range key and calls are allowed (no break, no last-wins assignment to an outer variable)")
	nMapRange := 0
	for _, fn := range p.funcs {
		if !inConfigs(fn) || fn.Decl.Body == nil || !strings.HasSuffix(p.Fset.Position(fn.Decl.Pos()).Filename, "configvalidator.go") {
			continue
		}
		ast.Inspect(fn.Decl.Body, func(n ast.Node) bool {
			rs, ok := n.(*ast.RangeStmt)
			if !ok {
				return true
			}
			if _, isMap := p.TypeOf(rs.X).Underlying().(*types.Map); !isMap {
				return true
			}
			nMapRange++
			bad := ""
			ast.Inspect(rs.Body, func(m ast.Node) bool {
				switch x := m.(type) {
				case *ast.BranchStmt:
					if x.Tok == token.BREAK {
						bad = "break inside the range (the first element in map order decides)"
					}
				case *ast.AssignStmt:
					for _, l := range x.Lhs {
						if id, ok := unparen(l).(*ast.Ident); ok && x.Tok == token.ASSIGN {
							if o := p.ObjOf(id); o != nil && o.Pos() < rs.Pos() && id.Name != "err" && id.Name != "_" {
								bad = "assignment to outer variable " + id.Name + " (last element in map order wins)"
							}
						}
					}
				}
				return true
			})
			c.Check("C15.d", "map range in "+fn.Name, rs, bad == "", "%s", bad)
			return true
		})
	}
	c.Floor("C15.d", "ranges over maps in the validator", nMapRange, 1)

	// ------------------------------------------------------------------ C15.f hierarchy shape
	c.Rule("C15.f", "checkQueueResource tests every queue maximum against the limit inherited from ALL its ancestors: the value handed to the children is ComponentWiseMin(own max, inherited max) and the own max is tested with inherited.FitInMaxUndef(own); children's guaranteed sums are tested against own guaranteed and own (merged) max")
	if fn := c.MustFunc("C15.f", "configs.checkQueueResource"); fn != nil {
		for _, call := range p.callsIn(fn, "configs.checkQueueResource") {
			st := p.StateAt(fn, call)
			ok := false
			if len(call.Args) >= 2 {
				for _, t := range p.chain(T(call.Args[1], st)) {
					if mc, isCall := unparen(t.E).(*ast.CallExpr); isCall && p.IsCall(mc, "resources.ComponentWiseMin") && len(mc.Args) >= 2 {
						if p.isParam(fn, mc.Args[1], 1) || p.isParam(fn, mc.Args[0], 1) {
							ok = true
						}
					}
				}
			}
			c.Check("C15.f", "children are checked against min(own max, inherited max)", call, ok, "the limit passed down to the children is %s, not ComponentWiseMin(own max, parent max): a resource type limited only by an ancestor is no longer enforced below a queue that limits other types", p.Src(call.Args[1]))
		}
		fit := false
		nFit := 0
		for _, call := range p.callsIn(fn, "resources.Resource.FitInMaxUndef") {
			nFit++
			if p.isParam(fn, Recv(call), 1) {
				fit = true
			}
		}
		c.Check("C15.f", "own max tested against the inherited max", fn.Decl, fit, "checkQueueResource no longer tests parentM.FitInMaxUndef(own max)")
		c.Check("C15.f", "guaranteed sums tested against guaranteed and max", fn.Decl, nFit >= 3, "checkQueueResource has only %d FitInMaxUndef tests, expected 3 (own max in parent, children sum in guaranteed, children sum in max)", nFit)
	}
	// C15.g name uniqueness uses the loader's normalisation
	c.Rule("C15.g", "sibling queue names and partition names are compared under the normalisation the loader applies (lower case): the duplicate maps are read and written with strings.ToLower(name)")
	for _, fnName := range []string{"configs.checkQueues", "configs.Validate"} {
		fn := c.MustFunc("C15.g", fnName)
		if fn == nil {
			continue
		}
		n := 0
		p.InspectDeep(fn, func(nd ast.Node) bool {
			ix, ok := nd.(*ast.IndexExpr)
			if !ok {
				return true
			}
			mt, isMap := p.TypeOf(ix.X).Underlying().(*types.Map)
			if !isMap || mt.Elem().String() != "bool" || mt.Key().String() != "string" {
				return true
			}
			if _, isLocal := unparen(ix.X).(*ast.Ident); !isLocal {
				return true
			}
			// only the maps keyed by the name of a queue or partition of the document
			named := false
			ast.Inspect(ix.Index, func(m ast.Node) bool {
				if sel, isSel := m.(*ast.SelectorExpr); isSel && sel.Sel.Name == "Name" {
					tn := p.TypeName(p.TypeOf(sel.X))
					if tn == "configs.QueueConfig" || tn == "configs.PartitionConfig" {
						named = true
					}
				}
				return true
			})
			if !named {
				return true
			}
			n++
			call, isCall := unparen(ix.Index).(*ast.CallExpr)
			c.Check("C15.g", "duplicate map "+p.Src(ix.X)+" keyed by lower-cased name in "+shortFn(fnName), ix, isCall && p.IsCall(call, "strings.ToLower"), "%s is keyed by %s: names that differ only in case are not detected as duplicates although the loader lower-cases queue names (the second queue silently replaces the first)", p.Src(ix.X), p.Src(ix.Index))
			return true
		})
		c.Floor("C15.g", "duplicate-name map accesses in "+shortFn(fnName), n, 2)
	}

	// ------------------------------------------------------------------ C15.e loaders return parser errors
	c.Rule("C15.e", "the loading code returns (does not swallow) the error of every failing parser it applies to a configuration field")
	var keys []string
	byKey := map[string]use{}
	for _, l := range loader {
		k := l.fn.Name + ": " + l.parser + " on " + strings.Join(l.chain, "/")
		if _, dup := byKey[k]; !dup {
			keys = append(keys, k)
			byKey[k] = l
		}
	}
	sort.Strings(keys)
	for _, k := range keys {
		l := byKey[k]
		call, _ := l.pos.(*ast.CallExpr)
		if call == nil || !parsers[p.CalleeName(call)] {
			continue
		}
		fn := l.fn
		// the error result reaches a return: some return of fn mentions a variable assigned from this call
		ok := false
		var errObj types.Object
		if as, isAs := p.Parent(call).(*ast.AssignStmt); isAs && len(as.Lhs) == 2 {
			if id, isID := as.Lhs[1].(*ast.Ident); isID {
				errObj = p.ObjOf(id)
			}
		}
		if errObj != nil {
			ast.Inspect(fn.Decl.Body, func(n ast.Node) bool {
				if rs, isRet := n.(*ast.ReturnStmt); isRet && rs.Pos() > call.Pos() {
					for _, r := range rs.Results {
						if p.mentionsObj(r, errObj) {
							ok = true
						}
					}
				}
				return true
			})
		}
		c.Check("C15.e", "parser error returned: "+k, call, ok, "%s does not return the error of %s", fn.Name, p.CalleeName(call))
	}
}
